"""C03 - serialise->parse round trip: termination on cyclic lists and
writer/reader escape-table agreement (DESIGN.md §2 C03)."""
from __future__ import annotations

import ast
import re

from vlib import loops
from vlib.core import AnalysisError, Repo, Report, norm, own_nodes

EXPLANATION = (
    "(a) Every loop in a serializer (and Collection / Graph.items, which RDF/XML uses) that follows rdf:rest from its "
    "own cursor terminates on a cyclic or malformed chain: counter bound, visited-set guard that leaves the loop, link "
    "removal, or the function is called only under a validator of the same argument that has such a guard. "
    "(b) The string-literal escape chains of the N-Triples and Turtle-family writers escape backslash first and cover "
    "the characters the grammars forbid raw, and every escape they emit is decoded by the readers' table back to the "
    "same character. Equality of the reparsed graph (numeric shorthand, qname splitting, bnode inlining, RDF/XML "
    "nesting, JSON-LD conversion) is value-level and not decided."
)


def _replace_chain(e: ast.AST) -> tuple[ast.AST, list[tuple[str, str]]]:
    """X.replace(a,b).replace(c,d) -> (X, [(a,b),(c,d)]) with constant args."""
    chain = []
    cur = e
    while isinstance(cur, ast.Call) and isinstance(cur.func, ast.Attribute) and cur.func.attr == "replace" and len(cur.args) == 2 \
            and all(isinstance(a, ast.Constant) and isinstance(a.value, str) for a in cur.args):
        chain.append((cur.args[0].value, cur.args[1].value))
        cur = cur.func.value
    chain.reverse()
    return cur, chain


def _char_class_of_escape_pattern(pattern: str) -> set[str]:
    """characters accepted after a backslash as ECHAR by a regex like \\\\(?:([tbnrf"'\\\\])|...)"""
    import re._parser as sre  # type: ignore

    out = set()
    tree = sre.parse(pattern)

    def walk(items):
        for op, av in items:
            name = str(op)
            if name == "IN":
                for o2, v2 in av:
                    if str(o2) == "LITERAL":
                        out.add(chr(v2))
            elif name in ("SUBPATTERN",):
                walk(av[3])
            elif name == "BRANCH":
                for alt in av[1]:
                    # only the first alternative group holds the ECHAR class; \\u.. alternatives contain ranges
                    walk(alt)
            elif name in ("MAX_REPEAT", "MIN_REPEAT"):
                pass
    walk(tree)
    return out


def run(repo: Repo, rep: Report) -> None:
    # every rule is a layer of its own (vlib.core.layer): a rule that loses its anchor - on the tree or on one of its equivalent views - is
    # recorded against that rule alone and the others are still judged
    from vlib.core import layer as _layer

    rep.extra["explanation"] = EXPLANATION
    _layer(rep, rule_a_list_walks, repo)
    _layer(rep, lambda repo_, rep_: escape_table_rules(repo_, rep_, "C03.b-escape-tables-agree"), repo)
    _layer(rep, rule_d_readers_keep_falsy, repo)
    _layer(rep, rule_c_xmlns, repo)
    _layer(rep, mark_before_descend, repo)


def rule_a_list_walks(repo: Repo, rep: Report) -> None:
    # ------------------------------------------------------------------ (a)
    rep.rule("C03.a-list-walk-terminates",
             "every while-loop in rdflib/plugins/serializers, rdflib/collection.py and Graph.items whose cursor is "
             "reassigned from its own rdf:rest is bounded (counter), guarded (visited set whose hit leaves the loop - a set of the function, or one kept by an object of a class of "
             "the package whose method, handed the cursor in the loop, raises on a node it was handed before and remembers the others), "
             "consumes the link, or lives in a function whose every call site is inside `if <validator>(same arg):` "
             "with a guarded validator (the `if` in the caller, or - the list head being handed down as a parameter - in every caller of the caller)", floor=8)
    from vlib.h_c03 import visited_guard_object

    scope = []
    for name, mod in repo.modules.items():
        if name.startswith("rdflib.plugins.serializers.") or name == "rdflib.collection":
            for q, f in mod.functions():
                scope.append((mod, q, f))
    gm = repo.mod("rdflib.graph")
    scope.append((gm, "Graph.items", gm.func("Graph.items")))
    nloops = 0
    for mod, q, f in scope:
        rep.analysed("%s:%s" % (mod.rel, q))
        found = list(loops.link_walk_loops(f)) + list(_pred_obj_walks(f))
        for loop, cur in found:
            nloops += 1
            why = loops.link_walk_guard(loop, cur, f)
            if why is None:
                why = visited_guard_object(repo, mod, f, loop, cur)
            if why is None:
                why = _validator_guard(repo, mod, q, f, cur)
            rep.ob("C03.a-list-walk-terminates", mod, q, "while %s: ... %s = rdf:rest of %s" % (norm(loop.test), cur, cur), why is not None,
                   why or "no counter, visited-set guard, link removal or guarded validator: serialisation never ends on a cyclic rdf:rest chain", node=loop)


def rule_d_readers_keep_falsy(repo: Repo, rep: Report) -> None:
    # (d) readers never drop a falsy value
    from vlib import truthy as _tr
    rep.rule("C03.d-readers-keep-falsy-values",
             "in the JSON-LD reader (Parser methods that build objects and lists) a converted value that may be a Literal is tested with `is None`, "
             "never by truthiness: 0, '' and false are values that were written and must come back", floor=1)
    jp = repo.mod("rdflib.plugins.parsers.jsonld")
    for m, f in jp.methods("Parser").items():
        _tr.scan(repo, rep, "C03.d-readers-keep-falsy-values", jp, f, "Parser." + m)
        rep.analysed("rdflib/plugins/parsers/jsonld.py:Parser." + m)


def rule_c_xmlns(repo: Repo, rep: Report) -> None:
    from checks.c05 import xmlns_agreement

    xmlns_agreement(repo, rep, "C03.c-rdfxml-prefixes-declared-as-used")


def mark_before_descend(repo: Repo, rep: Report) -> None:
    """(e) recursive Turtle-family writers mark a node done before they write its description"""
    from vlib.cfg import CFG

    rep.rule("C03.e-node-marked-done-before-its-description",
             "in the recursive Turtle-family serializers (turtle, n3, longturtle) a method that both marks a node (`self.subjectDone(x)`) and writes its description "
             "(`self.predicateList(x)`, `self.s_squared(x)`, `self.s_default(x)`, `self.s_clause(x)`) marks it first on every path: p_squared refuses to "
             "inline a node that is marked, and that is what keeps a blank-node cycle from being written inside itself (and a statement from being lost or repeated)", floor=5)
    DESCR = {"predicateList", "s_squared", "s_default", "s_clause"}  # doList marks every cell itself
    for modname in ("rdflib.plugins.serializers.turtle", "rdflib.plugins.serializers.n3", "rdflib.plugins.serializers.longturtle"):
        mod = repo.mod(modname)
        for q, f in mod.functions():
            marks = [c for c in own_nodes(f) if isinstance(c, ast.Call) and norm(c.func) == "self.subjectDone" and c.args]
            if not marks:
                continue
            g = None
            for c in own_nodes(f):
                if isinstance(c, ast.Call) and isinstance(c.func, ast.Attribute) and norm(c.func.value) == "self" and c.func.attr in DESCR and c.args:
                    x = norm(c.args[0])
                    ms = [m for m in marks if norm(m.args[0]) == x]
                    if not ms:
                        continue
                    g = g or CFG(f)
                    ok = g.must_pass_before(g.node_of(c, mod), [g.node_of(m, mod) for m in ms]) and not any(g.node_of(m, mod) == g.node_of(c, mod) and m.lineno > c.lineno for m in ms)
                    rep.ob("C03.e-node-marked-done-before-its-description", mod, q, c, ok,
                           "subjectDone(%s) precedes" % x if ok else
                           "%s can run before self.subjectDone(%s): while %s's own property list is being written it is not yet marked, so a blank-node path that leads back to it inlines it again" % (norm(c), x, x), node=c)


def escape_table_rules(repo: Repo, rep: Report, RULE: str) -> None:
    rep.rule(RULE,
             "the string escape maps of the N-Triples writer (the function NTSerializer.serialize reaches that rewrites characters by a constant map: "
             "a chain of str.replace, applied in sequence, or a str.translate table / per-character lookup, applied in one pass) and of the Turtle-family writer "
             "(Literal._quote_encode: what it can reach when `'\\n' in self` is false is the \"...\" form, what it can reach when it is true the triple-quoted form, which also takes a "
             "decision on `the last character is a double quote`) double the backslash before any escape is written (or in the same pass), cover the raw-forbidden characters of their quoting "
             "form, and emit only escapes that the readers' table (compat._string_escape_map + the ECHAR class of "
             "_turtle_escape_pattern, ntriples.r_quot) decodes to the original character", floor=8)
    compat = repo.mod("rdflib.compat")
    # reader table
    emap = None
    pattern = None
    for st in compat.tree.body:
        if isinstance(st, ast.Assign) and isinstance(st.targets[0], ast.Name):
            if st.targets[0].id == "_string_escape_map" and isinstance(st.value, ast.Dict):
                emap = {k.value: v.value for k, v in zip(st.value.keys, st.value.values) if isinstance(k, ast.Constant) and isinstance(v, ast.Constant)}
            if st.targets[0].id == "_turtle_escape_pattern" and isinstance(st.value, ast.Call) and st.value.args and isinstance(st.value.args[0], ast.Constant):
                pattern = st.value.args[0].value
    if not emap or pattern is None:
        raise AnalysisError("compat._string_escape_map / _turtle_escape_pattern not found")
    echars = _char_class_of_escape_pattern(pattern)
    ntp = repo.mod("rdflib.plugins.parsers.ntriples")
    rq = None
    for st in ntp.tree.body:
        if isinstance(st, ast.Assign) and isinstance(st.targets[0], ast.Name) and st.targets[0].id == "r_quot" and isinstance(st.value, ast.Call) \
                and st.value.args and isinstance(st.value.args[0], ast.Constant):
            rq = _char_class_of_escape_pattern(st.value.args[0].value)
    if rq is None:
        raise AnalysisError("ntriples.r_quot not found")
    rep.info["reader_echar_class"] = sorted(echars)
    rep.ob(RULE, compat, "_turtle_escape_pattern", "ECHAR class == keys of _string_escape_map", echars == set(emap),
           "regex class and decode table agree" if echars == set(emap) else "class %s vs table keys %s" % (sorted(echars), sorted(emap)), node=compat.tree)
    rep.ob(RULE, ntp, "r_quot", "validating N-Triples ECHAR class == decode table keys", rq == set(emap),
           "agree" if rq == set(emap) else "r_quot class %s vs table keys %s" % (sorted(rq), sorted(emap)), node=ntp.tree)

    def check_chain(mod, q, chain: list[tuple[str, str]], must: set[str], form: str, node, simultaneous: bool = False):
        """`chain`: (character(s), what is written for them) in the order of application; `simultaneous`: applied in one pass over the
        string (str.translate, a per-character table), so that no replacement reads what another one wrote"""
        eff = [(a, b) for a, b in chain]
        srcs = [a for a, _ in eff]
        # backslash first among the replacements that introduce backslashes
        intro = [i for i, (a, b) in enumerate(eff) if "\\" in b]
        bs = [i for i, (a, b) in enumerate(eff) if a == "\\"]
        ok_first = bool(bs) and (simultaneous or not intro or bs[0] == min(intro))
        rep.ob(RULE, mod, q, "%s: backslash escaped first (%s)" % (form, [a for a, _ in eff]), ok_first,
               ("the backslash is doubled in the same pass as the escapes are written: no escape is escaped again" if simultaneous else "the backslash is doubled before any escape is introduced") if ok_first else
               "an escape is introduced before the backslash is doubled (or the backslash is never escaped): escapes get double-escaped / raw backslashes corrupt the string", node=node)
        missing = must - set(srcs)
        rep.ob(RULE, mod, q, "%s: covers %s" % (form, sorted(must)), not missing,
               "all raw-forbidden characters escaped" if not missing else "character(s) %r are written raw although the grammar forbids them in this quoting form" % sorted(missing), node=node)
        for a, b in eff:
            if a == "\\":
                ok = b == "\\\\"
            elif len(a) == 1:
                ok = len(b) == 2 and b[0] == "\\" and b[1] in echars and emap.get(b[1]) == a
            else:
                # multi-char source such as '"""' -> each char escaped individually
                parts = re.findall(r"\\(.)", b)
                ok = "".join(emap.get(x, "?") for x in parts) == a and len(b) == 2 * len(a)
            rep.ob(RULE, mod, q, "%s: %r -> %r" % (form, a, b), ok,
                   "decoded back to %r by the reader table" % a if ok else "the reader does not decode %r back to %r" % (b, a), node=node)

    # the N-Triples writer: the function(s) that NTSerializer.serialize reaches in its module and that rewrite characters by a constant map
    # (a chain of str.replace, a str.translate table, a per-character lookup) - found by what they do, whatever they are called
    from vlib.h_c03 import escape_maps, module_call_closure

    ntw = repo.mod("rdflib.plugins.serializers.nt")
    found = []
    for q in module_call_closure(ntw, ["NTSerializer.serialize"]):
        for em in escape_maps(ntw, ntw.defs[q], repo=repo):
            found.append((q, em))
    if not found:
        raise AnalysisError("nt: no escape map (chain of str.replace / str.translate table) found in what NTSerializer.serialize calls")
    q, em = max(found, key=lambda x: len(x[1].pairs))
    rep.analysed("rdflib/plugins/serializers/nt.py:" + q)
    check_chain(ntw, q, em.pairs, {"\\", "\n", "\r", '"'}, 'N-Triples "..."', em.node, simultaneous=em.simultaneous)

    term = repo.mod("rdflib.term")
    f = term.func("Literal._quote_encode")
    rep.analysed("rdflib/term.py:Literal._quote_encode")
    # the two quoting forms are the two sides of the function's decision on `"\n" in self`: what control can reach when that is false is the
    # single-line form "...", what it can reach when it is true the triple-quoted form - however the decision is written (if / else either way
    # round, `not in`, a guard clause that returns, a flag); a replacement that both sides reach belongs to both
    from vlib.h_c03 import local_defs, params, reachable_nodes

    me = params(f)[0]

    def newline_atom(value: bool):
        def atom(e: ast.AST, depth: int = 2):
            if isinstance(e, ast.Compare) and len(e.ops) == 1 and isinstance(e.left, ast.Constant) and e.left.value == "\n" and norm(e.comparators[0]) in (me, "str(%s)" % me):
                if isinstance(e.ops[0], ast.In):
                    return value
                if isinstance(e.ops[0], ast.NotIn):
                    return not value
            if isinstance(e, ast.Name) and depth and e.id != me:
                ds = local_defs(f, e.id)
                if len(ds) == 1:
                    return atom(ds[0], depth - 1)
            return None
        return atom

    g, multi = reachable_nodes(f, newline_atom(True))
    _, single = reachable_nodes(f, newline_atom(False), g)
    if not (single - multi) or not (multi - single):
        raise AnalysisError("Literal._quote_encode: `if '\\n' in self` selector not found")
    all_maps = [(m_, g.node_of(m_.node, term)) for m_ in escape_maps(term, f, min_chain=1, repo=repo)]
    # single-line form: the replacements in the order in which they are applied (statement order, within a chain innermost first);
    # replacements of "\n" are dead there (folded away)
    maps = [m_ for m_, nid in all_maps if nid in single]
    if not maps:
        raise AnalysisError("Literal._quote_encode: single-line escape map (chain of str.replace / str.translate table) not found")
    one_pass = len(maps) == 1 and maps[0].simultaneous
    ch = [(a, b) for m_ in maps for a, b in (m_.pairs if one_pass else m_.as_sequence()) if a != "\n"]  # "\n" not in self on this side: no-op
    check_chain(term, "Literal._quote_encode", ch, {"\\", "\r", '"'}, 'Turtle "..." (no newline in value)', maps[0].node, simultaneous=one_pass)
    # triple-quoted form: a sequence of statements; a one-pass table counts as its replacements with the backslash first
    tmaps = [m_ for m_, nid in all_maps if nid in multi]
    seq: list[tuple[str, str]] = []
    for m_ in tmaps:
        seq += m_.as_sequence()
    if not seq:
        raise AnalysisError("Literal._quote_encode: triple-quoted replace sequence not found")
    tnode = tmaps[0].node
    check_chain(term, "Literal._quote_encode", seq, {"\\", "\r", '"""'}, 'Turtle """..."""', tnode)
    # trailing quote handling: a value ending in a quote must not run into the closing delimiter: on the triple-quoted side a decision is taken
    # on `the last character is a double quote` (x[-1] == '"', x[-1:] == '"', x.endswith('"'))

    def _minus_one(e: ast.AST) -> bool:
        return (isinstance(e, ast.UnaryOp) and isinstance(e.op, ast.USub) and isinstance(e.operand, ast.Constant) and e.operand.value == 1) or (isinstance(e, ast.Constant) and e.value == -1)

    def ends_with_quote(e: ast.AST) -> bool:
        if isinstance(e, ast.Compare) and len(e.ops) == 1 and isinstance(e.ops[0], (ast.Eq, ast.NotEq, ast.In, ast.NotIn)):
            for a, b in ((e.left, e.comparators[0]), (e.comparators[0], e.left)):
                if isinstance(b, ast.Constant) and b.value == '"' and isinstance(a, ast.Subscript) and (
                        _minus_one(a.slice) or (isinstance(a.slice, ast.Slice) and a.slice.lower is not None and _minus_one(a.slice.lower) and a.slice.upper is None and a.slice.step is None)):
                    return True
        if isinstance(e, ast.Call) and isinstance(e.func, ast.Attribute) and e.func.attr == "endswith" and len(e.args) == 1 and not e.keywords:
            a = e.args[0]
            return (isinstance(a, ast.Constant) and a.value == '"') or (isinstance(a, ast.Tuple) and bool(a.elts) and all(isinstance(x, ast.Constant) and x.value == '"' for x in a.elts))
        return False

    tail = any(isinstance(n, ast.If) and id(n) in g.by_ast and g.by_ast[id(n)] in multi and any(ends_with_quote(x) for x in ast.walk(n.test)) for n in own_nodes(f))
    rep.ob(RULE, term, "Literal._quote_encode", 'Turtle """...""": trailing quote escaped', tail,
           "a value ending in a double quote is escaped before the closing delimiter" if tail else
           'a value ending in " would merge with the closing """', node=tnode)


def _pred_obj_walks(fn: ast.AST):
    """second link-walk form: `while cur: for p, o in g.predicate_objects(cur): ... if p == RDF.rest: tmp = o ... cur = tmp`"""
    for n in own_nodes(fn, include_nested=False):
        if not isinstance(n, ast.While):
            continue
        for inner in ast.walk(n):
            if isinstance(inner, ast.For):
                itn = loops.names(inner.iter, ast.Load)
                for a in ast.walk(inner):
                    if isinstance(a, ast.If) and any(loops._is_rest(x) for x in ast.walk(a.test)):
                        for s in a.body:
                            if isinstance(s, ast.Assign) and isinstance(s.targets[0], ast.Name):
                                tmp = s.targets[0].id
                                # cursor = tmp later in the while body
                                for b in ast.walk(n):
                                    if isinstance(b, ast.Assign) and isinstance(b.targets[0], ast.Name) and isinstance(b.value, ast.Name) and b.value.id == tmp:
                                        cur = b.targets[0].id
                                        if cur in itn:
                                            yield n, cur
                                            return


def _validator_guard(repo: Repo, mod, q: str, f: ast.FunctionDef, cur: str) -> str | None:
    """(iv) every call site of this method is made for a list head that `self.<V>(<same node>)` has accepted - `self.<V>(arg)` is known
    to have answered true at the call (h_c03.enclosing_validator: inside `if self.<V>(arg):`, in the else of `if not self.<V>(arg):`, after
    a guard clause ...), or the head is handed down as a parameter by a method every call of which does - where V walks the same
    parameter with a guard."""
    from vlib.h_c03 import arg_of, params, validators_of, visited_guard_object

    if cur not in params(f)[1:]:
        return None
    cls = q.rsplit(".", 1)[0] if "." in q else None

    def sites_of(fn):
        return [(mod, f2, c) for q2, f2 in mod.functions() for c in own_nodes(f2)
                if isinstance(c, ast.Call) and isinstance(c.func, ast.Attribute) and c.func.attr == fn.name and isinstance(c.func.value, ast.Name) and c.func.value.id == "self"]

    def guarded_validator(vname: str) -> bool:
        vq = (cls + "." if cls else "") + vname
        if not mod.has(vq):
            return False
        vf = mod.func(vq)
        return any(vcur in params(vf) and (loops.link_walk_guard(vloop, vcur, vf) or visited_guard_object(repo, mod, vf, vloop, vcur)) for vloop, vcur in loops.link_walk_loops(vf))

    sites = sites_of(f)
    if not sites:
        return None
    for _, f2, c in sites:
        if not validators_of(mod, f2, c, arg_of(c, f, cur), sites_of, accept=guarded_validator):
            return None
    return "every call site (%d) is made for a list head that `self.<validator>(same list head)` accepted, and the validator's walk of that chain is guarded" % len(sites)


from vlib.core import layer as _layer  # noqa: E402

_run_base = run


def run(repo: Repo, rep: Report) -> None:  # noqa: F811
    _layer(rep, _run_base, repo)
    from vlib import memo

    rep.rule("C03.f-serializer-memos-key-complete",
             "every memo of a serializer class (prefix rewrite tables, done-sets filled on a miss) is keyed by every re-bindable instance attribute its value is computed "
             "from (the store / graph being written, the base), or re-binding that attribute invalidates the memo", floor=4)
    memo.scan(repo, rep, "C03.f-serializer-memos-key-complete", sorted(m for m in repo.modules if m.startswith("rdflib.plugins.serializers.")))

    # (k) no stale loop variable in serializers
    from vlib.loops import stale_loop_variable_reads

    rep.rule("C03.k-no-stale-loop-variable",
             "in the serializer modules no loop reads a name whose only bindings are the targets of earlier, already finished loops of the same function: it would see that "
             "loop's last element in every iteration (a `for bnode in bnodes: self.subject(subject, 1)` writes one subject n times and the others never)", floor=20)
    for modname in sorted(m for m in repo.modules if m.startswith("rdflib.plugins.serializers.")):
        mod = repo.mod(modname)
        for q, f in mod.functions():
            fl = sorted((n for n in own_nodes(f) if isinstance(n, (ast.For, ast.AsyncFor))), key=lambda n: (n.lineno, n.col_offset))
            if len(fl) < 2:
                continue
            stale = dict((id(l), names_) for l, names_ in stale_loop_variable_reads(f))
            for l in fl[1:]:
                st = stale.get(id(l))
                rep.ob("C03.k-no-stale-loop-variable", mod, q, "for %s in %s" % (norm(l.target), norm(l.iter)[:40]), st is None,
                       "uses its own variables" if st is None else "the loop reads %s, bound only by an earlier loop that has finished: every iteration works on that loop's last element, the elements of this loop are never written" % st, node=l)

    # (g) JSON-LD: every subject is written
    rep.rule("C03.g-jsonld-every-subject-written",
             "JSON-LD serializer, Converter.from_graph: node objects are created by process_subject, which is reached from the top-level loop(s) over graph.subjects() and, "
             "for blank nodes, from a node that references them. A blank node whose every referrer is itself only reachable that way (a cycle, or a node referenced "
             "through a compact @id value) is reached from nowhere, so some loop over the subjects must call process_subject for blank nodes under a condition that "
             "does not ask whether the node is referenced (only: it is a BNode, it was not folded into a @list, it is not a list cell)", floor=2)
    jm = repo.mod("rdflib.plugins.serializers.jsonld")
    fg = jm.func("Converter.from_graph")
    calls = [c for c in own_nodes(fg) if isinstance(c, ast.Call) and norm(c.func) == "self.process_subject"]
    if not calls:
        raise AnalysisError("Converter.from_graph no longer calls process_subject")
    unconditional = []
    for c in calls:
        conds = []
        child = c
        for p_ in jm.parents(c):
            if isinstance(p_, ast.If) and any(child is x or any(child is y for y in ast.walk(x)) for x in p_.body):
                conds.append(p_.test)
            if p_ is fg:
                break
            child = p_
        asks_referenced = any(isinstance(n, ast.Call) and isinstance(n.func, ast.Attribute) and n.func.attr in ("subjects", "subject_predicates", "triples") for t in conds for n in ast.walk(t))
        rep.ob("C03.g-jsonld-every-subject-written", jm, "Converter.from_graph", "%s under [%s]" % (norm(c), "; ".join(norm(t)[:70] for t in conds) or "no condition"), True,
               "asks whether the node is referenced (ordering heuristic)" if asks_referenced else "does not depend on the node being referenced", node=c)
        if not asks_referenced:
            unconditional.append(c)
    rep.ob("C03.g-jsonld-every-subject-written", jm, "Converter.from_graph", "a pass over the subjects that does not depend on being referenced", bool(unconditional),
           "every blank-node subject is visited" if unconditional else
           "every process_subject call in from_graph is guarded by a referenced-ness test: blank nodes that reference only each other (`_:a p _:b . _:b p _:a`) - or that are referenced "
           "through a term coerced to @id - are never written; their triples are silently missing from the output", node=fg)

    # (h) JSON-LD: only cells with a single referrer are folded into @list
    rep.rule("C03.h-jsonld-folded-list-cells-have-one-referrer",
             "JSON-LD serializer, Converter.to_collection: the rdf:rest walk that turns a chain of cells into a @list value gives up (returns None) for a cell that is "
             "referenced from more than one place - a shared list, a shared tail - because a @list value has no identity: written twice it is read back as two lists", floor=1)
    tc = jm.func("Converter.to_collection")
    loops_ = [n for n in own_nodes(tc) if isinstance(n, ast.While)]
    if not loops_:
        raise AnalysisError("Converter.to_collection: rdf:rest walk not found")
    cur = norm(loops_[0].test)
    hit = None
    for n in ast.walk(loops_[0]):
        if isinstance(n, ast.If) and any(isinstance(r, ast.Return) and isinstance(r.value, ast.Constant) and r.value.value is None for r in n.body):
            for c in ast.walk(n.test):
                if isinstance(c, ast.Call) and isinstance(c.func, ast.Attribute) and c.func.attr in ("subject_predicates", "subjects", "triples") and any(cur in norm(a) for a in c.args):
                    hit = n
    rep.ob("C03.h-jsonld-folded-list-cells-have-one-referrer", jm, "Converter.to_collection", hit.test if hit is not None else "referrer count of %s tested in the walk" % cur, hit is not None,
           "shared cells are not folded" if hit is not None else
           "no cell of the chain is checked for other referrers: `s p _:l ; q _:l . _:l = (1 2)` is written as two @list values and read back as two different lists (extra triples, not isomorphic)", node=hit or tc)

    # (i) Turtle family: what is written as ( ... ) is a well-formed, unshared list of blank cells
    rep.rule("C03.i-turtle-collection-validator",
             "TurtleSerializer / LongTurtleSerializer.isValidList decide whether a node is written as ( ... ), which records only the rdf:first values of the chain: for every cell "
             "of the walk they require (1) a blank node - an IRI-named cell has an identity the abbreviation cannot express, (2) no second referrer (the per-node count that preprocess() keeps in a `self.<A>[node] += 1`, read for a cell "
             "after the head) - a shared tail would lose its identity, (3) exactly the properties rdf:first and rdf:rest, by name - a bare property count accepts a cell with "
             "rdf:first plus some other property and drops that property", floor=6)
    for modname, cname in (("rdflib.plugins.serializers.turtle", "TurtleSerializer"), ("rdflib.plugins.serializers.longturtle", "LongTurtleSerializer")):
        mod = repo.mod(modname)
        f = mod.func(cname + ".isValidList")
        wl = [n for n in own_nodes(f) if isinstance(n, ast.While)]
        if not wl:
            raise AnalysisError("%s.isValidList: walk not found" % cname)
        loop = wl[0]
        cur = None
        for n in ast.walk(loop):
            if isinstance(n, ast.Assign) and isinstance(n.targets[0], ast.Name) and "RDF.rest" in norm(n.value):
                cur = n.targets[0].id
        if cur is None:
            raise AnalysisError("%s.isValidList: cursor not found" % cname)
        rejects = [n for n in ast.walk(loop) if isinstance(n, ast.If) and any(isinstance(r, ast.Return) and isinstance(r.value, ast.Constant) and r.value.value is False for r in n.body)]
        tests = [t for n in rejects for t in [n.test]]
        txt = [norm(t) for t in tests]
        c1 = any("isinstance(%s, BNode)" % cur in t for t in txt)
        # the referrer count, by role: a `self.<A>` that the preprocessing pass of the class increments per node (h_c03.referrer_counters),
        # read for the cursor of the walk in a rejecting test
        from vlib.h_c03 import referrer_counters

        counters = referrer_counters(repo, modname + "." + cname)
        if not counters:
            raise AnalysisError("%s: no per-node referrer count (`self.<A>[node] += 1` in what preprocess() reaches) found" % cname)
        c2 = any(isinstance(s_, ast.Subscript) and isinstance(s_.ctx, ast.Load) and isinstance(s_.slice, ast.Name) and s_.slice.id == cur
                 and isinstance(s_.value, ast.Attribute) and norm(s_.value.value) == "self" and s_.value.attr in counters
                 for t in tests for s_ in ast.walk(t))
        c3 = any("RDF.first" in t and "RDF.rest" in t for t in txt)
        for ok, what, why in ((c1, "cells must be blank nodes", "an IRI-named cell inside the chain is written as an anonymous member of ( ... ): the IRI and its link are lost"),
                              (c2, "cells after the head have no second referrer", "a list tail that is also referenced from elsewhere (`:t :tail _:c2`) is folded into ( ... ); the other reference dangles"),
                              (c3, "a cell has exactly rdf:first and rdf:rest (by name)", "a cell with rdf:first and one other property passes a bare count of 2: it is written as ( x ) and the other property is dropped")):
            rep.ob("C03.i-turtle-collection-validator", mod, cname + ".isValidList", what, ok, "rejected by a test in the walk" if ok else why, node=loop)

    # (j) RDF/XML pretty: parseType="Collection" only for lists it can express
    rep.rule("C03.j-prettyxml-collection-validator",
             "PrettyXMLSerializer.predicate writes parseType=\"Collection\" (which records only the members, as node elements) only under the result of a validator method whose "
             "walk rejects a chain unless every cell is a blank node, has no other referrer, has exactly rdf:first and rdf:rest, and its member is not a literal (a literal cannot "
             "be a node element); and it marks every cell of the chain as written, not only the head (otherwise the inner cells are emitted a second time) - "
             "in the set that subject() consults and fills before it writes a description (`if subject not in self.<A>: self.<A>[subject] = ...`), by a loop over the validator's result or one update() with an entry per cell", floor=5)
    rx = repo.mod("rdflib.plugins.serializers.rdfxml")
    pf = rx.func("PrettyXMLSerializer.predicate")
    attrs = [c for c in own_nodes(pf) if isinstance(c, ast.Call) and norm(c.func).endswith(".attribute") and len(c.args) == 2 and isinstance(c.args[1], ast.Constant) and c.args[1].value == "Collection"]
    if not attrs:
        rep.ob("C03.j-prettyxml-collection-validator", rx, "PrettyXMLSerializer.predicate", "parseType=Collection is not used", True, "no abbreviation, nothing to validate", node=pf)
    for c in attrs:
        guard = None
        child = c
        for p_ in rx.parents(c):
            if isinstance(p_, ast.If) and any(child is x or any(child is y for y in ast.walk(x)) for x in p_.body):
                guard = p_
                break
            if p_ is pf:
                break
            child = p_
        validator = None
        if guard is not None:
            names = {n.id for n in ast.walk(guard.test) if isinstance(n, ast.Name)}
            for a in own_nodes(pf):
                aval = a.value if isinstance(a, ast.Assign) else None
                if isinstance(aval, ast.IfExp):  # `cells = self.<validator>(x) if <depth bound> else None`
                    aval = aval.body if isinstance(aval.body, ast.Call) else aval.orelse
                if isinstance(a, ast.Assign) and isinstance(a.targets[0], ast.Name) and a.targets[0].id in names and isinstance(aval, ast.Call) \
                        and isinstance(aval.func, ast.Attribute) and norm(aval.func.value) == "self":
                    mname = aval.func.attr
                    for q, f in rx.functions():
                        if q.startswith("PrettyXMLSerializer.") and (q.endswith("." + mname) or q.endswith("." + mname.split("__")[-1]) or q.split(".")[-1].lstrip("_") == mname.lstrip("_").replace("PrettyXMLSerializer__", "")):
                            validator = (q, f, a.targets[0].id)
        if validator is None:
            rep.ob("C03.j-prettyxml-collection-validator", rx, "PrettyXMLSerializer.predicate", c, False,
                   "parseType=\"Collection\" is chosen without a validator of the chain (only the existence of an rdf:first is tested): a literal member is written as <rdf:Description rdf:about=\"1\"/> (an IRI), "
                   "cells with other properties or other referrers lose them, and the inner cells of the chain are written a second time as top-level nodes", node=c)
            continue
        q, f, var = validator
        wl = [n for n in own_nodes(f) if isinstance(n, ast.While)]
        txt = []
        if wl:
            for n in ast.walk(wl[0]):
                if isinstance(n, ast.If) and any(isinstance(r, ast.Return) and isinstance(r.value, ast.Constant) and r.value.value is None for r in n.body):
                    txt.append(norm(n.test))
        conds = (
            (any("isinstance(" in t and "BNode" in t for t in txt), "cells must be blank nodes", "an IRI-named cell loses its identity"),
            (any("triples((None, None," in t or "subjects(" in t or "subject_predicates(" in t for t in txt), "cells have no other referrer", "a shared list or tail is copied"),
            (any("RDF.first" in t and "RDF.rest" in t for t in txt), "a cell has exactly rdf:first and rdf:rest", "other assertions on a cell are dropped"),
            (any("Literal" in t for t in txt), "members are not literals", "a literal member is written as a node element with rdf:about=<its text>, i.e. as an IRI"),
        )
        for ok, what, why in conds:
            rep.ob("C03.j-prettyxml-collection-validator", rx, q, what, ok, "rejected by the validator" if ok else why, node=f)
        # the written-set of the class, by what it does: the `self.<A>` that subject() - which writes the description of a node - stores its node
        # under where the node is known not to be in it yet (`if subject not in self.A: self.A[subject] = ...`)
        from vlib.h_c03 import facts_at as _facts_at, params as _params

        sf_ = rx.func("PrettyXMLSerializer.subject")
        written = set()
        for st_ in own_nodes(sf_):
            if isinstance(st_, ast.Subscript) and isinstance(st_.ctx, ast.Store) and isinstance(st_.slice, ast.Name) and st_.slice.id in _params(sf_)[1:] \
                    and isinstance(st_.value, ast.Attribute) and norm(st_.value.value) == "self":
                for e_, pol_ in _facts_at(rx, sf_, st_):
                    if isinstance(e_, ast.Compare) and len(e_.ops) == 1 and norm(e_.left) == st_.slice.id and norm(e_.comparators[0]) == norm(st_.value) \
                            and ((isinstance(e_.ops[0], ast.NotIn) and pol_) or (isinstance(e_.ops[0], ast.In) and not pol_)):
                        written.add(norm(st_.value))
        if not written:
            raise AnalysisError("PrettyXMLSerializer.subject: the set of written nodes (`if subject not in self.<A>: self.<A>[subject] = ...`) was not found")
        marks_all = any(isinstance(l, (ast.For,)) and var in {x.id for x in ast.walk(l.iter) if isinstance(x, ast.Name)} and isinstance(l.target, ast.Name)
                        and any(isinstance(a, ast.Subscript) and isinstance(a.ctx, ast.Store) and norm(a.value) in written and norm(a.slice) == l.target.id for a in ast.walk(l))
                        for l in ast.walk(guard))

        def _every_cell(x: ast.AST) -> bool:
            """x has one entry per cell of the validator's result: the result itself, dict.fromkeys(result, ...), {c: ... for c in result}"""
            if isinstance(x, ast.Name):
                return x.id == var
            if isinstance(x, ast.Call) and norm(x.func) == "dict.fromkeys" and x.args:
                return _every_cell(x.args[0])
            if isinstance(x, (ast.DictComp, ast.SetComp, ast.ListComp, ast.GeneratorExp)) and len(x.generators) == 1 and not x.generators[0].ifs and isinstance(x.generators[0].target, ast.Name) \
                    and _every_cell(x.generators[0].iter):
                k = x.key if isinstance(x, ast.DictComp) else x.elt
                return isinstance(k, ast.Name) and k.id == x.generators[0].target.id
            return False
        # (the same in one call: self.<A>.update(<an entry per cell>))
        marks_all = marks_all or any(isinstance(c_, ast.Call) and isinstance(c_.func, ast.Attribute) and c_.func.attr == "update" and norm(c_.func.value) in written and len(c_.args) == 1
                                     and not c_.keywords and _every_cell(c_.args[0]) for c_ in ast.walk(guard))
        rep.ob("C03.j-prettyxml-collection-validator", rx, "PrettyXMLSerializer.predicate", "every cell of the chain is marked written", marks_all,
               "" if marks_all else "only the head cell is marked: the remaining cells are written again as top-level descriptions (extra triples after parsing)", node=guard)


_run_base2 = run


def run(repo: Repo, rep: Report) -> None:  # noqa: F811
    _layer(rep, _run_base2, repo)
    # ------------------------------------------------------------------ (l)
    rep.rule("C03.l-xmlwriter-raw-text-has-no-carriage-return",
             "XMLWriter.text (used by pretty-xml and TriX) writes text either escaped - escape(text, {'\\r': '&#13;'}) - or raw inside CDATA. CDATA cannot carry a character reference, "
             "and XML line-end normalisation turns a raw CR (and CR LF) into LF, so the raw branch is taken only under a test that the text contains no CR", floor=1)
    xw = repo.mod("rdflib.plugins.serializers.xmlwriter")
    tf = xw.func("XMLWriter.text")
    tparam = tf.args.args[1].arg
    raws = [c for c in own_nodes(tf) if isinstance(c, ast.Call) and norm(c.func).endswith("stream.write") and c.args and norm(c.args[0]) == tparam]
    if not raws:
        rep.ob("C03.l-xmlwriter-raw-text-has-no-carriage-return", xw, "XMLWriter.text", "no raw write of the text", True, "always escaped", node=tf)
    for c in raws:
        guarded = False
        child = c
        for p_ in xw.parents(c):
            if isinstance(p_, ast.If) and any(child is x or any(child is y for y in ast.walk(x)) for x in p_.body):
                for t in ast.walk(p_.test):
                    if isinstance(t, ast.Compare) and isinstance(t.ops[0], ast.NotIn) and isinstance(t.left, ast.Constant) and t.left.value == "\r" and norm(t.comparators[0]) == tparam:
                        guarded = True
            if p_ is tf:
                break
            child = p_
        rep.ob("C03.l-xmlwriter-raw-text-has-no-carriage-return", xw, "XMLWriter.text", c, guarded,
               "only for text without CR" if guarded else "text containing `<`, `>` and a carriage return is written raw inside CDATA: Literal('a<b>\\rc') is read back as 'a<b>\\nc'", node=c)

    # ------------------------------------------------------------------ (m)
    rep.rule("C03.m-serialize-starts-from-reset-state",
             "serialize() of every recursive Turtle-family serializer (turtle, n3 via turtle, trig, longturtle) calls self.reset() before it preprocesses: the done-set, reference "
             "counts and namespace table of a previous run on the same serializer object would otherwise make the second document come out without its statements", floor=3)
    for modname, cname in (("rdflib.plugins.serializers.turtle", "TurtleSerializer"), ("rdflib.plugins.serializers.trig", "TrigSerializer"), ("rdflib.plugins.serializers.longturtle", "LongTurtleSerializer")):
        mod = repo.mod(modname)
        f = mod.func(cname + ".serialize")
        resets = [c for c in own_nodes(f) if isinstance(c, ast.Call) and norm(c.func) == "self.reset"]
        pre = [c for c in own_nodes(f) if isinstance(c, ast.Call) and norm(c.func) in ("self.preprocess", "self.startDocument")]
        ok = bool(resets) and (not pre or min(r.lineno for r in resets) < min(p_.lineno for p_ in pre))
        rep.ob("C03.m-serialize-starts-from-reset-state", mod, cname + ".serialize", resets[0] if resets else "self.reset() before preprocess()", ok,
               "" if ok else "serialize() does not reset the per-run state: a second serialize() on the same serializer object finds every subject `done` and writes only the prefix header", node=resets[0] if resets else f)

    # ------------------------------------------------------------------ (i, continued): the cell's properties are compared unfiltered
    for modname, cname in (("rdflib.plugins.serializers.turtle", "TurtleSerializer"), ("rdflib.plugins.serializers.longturtle", "LongTurtleSerializer")):
        mod = repo.mod(modname)
        f = mod.func(cname + ".isValidList")
        for n in own_nodes(f):
            if isinstance(n, (ast.GeneratorExp, ast.ListComp, ast.SetComp)) and any("predicate_objects" in norm(g_.iter) for g_ in n.generators):
                filtered = [norm(c) for g_ in n.generators for c in g_.ifs]
                rep.ob("C03.i-turtle-collection-validator", mod, cname + ".isValidList", "all properties of a cell are compared (%s)" % norm(n)[:60], not filtered,
                       "unfiltered" if not filtered else "the comparison skips properties matching `%s`: a cell carrying such a triple is still abbreviated to ( ... ) and the triple is dropped" % filtered[0], node=n)


_run_base3 = run


def run(repo: Repo, rep: Report) -> None:  # noqa: F811
    _layer(rep, _run_base3, repo)
    rep.rule("C03.n-relative-form-resolves-back",
             "a serializer that writes an IRI relative to the base by cutting the base off its front (uri.replace(base, '', 1)) keeps that form only if resolving it against the base "
             "gives the IRI back (a comparison with urljoin(base, relative) / a join function), or delegates to a relativize() that does: the cut of <http://e/a/bc> against "
             "<http://e/a/b> is `c` = <http://e/a/c>; a remainder `c:d` reads as an absolute IRI; against a base ending in `#` the remainder `x` resolves to a sibling path", floor=2)
    mods = [repo.mod("rdflib.serializer")] + [repo.mod(m) for m in sorted(repo.modules) if m.startswith("rdflib.plugins.serializers.")]
    n_rel = 0
    for mod in mods:
        for q, f in mod.functions():
            if q.split(".")[-1] != "relativize":
                continue
            n_rel += 1
            cuts = [c for c in own_nodes(f) if isinstance(c, ast.Call) and isinstance(c.func, ast.Attribute) and c.func.attr == "replace" and len(c.args) >= 2 and isinstance(c.args[1], ast.Constant) and c.args[1].value == ""]
            builds = [c for c in own_nodes(f) if isinstance(c, ast.Call) and norm(c.func) == "URIRef"]
            delegates = any(isinstance(c, ast.Call) and norm(c.func) in ("super().relativize", "Serializer.relativize") for c in own_nodes(f))
            checks = any(isinstance(c, ast.Compare) and isinstance(c.ops[0], ast.Eq) for c in own_nodes(f)) and any(isinstance(c, ast.Call) and norm(c.func).split(".")[-1] in ("urljoin", "join") for c in own_nodes(f))
            if not builds:
                ok = delegates or not cuts
                rep.ob("C03.n-relative-form-resolves-back", mod, q, "delegates the relative form", ok, "to a checked relativize()" if ok else "cuts the base off without building or delegating", node=f)
                continue
            rep.ob("C03.n-relative-form-resolves-back", mod, q, builds[0], checks or delegates,
                   "kept only if it resolves back" if (checks or delegates) else
                   "the base is cut off the front of the IRI and the remainder is written as a relative reference without checking that it resolves back: with base <http://e/a/b>, <http://e/a/bc> is written <c> and read as <http://e/a/c>", node=builds[0])
    if n_rel < 2:
        raise AnalysisError("expected Serializer.relativize and RecursiveSerializer.relativize")


# ====================================================================== rules o .. aa (pins of F142-F163)


def _ser_modules(repo: Repo, shared: bool = True):
    out = [repo.mod("rdflib.serializer")]
    out += [repo.mod(m) for m in sorted(repo.modules) if m.startswith("rdflib.plugins.serializers.")]
    if shared:
        out.append(repo.mod("rdflib.plugins.shared.jsonld.context"))
    return out


def _stmt_of(mod, node: ast.AST) -> ast.AST:
    if isinstance(node, ast.stmt):
        return node
    for p in mod.parents(node):
        if isinstance(p, ast.stmt):
            return p
    raise AnalysisError("expression without a statement")


def _in_test_position(mod, node: ast.AST) -> bool:
    """the value of `node` only feeds the test of an if / while / conditional expression"""
    child = node
    for p in mod.parents(node):
        if isinstance(p, (ast.If, ast.While, ast.IfExp)) and p.test is child:
            return True
        if isinstance(p, ast.stmt):
            return False
        child = p
    return False


def rule_o_base_cut(repo: Repo, rep: Report) -> None:
    """(o) generalises (n) from relativize() to every place that cuts a base off the front of an IRI"""
    from vlib.h_c03 import derives_from, facts_at, local_defs

    RULE = "C03.o-base-prefix-cut-resolves-back"
    rep.rule(RULE,
             "wherever a serializer (or the JSON-LD context it writes with) cuts a base-derived prefix off the front of an IRI - iri[len(B):] or iri.replace(B, '', 1) with B read from a "
             "`*base*` attribute - the remainder is used as the written form only under `resolve(remainder) == iri` (a comparison one side of which is computed by a call that takes the "
             "remainder). A test by string prefix alone is not enough: with base <http://example.org/> the IRIs <http://example.org:8080/x>, <http://example.organic/x> and "
             "<http://example.org//x> all begin with the base's scheme://authority, and the remainders ':8080/x', 'anic/x', '//x' read back as other IRIs", floor=2)
    n_checked = 0
    for mod in _ser_modules(repo):
        for q, f in mod.functions():
            def is_base(n):
                return isinstance(n, ast.Attribute) and "base" in n.attr.lower()
            cuts = []
            for n in own_nodes(f):
                if isinstance(n, ast.Subscript) and isinstance(n.slice, ast.Slice) and n.slice.upper is None and n.slice.step is None \
                        and isinstance(n.slice.lower, ast.Call) and norm(n.slice.lower.func) == "len" and n.slice.lower.args \
                        and derives_from(f, n.slice.lower.args[0], is_base):
                    cuts.append((n, n.value))
                elif isinstance(n, ast.Call) and isinstance(n.func, ast.Attribute) and n.func.attr == "replace" and len(n.args) >= 2 \
                        and isinstance(n.args[1], ast.Constant) and n.args[1].value == "" and derives_from(f, n.args[0], is_base):
                    cuts.append((n, n.func.value))
            if not cuts:
                continue
            rep.analysed("%s:%s" % (mod.rel, q))
            for cut, whole in cuts:
                # the local the remainder is bound to, if any
                st = _stmt_of(mod, cut)
                tracked = None
                if isinstance(st, ast.Assign) and st.value is cut and len(st.targets) == 1 and isinstance(st.targets[0], ast.Name):
                    tracked = st.targets[0].id
                uses = [cut] if tracked is None else [n for n in own_nodes(f) if isinstance(n, ast.Name) and n.id == tracked and isinstance(n.ctx, ast.Load)]

                def mentions_cut(n):
                    return n is cut or (tracked is not None and isinstance(n, ast.Name) and n.id == tracked)

                def resolving_call(n):
                    return isinstance(n, ast.Call) and norm(n.func) not in ("str", "len", "URIRef") and any(mentions_cut(x) for a in list(n.args) + [k.value for k in n.keywords] for x in ast.walk(a))
                root = {x.id for x in ast.walk(whole) if isinstance(x, ast.Name)}
                checks = []
                chain_names: set[str] = set()
                for k in own_nodes(f):
                    if isinstance(k, ast.Compare) and len(k.ops) == 1 and isinstance(k.ops[0], (ast.Eq, ast.NotEq)):
                        for a, b in ((k.left, k.comparators[0]), (k.comparators[0], k.left)):
                            if derives_from(f, a, resolving_call) and (root & {x.id for x in ast.walk(b) if isinstance(x, ast.Name)} or norm(b) == norm(whole)):
                                checks.append(k)
                                # names on the way from the comparison back to the remainder
                                todo = [x.id for x in ast.walk(a) if isinstance(x, ast.Name)]
                                while todo:
                                    nm = todo.pop()
                                    if nm in chain_names or nm == tracked:
                                        continue
                                    chain_names.add(nm)
                                    for v in local_defs(f, nm):
                                        todo += [x.id for x in ast.walk(v) if isinstance(x, ast.Name)]
                escapes = []
                for u in uses:
                    if _in_test_position(mod, u):
                        continue
                    if any(any(u is x for x in ast.walk(k)) for k in checks):
                        continue
                    ust = _stmt_of(mod, u)
                    if isinstance(ust, ast.Assign) and len(ust.targets) == 1 and isinstance(ust.targets[0], ast.Name) and ust.targets[0].id in chain_names:
                        continue
                    escapes.append(u)
                n_checked += 1
                if not escapes:
                    rep.ob(RULE, mod, q, cut, True, "the remainder only feeds a decision or the resolve-back comparison", node=cut)
                    continue
                for u in escapes:
                    facts = facts_at(mod, f, u)
                    ok = any(pol == isinstance(e.ops[0], ast.Eq) for e, pol in facts if any(e is k for k in checks))
                    rep.ob(RULE, mod, q, "%s  used in  %s" % (norm(cut), norm(_stmt_of(mod, u))[:80]), ok,
                           "only under the comparison that resolves it back" if ok else
                           "the remainder after the base prefix is written as a relative reference without checking that it resolves back to the IRI: against base <http://example.org/> "
                           "<http://example.org:8080/x> is written ':8080/x' and <http://example.org//x> '//x', which read back as different IRIs", node=u)
    if n_checked < 2:
        raise AnalysisError("base-prefix cuts of Serializer.relativize / Context.shrink_iri not found")


def rule_p_jsonld_writer_falsy_terms(repo: Repo, rep: Report) -> None:
    """(p) the writer-side twin of (d)"""
    from vlib import truthy as _tr

    RULE = "C03.p-jsonld-writer-keeps-falsy-terms"
    rep.rule(RULE,
             "in the JSON-LD serializer (Converter methods) an expression whose static type is `<term> | None` with Literal among the terms - graph.value(...), the rdf:first / rdf:rest picked "
             "up while walking a list cell - is tested with `is None`, never by truth value: Literal(0), Literal(False) and Literal('') are falsy, so `if not first and p == RDF.first` "
             "takes a second rdf:first of a malformed cell for the first one and the cell is folded into @list with one member dropped. Exempt: the test of a `while` whose "
             "fall-through is `return None` (the chain is then not folded at all, nothing is lost)", floor=6)
    jm = repo.mod("rdflib.plugins.serializers.jsonld")
    for m, f in jm.methods("Converter").items():
        where = "Converter." + m
        rep.analysed("%s:%s" % (jm.rel, where))
        for n in own_nodes(f, include_nested=True):
            if isinstance(n, ast.Compare) and len(n.ops) == 1 and isinstance(n.ops[0], (ast.Is, ast.IsNot)) and isinstance(n.comparators[0], ast.Constant) and n.comparators[0].value is None:
                tf = repo.typed.type_of(jm.name, n.left)
                if tf is not None and tf.optional and _tr.domain_hits(repo, tf):
                    rep.ob(RULE, jm, where, n, True, "None-ness of %s : %s decided by identity" % (norm(n.left), tf.text), node=n)
        seen: set[int] = set()
        for e, owner, kind in _tr.bool_contexts(f):
            if id(e) in seen or isinstance(e, (ast.Compare, ast.Constant)):
                continue
            seen.add(id(e))
            tf = repo.typed.type_of(jm.name, e)
            if tf is None or not tf.optional:
                continue
            hits = _tr.domain_hits(repo, tf)
            if not hits:
                continue
            exempt = False
            if isinstance(owner, ast.While) and owner.test is e and not owner.orelse:
                par = jm.parent.get(id(owner))
                for field in ("body", "orelse", "finalbody"):
                    lst = getattr(par, field, None)
                    if isinstance(lst, list) and any(owner is s for s in lst):
                        i = [k for k, s in enumerate(lst) if s is owner][0]
                        nxt = lst[i + 1] if i + 1 < len(lst) else None
                        if isinstance(nxt, ast.Return) and (nxt.value is None or (isinstance(nxt.value, ast.Constant) and nxt.value.value in (None, False))):
                            exempt = True
            ctx = norm(owner.test) if hasattr(owner, "test") else norm(owner)
            rep.ob(RULE, jm, where, "%s [in %s: %s]" % (norm(e), kind, ctx[:100]), exempt,
                   "loop condition; leaving the loop returns None (the chain is not folded)" if exempt else
                   "truth value of %s : %s conflates `no value` with a falsy literal (0, false, \"\"): a value that is there is treated as missing" % (norm(e), tf.text), node=e)


def rule_q_get_then_store(repo: Repo, rep: Report) -> None:
    """(q) accumulate-into-a-dict pattern: v = d.get(k) ... d[k] = ...  - presence of v by identity"""
    from vlib import truthy as _tr

    RULE = "C03.q-present-value-tested-by-identity"
    rep.rule(RULE,
             "where a serializer reads `v = d.get(k)` (no default) from a dict it also stores into under the same key (`d[k] = ...`: the accumulate pattern that turns a second value of a "
             "property into a list), whether a value is already there is decided with `v is None` / `is not None`, never by the truth value of v: what is stored are JSON values, and "
             "0, false and \"\" are falsy - the second value of `:s :p 0, 1` would overwrite the first instead of joining it in a list", floor=2)
    n = 0
    for mod in _ser_modules(repo, shared=False):
        for q, f in mod.functions():
            for a in own_nodes(f):
                if not (isinstance(a, ast.Assign) and len(a.targets) == 1 and isinstance(a.targets[0], ast.Name) and isinstance(a.value, ast.Call)
                        and isinstance(a.value.func, ast.Attribute) and a.value.func.attr == "get"
                        and (len(a.value.args) == 1 or (len(a.value.args) == 2 and isinstance(a.value.args[1], ast.Constant) and a.value.args[1].value is None)) and not a.value.keywords):
                    continue
                d, k, v = norm(a.value.func.value), norm(a.value.args[0]), a.targets[0].id
                stores = [s for s in own_nodes(f) if isinstance(s, ast.Subscript) and isinstance(s.ctx, ast.Store) and norm(s.value) == d and norm(s.slice) == k]
                if not stores:
                    continue
                rep.analysed("%s:%s" % (mod.rel, q))
                for c in own_nodes(f):
                    if isinstance(c, ast.Compare) and len(c.ops) == 1 and isinstance(c.ops[0], (ast.Is, ast.IsNot)) and isinstance(c.left, ast.Name) and c.left.id == v \
                            and isinstance(c.comparators[0], ast.Constant) and c.comparators[0].value is None:
                        n += 1
                        rep.ob(RULE, mod, q, "%s  [%s = %s]" % (norm(c), v, norm(a.value)), True, "presence decided by identity", node=c)
                seen_leaf: set[int] = set()
                for e, owner, kind in _tr.bool_contexts(f, nested=False):
                    if isinstance(e, ast.Name) and e.id == v and id(e) not in seen_leaf:
                        seen_leaf.add(id(e))
                        n += 1
                        ctx = norm(owner.test) if hasattr(owner, "test") else norm(owner)
                        rep.ob(RULE, mod, q, "%s [in %s: %s]  [%s = %s]" % (v, kind, ctx[:80], v, norm(a.value)), False,
                               "the value already stored under the key is tested by truth value: a stored 0, false or \"\" counts as `nothing there` and is overwritten by the next value "
                               "of the same property (`:s :p 0, 1` under an active context comes back as `:s :p 1`)", node=e)
    if n < 2:
        raise AnalysisError("get-then-store accumulators of Converter.add_to_node not found")


def rule_r_folded_cell_complete(repo: Repo, rep: Report) -> None:
    """(r) the @list walk goes past a cell only if it found both its rdf:first and its rdf:rest"""
    from vlib.h_c03 import facts_at

    RULE = "C03.r-folded-cell-has-first-and-rest"
    rep.rule(RULE,
             "a serializer loop that collects the rdf:first and rdf:rest of a list cell from predicate_objects(cell) and then moves its cursor on to the rest (the walk that folds a chain "
             "into a JSON-LD @list) does so only when both were found: at the statement that advances the cursor, `<first> is None` and `<rest> is None` are known to be false. "
             "A cell without rdf:first that is merely skipped makes `_:a rdf:rest _:b . _:b rdf:first 1 ; rdf:rest ()` come back as a one-element list with the cell _:a gone", floor=2)
    n = 0
    for mod in _ser_modules(repo, shared=False):
        for q, f in mod.functions():
            for w in own_nodes(f):
                if not isinstance(w, ast.While):
                    continue
                for loop in ast.walk(w):
                    if not (isinstance(loop, ast.For) and isinstance(loop.iter, ast.Call) and isinstance(loop.iter.func, ast.Attribute) and loop.iter.func.attr == "predicate_objects" and loop.iter.args):
                        continue
                    cursor = norm(loop.iter.args[0])
                    picked: dict[str, str] = {}  # local -> 'first' / 'rest'
                    for i in ast.walk(loop):
                        if isinstance(i, ast.If):
                            for role in ("first", "rest"):
                                if any(isinstance(x, ast.Attribute) and x.attr == role and norm(x.value) == "RDF" for x in ast.walk(i.test)):
                                    for s in i.body:
                                        if isinstance(s, ast.Assign) and len(s.targets) == 1 and isinstance(s.targets[0], ast.Name):
                                            picked.setdefault(s.targets[0].id, role)
                    if set(picked.values()) != {"first", "rest"}:
                        continue
                    rest_names = {k for k, v in picked.items() if v == "rest"}
                    adv = [s for s in ast.walk(w) if isinstance(s, ast.Assign) and len(s.targets) == 1 and norm(s.targets[0]) == cursor and isinstance(s.value, ast.Name) and s.value.id in rest_names]
                    if not adv:
                        continue
                    rep.analysed("%s:%s" % (mod.rel, q))
                    for s in adv:
                        facts = facts_at(mod, f, s)
                        for name, role in sorted(picked.items(), key=lambda kv: kv[1]):
                            def says_present(fact):
                                e, pol = fact
                                if isinstance(e, ast.Compare) and len(e.ops) == 1 and isinstance(e.left, ast.Name) and e.left.id == name \
                                        and isinstance(e.comparators[0], ast.Constant) and e.comparators[0].value is None:
                                    return (isinstance(e.ops[0], ast.Is) and not pol) or (isinstance(e.ops[0], ast.IsNot) and pol)
                                return False
                            ok = any(says_present(x) for x in facts)
                            n += 1
                            rep.ob(RULE, mod, q, "rdf:%s of the cell is known when the walk moves on (%s)" % (role, norm(s)), ok,
                                   "a cell without it ends the walk with `not a list`" if ok else
                                   "the walk moves on to the next cell although this cell may have no rdf:%s: the cell is dropped from the folded @list and the link to it is lost "
                                   "(`_:a rdf:rest _:b` with no rdf:first on _:a is written as the list that starts at _:b)" % role, node=s)
    if n < 2:
        raise AnalysisError("Converter.to_collection: the walk that picks rdf:first / rdf:rest from predicate_objects() was not found")


def rule_s_type_key_only_for_iris(repo: Repo, rep: Report) -> None:
    """(s) @type holds IRIs"""
    from vlib.h_c03 import facts_at, params

    RULE = "C03.s-jsonld-type-key-only-for-iris"
    rep.rule(RULE,
             "JSON-LD serializer: a Converter method selects the @type key (`<context>.type_key`) as the key under which a triple's object is written only where that object is known "
             "to be a URIRef (`isinstance(<object parameter>, URIRef)` holds at the assignment). The values of @type are IRIs to a reader: `:s rdf:type \"x\"` written as "
             "{\"@type\": \"x\"} under an active context comes back with the IRI <x> as its type, and a blank node type as a node reference object is not valid there", floor=1)
    jm = repo.mod("rdflib.plugins.serializers.jsonld")
    n = 0
    for m, f in jm.methods("Converter").items():
        ps = set(params(f))
        for a in own_nodes(f):
            if isinstance(a, ast.Assign) and isinstance(a.value, ast.Attribute) and a.value.attr == "type_key":
                facts = facts_at(jm, f, a)
                ok = any(pol and isinstance(e, ast.Call) and norm(e.func) == "isinstance" and len(e.args) == 2 and isinstance(e.args[0], ast.Name) and e.args[0].id in ps
                         and norm(e.args[1]) == "URIRef" for e, pol in facts)
                n += 1
                rep.analysed("%s:Converter.%s" % (jm.rel, m))
                rep.ob(RULE, jm, "Converter." + m, a, ok, "only for an IRI object" if ok else
                       "@type is chosen as the key whatever the object is: a literal object of rdf:type is written as a bare @type string and read back as an IRI", node=a)
    if not n:
        raise AnalysisError("Converter: no assignment from <context>.type_key found")


def rule_t_recursion_bounded(repo: Repo, rep: Report) -> None:
    """(t) every call cycle among the methods of a serializer class is cut by a depth bound"""
    from vlib.h_c03 import ClassGraph, counter_bounds, facts_at, params, short, with_implied, within_bound

    RULE = "C03.t-writer-recursion-depth-bounded"
    rep.rule(RULE,
             "in every serializer class (methods resolved along the MRO, `self.m()` and `super().m()` calls) every cycle of calls contains a call that is made only under a depth bound: "
             "a comparison `<counter> <= bound` that holds at the call - it is tested on the way to the call, or on the way to every call, from inside the cycle, of the method that makes the call - "
             "where the counter is a `self.<attr>` that has been raised since the comparison (`self.depth += k` on the way to the call) "
             "or a parameter that the call passes on raised (`depth + 1`); and no call inside a cycle drops the counter parameter (which restarts the count). (Calls made only for a term that "
             "is itself a Graph - an N3 formula, not an RDF 1.1 term - are left out.) The nesting depth of "
             "blank nodes and lists in a graph is unbounded, one level of [ ... ], ( ... ), nested element or @list per level of recursion: without the bound a chain of a few hundred "
             "singly referenced blank nodes ends in RecursionError instead of a document", floor=5)
    seen: set[frozenset] = set()
    classes = sorted(c for c, d in repo.typed.classes.items() if c.startswith("rdflib.plugins.serializers."))
    for cls in classes:
        cg = ClassGraph(repo, cls)
        for comp in cg.sccs():
            key = frozenset(comp)
            if key in seen:
                continue
            seen.add(key)
            inner = [(a, c, b) for a, c, b in cg.edges if a in comp and b in comp]
            for a in comp:
                rep.analysed("%s:%s" % (cg.defs[a][0].rel, short(a)))
            # counter parameters: those compared with a bound on the way to a call of the cycle, and the parameters they are passed from
            cp: set[tuple[tuple[str, str], str]] = set()
            facts_of = {}
            for a, c, b in inner:
                mod, f = cg.defs[a]
                facts_of[id(c)] = with_implied(mod, f, facts_at(mod, f, c))
                for p in params(f)[1:]:
                    if any(within_bound(x, p) for x in facts_of[id(c)]):
                        cp.add((a, p))

            def arg_for(call: ast.Call, callee: tuple[str, str], pname: str):
                ps = params(cg.defs[callee][1])[1:]
                for k in call.keywords:
                    if k.arg == pname:
                        return k.value
                if pname in ps and ps.index(pname) < len(call.args):
                    return call.args[ps.index(pname)]
                return None

            def forwarded(e, caller_params):
                """(param of the caller, constant added) if e is `p` or `p + k`"""
                if isinstance(e, ast.Name) and e.id in caller_params:
                    return e.id, 0
                if isinstance(e, ast.BinOp) and isinstance(e.op, ast.Add) and isinstance(e.left, ast.Name) and e.left.id in caller_params \
                        and isinstance(e.right, ast.Constant) and isinstance(e.right.value, int) and e.right.value >= 0:
                    return e.left.id, e.right.value
                return None

            resets = []
            changed = True
            while changed:
                changed = False
                for a, c, b in inner:
                    for (m_, p) in list(cp):
                        if m_ != b:
                            continue
                        fw = forwarded(arg_for(c, b, p), params(cg.defs[a][1])[1:])
                        if fw is None:
                            if (a, c, b, p) not in resets:
                                resets.append((a, c, b, p))
                        elif (a, fw[0]) not in cp:
                            cp.add((a, fw[0]))
                            changed = True
            bounded: set[int] = set()
            # `self.<attr>` counters: the comparison with the bound and the raise of the counter may sit in different methods of the cycle
            # (the caller tests, the method it calls raises and descends): a comparison that holds at every call of a method from
            # inside the cycle holds when that method runs as part of the cycle
            raised_within_bound = counter_bounds(cg, inner, facts_of)
            for a, c, b in inner:
                mod, f = cg.defs[a]
                facts = facts_of[id(c)]
                ok = any(k > 0 for k in raised_within_bound(a, c).values())
                for p in params(f)[1:]:
                    if any(within_bound(x, p) for x in facts):
                        for (m_, p2) in cp:
                            if m_ == b:
                                fw = forwarded(arg_for(c, b, p2), [p])
                                if fw is not None and fw[1] > 0:
                                    ok = True
                # a call made only for a term that is itself a Graph (an N3 formula) descends into another graph: not an RDF 1.1 term, outside the property
                if any(pol and isinstance(e, ast.Call) and norm(e.func) == "isinstance" and len(e.args) == 2 and norm(e.args[1]) in ("Graph", "QuotedGraph") for e, pol in facts):
                    ok = True
                if ok:
                    bounded.add(id(c))
            rest = [(a, c, b) for a, c, b in inner if id(c) not in bounded and not any(c is r[1] for r in resets)]  # (calls that restart the count are reported on their own)
            bad = cg.sccs(rest)
            where = sorted(short(a) for a in comp)[0].split(".")[0]
            names = " / ".join(sorted(short(a) for a in comp))
            if not bad and not resets:
                rep.ob(RULE, cg.defs[sorted(comp)[0]][0], where, "call cycle %s" % names, True,
                       "every cycle passes a call made under a depth bound (%d bounded call(s))" % len(bounded), node=cg.defs[sorted(comp)[0]][1])
                continue
            for a, c, b, p in resets:
                mod, f = cg.defs[a]
                rep.ob(RULE, mod, short(a), c, False,
                       "(inside the call cycle " + names + ") this recursive call does not pass the depth counter `%s` of %s on: the count restarts below it, so the depth bound of the cycle never applies to what is nested here "
                       "(a list whose member is a blank node that has a list whose member ... a few hundred levels deep ends in RecursionError)" % (p, short(b)), node=c)
            for comp2 in bad:
                edges2 = [(a, c, b) for a, c, b in rest if a in comp2 and b in comp2]
                a0 = sorted(edges2, key=lambda e: (short(e[0]), norm(e[1])))[0]
                mod, f = cg.defs[a0[0]]
                rep.ob(RULE, mod, where, "unbounded call cycle %s" % " / ".join(sorted(short(a) for a in comp2)), False,
                       "no call on this cycle is made under a depth bound (calls: %s): one level of recursion per level of nesting in the graph, RecursionError at a few hundred levels"
                       % "; ".join(sorted("%s -> %s" % (short(a), norm(c)) for a, c, b in edges2))[:400], node=a0[1])
    if len(seen) < 4:
        raise AnalysisError("call cycles of the recursive serializers (turtle, n3, longturtle, pretty-xml, json-ld) not found")


def _is_startswith_own_scheme(e: ast.AST, subject_ok, prefix_name: str) -> bool:
    """`<subject>.startswith(<prefix_name> + ':')`"""
    return (isinstance(e, ast.Call) and isinstance(e.func, ast.Attribute) and e.func.attr == "startswith" and subject_ok(e.func.value) and len(e.args) == 1
            and isinstance(e.args[0], ast.BinOp) and isinstance(e.args[0].op, ast.Add) and isinstance(e.args[0].left, ast.Name) and e.args[0].left.id == prefix_name
            and isinstance(e.args[0].right, ast.Constant) and e.args[0].right.value == ":")


def rule_u_prefix_not_own_scheme(repo: Repo, rep: Report) -> None:
    """(u) a JSON-LD prefix that is the scheme of its own IRI"""
    from vlib.h_c03 import derives_from, facts_at, split_fact

    RULE = "C03.u-jsonld-prefix-is-not-its-own-scheme"
    rep.rule(RULE,
             "a JSON-LD term `pfx` whose IRI begins with `pfx:` (\"urn\": \"urn:example:\") makes every IRI of that scheme look like a compact IRI of the prefix. "
             "(1) Context._rec_expand, which calls itself with the expansion until nothing changes, prepends the IRI of the prefix to the local part only where "
             "`<iri>.startswith(pfx + ':')` is known to be false - otherwise urn:example:x -> urn:example:example:x -> ... never reaches a fixed point (RecursionError while the "
             "serializer loads its own context); (2) the context that from_rdf(auto_compact) generates from graph.namespaces() leaves such a pair out (the reader would expand "
             "<urn:other:y> with the prefix to <urn:example:other:y>)", floor=2)
    cm = repo.mod("rdflib.plugins.shared.jsonld.context")
    f = cm.func("Context._rec_expand")
    rep.analysed("%s:Context._rec_expand" % cm.rel)
    if not any(isinstance(c, ast.Call) and norm(c.func) == "self._rec_expand" for c in own_nodes(f)):
        rep.ob(RULE, cm, "Context._rec_expand", "no longer calls itself", True, "nothing to bound", node=f)
    else:
        steps = []
        for a in own_nodes(f):
            if isinstance(a, ast.Assign) and isinstance(a.value, ast.BinOp) and isinstance(a.value.op, ast.Add) and isinstance(a.value.left, ast.Name):
                left = a.value.left
                if derives_from(f, left, lambda n: isinstance(n, ast.Call) and isinstance(n.func, ast.Attribute) and n.func.attr == "_get_source_id"):
                    steps.append((a, left.id))
        if not steps:
            raise AnalysisError("Context._rec_expand: the step that prepends the prefix's IRI was not found")
        # the local that holds the prefix: first element of the tuple unpacked from self._prep_expand(...)
        for a, iri in steps:
            facts = facts_at(cm, f, a)
            ok = False
            for e, pol in facts:
                if not pol and isinstance(e, ast.Call) and isinstance(e.func, ast.Attribute) and e.func.attr == "startswith" and isinstance(e.func.value, ast.Name) and e.func.value.id == iri \
                        and len(e.args) == 1 and isinstance(e.args[0], ast.BinOp) and isinstance(e.args[0].right, ast.Constant) and e.args[0].right.value == ":":
                    ok = True
            rep.ob(RULE, cm, "Context._rec_expand", a, ok, "not for a prefix that is the scheme of its own IRI" if ok else
                   "the IRI of the prefix is prepended even when it begins with `<prefix>:` itself: {\"urn\": \"urn:example:\"} expands urn:example:x with the prefix again and again "
                   "(RecursionError; the JSON-LD serializer fails on any graph that binds such a prefix)", node=a)
    jm = repo.mod("rdflib.plugins.serializers.jsonld")
    n = 0
    for q, fn in jm.functions():
        for c in own_nodes(fn):
            if not isinstance(c, (ast.GeneratorExp, ast.ListComp, ast.DictComp, ast.SetComp)):
                continue
            for g in c.generators:
                if isinstance(g.iter, ast.Call) and isinstance(g.iter.func, ast.Attribute) and g.iter.func.attr == "namespaces" and isinstance(g.target, ast.Tuple) and len(g.target.elts) == 2 \
                        and all(isinstance(x, ast.Name) for x in g.target.elts):
                    pfx, ns = g.target.elts[0].id, g.target.elts[1].id  # type: ignore[attr-defined]
                    facts = [x for t in g.ifs for x in split_fact(t, True)]
                    ok = any(not pol and _is_startswith_own_scheme(e, lambda s: ns in {y.id for y in ast.walk(s) if isinstance(y, ast.Name)}, pfx) for e, pol in facts)
                    n += 1
                    rep.analysed("%s:%s" % (jm.rel, q))
                    rep.ob(RULE, jm, q, "context generated from %s" % norm(g.iter), ok, "a prefix that is the scheme of its namespace is left out" if ok else
                           "every bound (prefix, namespace) pair becomes a term of the generated context, also one like urn -> <urn:example:>: loading that context does not end "
                           "(or, read back, other urn: IRIs are expanded with it)", node=c)
    if not n:
        raise AnalysisError("serializers/jsonld.py: the context generated from graph.namespaces() was not found")


def rule_v_typed_node_element_name(repo: Repo, rep: Report) -> None:
    """(v) pretty-xml: which rdf:type values may name the node element"""
    from vlib.h_c03 import derives_from, local_defs

    RULE = "C03.v-prettyxml-typed-node-element-name"
    rep.rule(RULE,
             "PrettyXMLSerializer: a value read from the graph as an rdf:type object reaches `writer.push(...)` as the name of the node element only after a validator method of the class "
             "has been asked and the value reset when it says no; the validator answers False (1) unless the value is a URIRef (a literal or blank node type has no element name), "
             "(2) for the names the RDF/XML reader refuses as node elements - membership in the reader's own NODE_ELEMENT_EXCEPTIONS table (rdf:li, rdf:ID, rdf:about ...: unparseable "
             "output) - and for rdf:Description (which says nothing: the type triple is lost), (3) when the namespace manager cannot split the IRI (ValueError caught). "
             "Otherwise rdf:type is written as a property", floor=4)
    rx = repo.mod("rdflib.plugins.serializers.rdfxml")
    sf = rx.func("PrettyXMLSerializer.subject")
    rep.analysed("%s:PrettyXMLSerializer.subject" % rx.rel)

    def type_read(n):
        return isinstance(n, ast.Call) and isinstance(n.func, ast.Attribute) and n.func.attr in ("objects", "value", "triples") \
            and any(isinstance(x, ast.Attribute) and x.attr == "type" and norm(x.value) == "RDF" for x in ast.walk(n))
    pushes = [c for c in own_nodes(sf) if isinstance(c, ast.Call) and isinstance(c.func, ast.Attribute) and c.func.attr == "push" and c.args and derives_from(sf, c.args[0], type_read)]
    if not pushes:
        rep.ob(RULE, rx, "PrettyXMLSerializer.subject", "no typed node elements", True, "rdf:type is always written as a property", node=sf)
        return
    # the local(s) bound from the rdf:type read
    tnames = set()
    for a in own_nodes(sf):
        if isinstance(a, ast.Assign) and len(a.targets) == 1 and isinstance(a.targets[0], ast.Name) and any(type_read(x) for x in ast.walk(a.value)):
            tnames.add(a.targets[0].id)
    validator = None
    for i in own_nodes(sf):
        if isinstance(i, ast.If) and isinstance(i.test, ast.UnaryOp) and isinstance(i.test.op, ast.Not) and isinstance(i.test.operand, ast.Call):
            c = i.test.operand
            if isinstance(c.func, ast.Attribute) and norm(c.func.value) == "self" and len(c.args) == 1 and isinstance(c.args[0], ast.Name) and c.args[0].id in tnames \
                    and any(isinstance(s, ast.Assign) and norm(s.targets[0]) == c.args[0].id and isinstance(s.value, ast.Constant) and s.value.value is None for s in i.body) \
                    and all(i.lineno < p.lineno for p in pushes):
                validator = c.func.attr
    ok = validator is not None
    rep.ob(RULE, rx, "PrettyXMLSerializer.subject", "%s : the rdf:type value is validated first" % norm(pushes[0]), ok,
           "reset to None when self.%s says no" % validator if ok else
           "the rdf:type value is used as the element name without a validator (at most `nm.qname()` not raising): <rdf:Description> as a type loses the triple, rdf:li / rdf:ID / rdf:about "
           "give output the reader rejects, a literal or blank node type raises", node=pushes[0])
    if not ok:
        return
    vq = "PrettyXMLSerializer." + validator
    if not rx.has(vq):
        raise AnalysisError("validator %s not found" % vq)
    vf = rx.func(vq)
    rep.analysed("%s:%s" % (rx.rel, vq))
    p = vf.args.args[1].arg
    false_ifs = [i for i in own_nodes(vf) if isinstance(i, ast.If) and any(isinstance(r, ast.Return) and isinstance(r.value, ast.Constant) and r.value.value is False for r in i.body)]
    c1 = any(norm(i.test).replace(" ", "") == "notisinstance(%s,URIRef)" % p for i in false_ifs)
    # the exclusion table is the reader's
    imported = any(isinstance(s, ast.ImportFrom) and s.module == "rdflib.plugins.parsers.rdfxml" and any(a.name == "NODE_ELEMENT_EXCEPTIONS" and a.asname is None for a in s.names) for s in rx.tree.body)
    c2 = imported and any(any(isinstance(x, ast.Compare) and isinstance(x.ops[0], ast.In) and norm(x.left) == p and norm(x.comparators[0]) == "NODE_ELEMENT_EXCEPTIONS" for x in ast.walk(i.test)) for i in false_ifs)
    c2b = any(any(isinstance(x, ast.Compare) and isinstance(x.ops[0], ast.Eq) and p in (norm(x.left), norm(x.comparators[0])) and "Description" in norm(x) for x in ast.walk(i.test)) for i in false_ifs)
    c3 = any(isinstance(t, ast.Try) and any(isinstance(c, ast.Call) and isinstance(c.func, ast.Attribute) and c.func.attr.startswith("compute_qname") for s in t.body for c in ast.walk(s))
             and any(any(isinstance(r, ast.Return) and isinstance(r.value, ast.Constant) and r.value.value is False for r in h.body) for h in t.handlers) for t in own_nodes(vf))
    for okk, what, why in ((c1, "False unless a URIRef", "a literal or blank node object of rdf:type is taken for an element name (exception, or written as an IRI)"),
                           (c2 and c2b, "False for the reader's NODE_ELEMENT_EXCEPTIONS and rdf:Description", "a node typed rdf:li / rdf:ID / ... is written as an element the RDF/XML reader rejects; rdf:Description as a type is lost"),
                           (c3, "False when the IRI has no XML qname", "an rdf:type IRI that cannot be split (<http://e/1>) makes push() fail instead of being written as an rdf:type property")):
        rep.ob(RULE, rx, vq, what, okk, "tested" if okk else why, node=vf)


def rule_w_no_prefix_after_header(repo: Repo, rep: Report) -> None:
    """(w) Turtle family: nothing is added to the prefix table after it was written"""
    from vlib.h_c03 import derives_from, reachable_assuming

    RULE = "C03.w-no-new-prefix-after-the-header"
    rep.rule(RULE,
             "Turtle-family serializers write the @prefix block once (startDocument, which raises the flag it sets to True there). A method that registers a prefix "
             "(self.addNamespace(...)) and returns the prefixed name built from it cannot reach the registration in the state `<flag> and <the prefix is not in self.namespaces with this namespace>` "
             "(no path from the entry of the method to the call when every `if` / `while` test is decided, as far as it can be, by: the flag is true, a comparison of a lookup in self.namespaces - "
             "direct or through locals - says `unequal`; e.g. `if <flag> and <lookup> != namespace: return None` in front of it, the same as two nested ifs, or the call under `if not <flag>`): "
             "a prefix first met while the triples are being written (e.g. for a predicate whose qname was refused in the preprocessing pass because its local name ends in '.', and "
             "whose object's datatype or a later use binds a generated prefix) would be used without a declaration and the document does not parse", floor=2)
    n = 0
    for modname in ("rdflib.plugins.serializers.turtle", "rdflib.plugins.serializers.longturtle", "rdflib.plugins.serializers.n3", "rdflib.plugins.serializers.trig"):
        mod = repo.mod(modname)
        for cname, cdef in [(q, d) for q, d in mod.defs.items() if isinstance(d, ast.ClassDef)]:
            meths = mod.methods(cname)
            if "startDocument" not in meths:
                continue
            flags = [norm(a.targets[0]) for a in own_nodes(meths["startDocument"]) if isinstance(a, ast.Assign) and isinstance(a.value, ast.Constant) and a.value.value is True
                     and isinstance(a.targets[0], ast.Attribute) and norm(a.targets[0].value) == "self"]
            for m, f in meths.items():
                regs = [c for c in own_nodes(f) if isinstance(c, ast.Call) and norm(c.func) == "self.addNamespace"]
                returns_pname = any(isinstance(r, ast.Return) and r.value is not None and any(isinstance(x, ast.Constant) and isinstance(x.value, str) and ":" in x.value for x in ast.walk(r.value)) for r in own_nodes(f))
                if not regs or not returns_pname:
                    continue
                rep.analysed("%s:%s.%s" % (mod.rel, cname, m))
                def reads_prefix_table(x: ast.AST) -> bool:
                    return isinstance(x, ast.Attribute) and x.attr == "namespaces" and norm(x.value) == "self"

                def atom(e: ast.expr, f=f, flags=flags):
                    """the state that must not register: the header is written (flag) and the prefix is not in it with this namespace (a
                    lookup in self.namespaces - directly or through locals - compares unequal)"""
                    if norm(e) in flags:
                        return True
                    if isinstance(e, ast.Compare) and len(e.ops) == 1 and isinstance(e.ops[0], (ast.NotEq, ast.Eq)) \
                            and any(derives_from(f, side, reads_prefix_table) for side in (e.left, e.comparators[0])):
                        return isinstance(e.ops[0], ast.NotEq)
                    return None

                for c in regs:
                    ok = bool(flags) and not reachable_assuming(f, c, mod, atom)
                    n += 1
                    rep.ob(RULE, mod, "%s.%s" % (cname, m), c, ok, "not once the header is written, unless the prefix is in it" if ok else
                           "a prefix can be registered and used in a prefixed name after the @prefix block was written (flag %s is not consulted): the name is written with an undeclared prefix" % (flags or ["<none>"])[0], node=c)
    if n < 2:
        raise AnalysisError("getQName of TurtleSerializer / LongTurtleSerializer not found")


def rule_x_registration_agrees_with_label(repo: Repo, rep: Report) -> None:
    """(x) preprocessTriple skips the registration of a predicate only where label() does not write a prefixed name"""
    from vlib.h_c03 import facts_at

    RULE = "C03.x-prefix-registration-agrees-with-label"
    rep.rule(RULE,
             "Turtle-family preprocessTriple registers the prefixes the document will use by calling self.getQName(node) for every node; label(), which later writes the node, takes the "
             "keyword table (`node in self.keywords`), else self.relativize(node), else getQName. A `continue` that skips the registration is therefore taken only under a test label() "
             "shares: membership in self.keywords, or a comparison of self.relativize(node) with the node. A home-made test on self.base (startswith, no '#' or '/' in the rest) "
             "skipped <http://e/a/bc> under base <http://e/a/b>, which relativize() refuses to write as <c>: label() then wrote ns1:bc with ns1 never declared", floor=4)
    n = 0
    for modname in ("rdflib.plugins.serializers.turtle", "rdflib.plugins.serializers.longturtle", "rdflib.plugins.serializers.n3", "rdflib.plugins.serializers.trig"):
        mod = repo.mod(modname)
        for q, f in mod.functions():
            if q.split(".")[-1] != "preprocessTriple":
                continue
            for loop in own_nodes(f):
                if not isinstance(loop, ast.For):
                    continue
                regs = [c for c in ast.walk(loop) if isinstance(c, ast.Call) and norm(c.func) == "self.getQName"]
                if not regs:
                    continue
                rep.analysed("%s:%s" % (mod.rel, q))
                for cont in ast.walk(loop):
                    if not isinstance(cont, ast.Continue):
                        continue
                    # innermost guard of this `continue`
                    guard = None
                    child: ast.AST = cont
                    for p_ in mod.parents(cont):
                        if isinstance(p_, ast.If) and any(child is s for s in p_.body):
                            guard = p_
                            break
                        if p_ is loop:
                            break
                        child = p_
                    if guard is None:
                        continue
                    t = guard.test
                    shared = False
                    if isinstance(t, ast.Compare) and isinstance(t.ops[0], ast.In) and norm(t.comparators[0]) == "self.keywords":
                        shared = True
                    for e in ([t] + (list(t.values) if isinstance(t, ast.BoolOp) and isinstance(t.op, ast.And) else [])):
                        if isinstance(e, ast.Compare) and isinstance(e.ops[0], ast.NotEq) and any(isinstance(s, ast.Call) and norm(s.func) == "self.relativize" for s in (e.left, e.comparators[0])):
                            shared = True
                    reads_base = any(isinstance(x, ast.Attribute) and x.attr == "base" and norm(x.value) == "self" for x in ast.walk(t))
                    ok = shared and not reads_base
                    n += 1
                    rep.ob(RULE, mod, q, "skip registration if %s" % norm(t)[:120], ok, "a test label() shares" if ok else
                           "the registration of the predicate's prefix is skipped under a test of its own (%s) that label() does not use: where the two disagree the predicate is written "
                           "as a prefixed name whose prefix was never declared (<http://e/a/bc> with base <http://e/a/b>)" % ("reads self.base" if reads_base else "neither keywords nor relativize()"), node=guard)
    if n < 4:
        raise AnalysisError("preprocessTriple of TurtleSerializer / LongTurtleSerializer: the registration loop was not found")


def rule_y_n3_keyword_not_first_in_brackets(repo: Repo, rep: Report) -> None:
    """(y) N3: [ = x ] and [ => x ] are not property lists"""
    RULE = "C03.y-n3-keyword-verbs-not-first-in-brackets"
    rep.rule(RULE,
             "a Turtle-family serializer class that adds verb keywords other than `a` to self.keywords - N3Serializer: owl:sameAs -> '=', log:implies -> '=>' - overrides p_squared "
             "(which writes a blank node inline as [ verb object ; ... ]) so that it answers False, before delegating to the inherited p_squared, for a node whose first sorted "
             "property is one of those predicates: every key of the added table is in the membership test. `[ = :x ]` names the node :x for the N3 reader (the node's own triples move "
             "to :x) and `[ => :x ]` does not parse", floor=2)
    n = 0
    for modname in sorted(m for m in repo.modules if m.startswith("rdflib.plugins.serializers.")):
        mod = repo.mod(modname)
        for cname, cdef in [(q, d) for q, d in mod.defs.items() if isinstance(d, ast.ClassDef)]:
            added = []
            for m, f in mod.methods(cname).items():
                for c in own_nodes(f):
                    if isinstance(c, ast.Call) and norm(c.func) == "self.keywords.update" and c.args and isinstance(c.args[0], ast.Dict):
                        for k, v in zip(c.args[0].keys, c.args[0].values):
                            if isinstance(v, ast.Constant) and v.value != "a":
                                added.append((norm(k), v.value))
            if not added:
                continue
            meths = mod.methods(cname)
            rep.analysed("%s:%s.p_squared" % (mod.rel, cname))
            ps = meths.get("p_squared")
            for key, tok in added:
                ok = False
                if ps is not None:
                    supers = [c for c in own_nodes(ps) if isinstance(c, ast.Call) and isinstance(c.func, ast.Attribute) and c.func.attr == "p_squared" and isinstance(c.func.value, ast.Call) and norm(c.func.value.func) == "super"]
                    for i in own_nodes(ps):
                        if isinstance(i, ast.If) and any(isinstance(r, ast.Return) and isinstance(r.value, ast.Constant) and r.value.value is False for r in i.body) \
                                and all(i.lineno < s.lineno for s in supers):
                            for x in ast.walk(i.test):
                                if isinstance(x, ast.Compare) and isinstance(x.ops[0], ast.In) and isinstance(x.comparators[0], (ast.Tuple, ast.List, ast.Set)) \
                                        and key in [norm(e) for e in x.comparators[0].elts] and isinstance(x.left, ast.Subscript) and norm(x.left.slice) == "0":
                                    ok = True
                n += 1
                rep.ob(RULE, mod, cname + ".p_squared", "a node whose first property is %s (written `%s`) is not written inline" % (key, tok), ok,
                       "p_squared answers False for it" if ok else
                       "%s inherits / defines a p_squared that inlines such a node: `:s :p [ %s :x ]` - for the N3 reader `[ = :x ]` is the node :x itself, `[ => :x ]` a syntax error" % (cname, tok), node=ps or cdef)
    if n < 2:
        raise AnalysisError("N3Serializer: keywords.update({...: '=', ...: '=>'}) not found")


def _asserts_absent(fact, marker: str, subject_text: str) -> bool:
    """the fact says `marker` does not occur in <subject>"""
    e, pol = fact
    if isinstance(e, ast.Compare) and len(e.ops) == 1 and isinstance(e.left, ast.Constant) and e.left.value == marker and norm(e.comparators[0]) in (subject_text, "str(%s)" % subject_text):
        return (isinstance(e.ops[0], ast.In) and not pol) or (isinstance(e.ops[0], ast.NotIn) and pol)
    if isinstance(e, ast.Call) and isinstance(e.func, ast.Name) and e.func.id in ("any", "all") and len(e.args) == 1 and isinstance(e.args[0], ast.GeneratorExp) and len(e.args[0].generators) == 1:
        g = e.args[0].generators[0]
        if g.ifs or not isinstance(g.target, ast.Name) or not isinstance(g.iter, (ast.Tuple, ast.List, ast.Set)):
            return False
        if marker not in [x.value for x in g.iter.elts if isinstance(x, ast.Constant)]:
            return False
        elt = e.args[0].elt
        if isinstance(elt, ast.Compare) and len(elt.ops) == 1 and isinstance(elt.left, ast.Name) and elt.left.id == g.target.id and norm(elt.comparators[0]) in (subject_text, "str(%s)" % subject_text):
            if e.func.id == "any" and not pol:
                return isinstance(elt.ops[0], ast.In)
            if e.func.id == "all" and pol:
                return isinstance(elt.ops[0], ast.NotIn)
    return False


def rule_z_parsetype_literal_agrees_with_reader(repo: Repo, rep: Report) -> None:
    """(z) what is written raw under parseType="Literal" is what the reader rebuilds"""
    from vlib.h_c03 import facts_at

    RULE = "C03.z-parsetype-literal-only-what-the-reader-rebuilds"
    rep.rule(RULE,
             "pretty-xml writes the lexical form of an rdf:XMLLiteral raw (`writer.stream.write(<the literal>)` after parseType=\"Literal\") only for content the RDF/XML reader passes on: "
             "the reader (RDFXMLHandler) rebuilds the literal from startElementNS / characters / endElementNS events. Its processingInstruction handler does nothing, so the raw write "
             "is guarded by `'<?' not in literal`; create_parser installs no lexical handler (no setProperty(property_lexical_handler)), so comments and CDATA section marks never "
             "reach it and the guard also excludes '<!--' and '<![CDATA['. Such literals are written as escaped text with rdf:datatype instead: "
             "Literal('<a><!--c--></a>', datatype=rdf:XMLLiteral) came back as '<a></a>'", floor=3)
    rp = repo.mod("rdflib.plugins.parsers.rdfxml")
    hm = rp.methods("RDFXMLHandler")
    need = []
    pi = hm.get("processingInstruction")
    if pi is None or all(isinstance(s, ast.Pass) or (isinstance(s, ast.Expr) and isinstance(s.value, ast.Constant)) for s in pi.body):
        need.append(("<?", "the reader's processingInstruction() drops processing instructions"))
    cp = rp.func("create_parser")
    lexical = any(isinstance(c, ast.Call) and isinstance(c.func, ast.Attribute) and c.func.attr == "setProperty" and any("lexical" in norm(a) for a in c.args) for c in own_nodes(cp))
    if not lexical:
        need.append(("<!--", "the reader installs no lexical handler: comments are not reported"))
        need.append(("<![CDATA[", "the reader installs no lexical handler: CDATA section marks are not reported"))
    rx = repo.mod("rdflib.plugins.serializers.rdfxml")
    n = 0
    for q, f in rx.functions():
        ps = [a.arg for a in f.args.args]
        raws = [c for c in own_nodes(f) if isinstance(c, ast.Call) and isinstance(c.func, ast.Attribute) and c.func.attr == "write" and norm(c.func.value).endswith("stream")
                and len(c.args) == 1 and isinstance(c.args[0], ast.Name) and c.args[0].id in ps]
        for c in raws:
            subj = c.args[0].id  # type: ignore[attr-defined]
            facts = facts_at(rx, f, c)
            if not any(pol and "XMLLiteral" in norm(e) for e, pol in facts):
                continue
            rep.analysed("%s:%s" % (rx.rel, q))
            for marker, reason in need:
                ok = any(_asserts_absent(x, marker, subj) for x in facts)
                n += 1
                rep.ob(RULE, rx, q, "%s only if %r not in %s" % (norm(c), marker, subj), ok, reason + "; excluded by the guard" if ok else
                       reason + ", yet an XMLLiteral containing %r is written raw under parseType=\"Literal\": that part of the lexical form is gone after re-parsing" % marker, node=c)
            if not need:
                n += 1
                rep.ob(RULE, rx, q, norm(c), True, "the reader reports processing instructions, comments and CDATA", node=c)
    if not n:
        raise AnalysisError("PrettyXMLSerializer.predicate: raw write of an XMLLiteral under parseType=Literal not found")


def rule_aa_nodeid_is_ncname(repo: Repo, rep: Report) -> None:
    """(aa) rdf:nodeID values are NCNames"""
    from vlib.h_c03 import local_defs

    RULE = "C03.aa-rdfxml-nodeid-is-an-ncname"
    rep.rule(RULE,
             "RDF/XML serializers: every value written as an rdf:nodeID - the `%s` after `nodeID=` in a format string, the second argument of writer.attribute(RDFVOC.nodeID, ...) - is the "
             "result of a call to a function of the module that (itself or through the module function it delegates to) consults is_ncname(): rdf:nodeID must be an NCName, a blank node "
             "identifier need not be one (BNode('1'), BNode('a b')); written as it is the RDF/XML reader rejects the document", floor=6)
    rx = repo.mod("rdflib.plugins.serializers.rdfxml")

    def sanitises(fn: ast.AST, depth: int = 3) -> bool:
        for c in own_nodes(fn):
            if isinstance(c, ast.Call):
                name = c.func.attr if isinstance(c.func, ast.Attribute) else (c.func.id if isinstance(c.func, ast.Name) else None)
                if name == "is_ncname":
                    return True
                if depth and name and isinstance(c.func, ast.Name) and rx.has(name) and isinstance(rx.defs[name], ast.FunctionDef) and sanitises(rx.defs[name], depth - 1):
                    return True
        return False

    def resolve_callee(call: ast.Call, cls: str | None):
        if isinstance(call.func, ast.Name) and rx.has(call.func.id):
            return rx.defs[call.func.id]
        if isinstance(call.func, ast.Attribute) and norm(call.func.value) == "self" and cls:
            a = call.func.attr
            for cand in (a, a.replace("_%s__" % cls, "__")):
                if rx.has(cls + "." + cand):
                    return rx.defs[cls + "." + cand]
        return None

    def value_ok(f, cls, e: ast.AST, depth: int = 3) -> bool:
        if isinstance(e, ast.Call):
            tgt = resolve_callee(e, cls)
            return isinstance(tgt, (ast.FunctionDef, ast.AsyncFunctionDef)) and sanitises(tgt)
        if isinstance(e, ast.Name) and depth:
            ds = local_defs(f, e.id)
            return bool(ds) and all(value_ok(f, cls, d, depth - 1) for d in ds)
        return False

    n = 0
    for q, f in rx.functions():
        cls = q.split(".")[0] if "." in q else None
        sites = []
        for c in own_nodes(f):
            if isinstance(c, ast.BinOp) and isinstance(c.op, ast.Mod) and isinstance(c.left, ast.Constant) and isinstance(c.left.value, str) and "nodeID=" in c.left.value:
                fmt = c.left.value
                pos = fmt.index("nodeID=")
                idx = len(re.findall(r"%[sdr]", fmt[:pos]))
                if not re.match(r"nodeID=[\"']?%s", fmt[pos:]):
                    continue  # the name of the attribute only, no value interpolated
                args = c.right.elts if isinstance(c.right, ast.Tuple) else [c.right]
                if idx < len(args):
                    sites.append((c, args[idx]))
            elif isinstance(c, ast.Call) and isinstance(c.func, ast.Attribute) and c.func.attr == "attribute" and len(c.args) == 2 and isinstance(c.args[0], ast.Attribute) and c.args[0].attr == "nodeID":
                sites.append((c, c.args[1]))
        for c, val in sites:
            ok = value_ok(f, cls, val)
            n += 1
            rep.analysed("%s:%s" % (rx.rel, q))
            rep.ob(RULE, rx, q, "rdf:nodeID value %s in %s" % (norm(val), norm(c)[:70]), ok, "made an NCName first" if ok else
                   "the blank node identifier is written as the rdf:nodeID without passing a function that checks is_ncname(): BNode('1') gives rdf:nodeID=\"1\", which the RDF/XML reader rejects", node=c)
    if n < 4:
        raise AnalysisError("rdfxml serializers: rdf:nodeID write sites not found")


_run_base4 = run


def run(repo: Repo, rep: Report) -> None:  # noqa: F811
    _layer(rep, _run_base4, repo)
    _layer(rep, rule_o_base_cut, repo)
    _layer(rep, rule_p_jsonld_writer_falsy_terms, repo)
    _layer(rep, rule_q_get_then_store, repo)
    _layer(rep, rule_r_folded_cell_complete, repo)
    _layer(rep, rule_s_type_key_only_for_iris, repo)
    _layer(rep, rule_t_recursion_bounded, repo)
    _layer(rep, rule_u_prefix_not_own_scheme, repo)
    _layer(rep, rule_v_typed_node_element_name, repo)
    _layer(rep, rule_w_no_prefix_after_header, repo)
    _layer(rep, rule_x_registration_agrees_with_label, repo)
    _layer(rep, rule_y_n3_keyword_not_first_in_brackets, repo)
    _layer(rep, rule_z_parsetype_literal_agrees_with_reader, repo)
    _layer(rep, rule_aa_nodeid_is_ncname, repo)


# ====================================================================== rules ab .. af (pins of F256-F259, F300)


def _turtle_family(repo: Repo):
    return [repo.mod("rdflib.plugins.serializers." + m) for m in ("turtle", "longturtle", "n3", "trig")]


def _resolve_method(repo: Repo, mod, cls: str, name: str):
    """(module, function) of `self.<name>` seen from class `cls` of `mod`: the first definition along the MRO"""
    for c in repo.typed.mro(mod.name + "." + cls) or [mod.name + "." + cls]:
        mname, _, cname = c.rpartition(".")
        if mname in repo.modules and repo.modules[mname].has(cname + "." + name):
            return repo.modules[mname], repo.modules[mname].func(cname + "." + name)
    return None


def _cmp_with(e: ast.AST, name: str):
    """(operator, other side) of a two-sided comparison one side of which is the local `name`"""
    if isinstance(e, ast.Compare) and len(e.ops) == 1:
        l, r = e.left, e.comparators[0]
        if isinstance(l, ast.Name) and l.id == name:
            return e.ops[0], r
        if isinstance(r, ast.Name) and r.id == name and isinstance(e.ops[0], (ast.Eq, ast.NotEq, ast.Is, ast.IsNot)):
            return e.ops[0], l
    return None


def _walk_sentinels(loop: ast.While, cur: str) -> list[str]:
    """the constants at which the walk ends: `cur != K` conjuncts of the loop test (K not a local)"""
    from vlib.h_c03 import split_fact

    out = []
    for e, pol in split_fact(loop.test, True):
        cw = _cmp_with(e, cur)
        if cw is None or isinstance(cw[1], (ast.Name, ast.Constant)):
            continue
        if (isinstance(cw[0], (ast.NotEq, ast.IsNot)) and pol) or (isinstance(cw[0], (ast.Eq, ast.Is)) and not pol):
            out.append(norm(cw[1]))
    return out


def _walk_stops_at(loop: ast.While, cur: str, sentinel: str) -> bool:
    from vlib.h_c03 import terminates, tri_eval

    if sentinel in _walk_sentinels(loop, cur):
        return True
    first = loop.body[0] if loop.body else None
    if isinstance(first, ast.If) and terminates(first.body):  # while ...: if <test that holds when cur == K>: break

        def atom(e):
            cw = _cmp_with(e, cur)
            if cw is not None and norm(cw[1]) == sentinel:
                if isinstance(cw[0], (ast.Eq, ast.Is)):
                    return True
                if isinstance(cw[0], (ast.NotEq, ast.IsNot)):
                    return False
            return None
        return tri_eval(first.test, atom) is True
    return False


def rule_ab_writer_stops_with_validator(repo: Repo, rep: Report) -> None:
    """(ab) clause (iv) of (a) holds for the part of the chain the validator walked, and no further"""
    from vlib.h_c03 import ClassGraph, arg_of, params, short, validators_of

    RULE = "C03.ab-list-writer-stops-where-its-validator-stopped"
    rep.rule(RULE,
             "a serializer method that walks an rdf:rest chain from a parameter and is called only under `if self.<validator>(same node)` (clause iv of C03.a) is covered by the validator for "
             "the cells the validator looked at: where the validator's own walk ends at a constant (`while cell != RDF.nil`), the writer's walk ends there too (the same comparison is a conjunct "
             "of its loop test, or its first statement leaves the loop on it). `while cell:` goes on for as long as there is an rdf:rest: with `rdf:nil rdf:first 3 ; rdf:rest rdf:nil` in "
             "the graph every ( ... ) gets the invented member 3 and serialize() does not return", floor=2)
    seen: set[tuple[int, int]] = set()
    n = 0
    for cls in sorted(c for c in repo.typed.classes if c.startswith("rdflib.plugins.serializers.")):
        cg = ClassGraph(repo, cls)
        for a, call, b in cg.edges:
            bmod, bf = cg.defs[b]
            walks = [(l, c) for l, c in loops.link_walk_loops(bf) if c in params(bf)[1:]]
            if not walks:
                continue
            amod, af = cg.defs[a]
            for loop, cur in walks:
                arg = arg_of(call, bf, cur)
                # (the `if self.<validator>(node)` may sit in this caller or, the node being handed down as a parameter, in every caller of it)
                vs = validators_of(amod, af, call, arg, lambda fn, cg=cg: [(cg.defs[x][0], cg.defs[x][1], c_) for x, c_, y in cg.edges if cg.defs[y][1] is fn])
                v = cg.resolve(sorted(vs)[0]) if vs is not None and len(vs) == 1 else None
                if v is None:
                    continue  # not a validated walk: C03.a asks for a guard of its own
                vmod, vf = cg.defs[v]
                if (id(loop), id(vf)) in seen:
                    continue
                seen.add((id(loop), id(vf)))
                rep.analysed("%s:%s" % (bmod.rel, short(b)), "%s:%s" % (vmod.rel, short(v)))
                n += 1
                vwalks = [(vl, vc) for vl, vc in loops.link_walk_loops(vf) if vc in params(vf)[1:]]
                if not any(_walk_sentinels(vl, vc) for vl, vc in vwalks):
                    rep.ob(RULE, bmod, short(b), "while %s  [validator %s]" % (norm(loop.test), short(v)), True,
                           "the validator's walk does not end at a constant (it follows the chain for as long as there is an rdf:rest): nothing to agree on", node=loop)
                for vloop, vcur in vwalks:
                    for k in _walk_sentinels(vloop, vcur):
                        ok = _walk_stops_at(loop, cur, k)
                        rep.ob(RULE, bmod, short(b), "while %s  [validator %s walks while %s]" % (norm(loop.test), short(v), norm(vloop.test)), ok,
                               "ends at %s like the validator" % k if ok else
                               "%s has checked the cells up to %s only, this walk goes on past it for as long as %s has an rdf:rest: rdf:first / rdf:rest triples about %s are written as "
                               "further members of every list (and a chain that leads back to %s is walked for ever)" % (short(v), k, cur, k, k), node=loop)
    if n < 2:
        raise AnalysisError("validated list walks (TurtleSerializer / LongTurtleSerializer doList under isValidList) not found")


def rule_ac_marked_only_once(repo: Repo, rep: Report) -> None:
    """(ac) a node gets its description once: whoever marks it done knows that it was not"""
    from vlib.h_c03 import ClassGraph, arg_of, facts_at, local_defs, params, returns_falsy, tri_eval, validators_of

    RULE = "C03.ac-node-marked-written-only-once"
    rep.rule(RULE,
             "Turtle-family serializers (turtle, longturtle, n3, trig): `self.subjectDone(x)` says that the description of x is written at this place (as a statement, inline as [ ... ], "
             "or as an anonymous cell of ( ... )); it is reached only for a node known not to be in the done-set yet: by a test at the call (`x in self._serialized` / self.isDone(x) false), "
             "or - x being a parameter - at every call site of the method; for the cursor of an rdf:rest walk the first cell is such a parameter and the later cells are covered by the "
             "validator the walk is called under, whose walk rejects a cell (other than the one it started from) that is in the done-set. A list one of whose members leads back into the "
             "list (`_:c1 rdf:first _:x ; rdf:rest _:c2 . _:x :p _:c2`) may be begun at _:c2: folded into ( ... ) as well, _:c2 is written a second time as an anonymous cell and the "
             "graph read back has other triples. (A node that is itself a Graph - an N3 formula - is left out.)", floor=10)
    fam = _turtle_family(repo)
    tm = fam[0]
    mark = tm.func("RecursiveSerializer.subjectDone")
    mp = params(mark)[1]
    done = None
    for x in own_nodes(mark):
        if isinstance(x, ast.Subscript) and isinstance(x.ctx, ast.Store) and norm(x.slice) == mp and isinstance(x.value, ast.Attribute) and norm(x.value.value) == "self":
            done = norm(x.value)
    if done is None:
        raise AnalysisError("RecursiveSerializer.subjectDone: the done-set it stores into was not found")
    preds = set()
    for m, f in tm.methods("RecursiveSerializer").items():
        ps = params(f)
        rets = [s for s in f.body if isinstance(s, ast.Return)]
        if len(ps) == 2 and rets and isinstance(rets[-1].value, ast.Compare) and len(rets[-1].value.ops) == 1 and isinstance(rets[-1].value.ops[0], ast.In) \
                and norm(rets[-1].value.left) == ps[1] and norm(rets[-1].value.comparators[0]) == done:
            preds.add(m)

    def done_atom(e: ast.AST, xt: str):
        """True / False if e says `xt is done` / `xt is not done`, else None"""
        if isinstance(e, ast.Compare) and len(e.ops) == 1 and norm(e.left) == xt and norm(e.comparators[0]) == done:
            if isinstance(e.ops[0], ast.In):
                return True
            if isinstance(e.ops[0], ast.NotIn):
                return False
        if isinstance(e, ast.Call) and isinstance(e.func, ast.Attribute) and e.func.attr in preds and norm(e.func.value) == "self" and len(e.args) == 1 and norm(e.args[0]) == xt:
            return True
        return None

    # the `self.m(...)` / `super().m(...)` calls of the family, each resolved from every concrete class that has the caller
    edges: list[tuple] = []
    got: set[tuple[int, int]] = set()
    for cls in sorted(c for c in repo.typed.classes if c.rsplit(".", 1)[0] in {m.name for m in fam}):
        cg = ClassGraph(repo, cls)
        for a, call, b in cg.edges:
            if (id(call), id(cg.defs[b][1])) not in got:
                got.add((id(call), id(cg.defs[b][1])))
                edges.append((cg.defs[a][0], cg.defs[a][1], call, cg.defs[b][1]))

    def sites_of(f):
        return [(m_, m_.qual_of(fa), fa, c_) for m_, fa, c_, fb in edges if fb is f]

    def cursor_of(f, name: str):
        return [l for l, c in loops.link_walk_loops(f) if c == name]

    def known(mod, f, node, x: ast.AST, depth: int, visited: frozenset):
        xt = norm(x)
        for e, pol in facts_at(mod, f, node):
            d = done_atom(e, xt)
            if d is not None and d != pol:
                return "tested: not in %s here" % done
        if depth == 0 or not isinstance(x, ast.Name) or x.id not in params(f)[1:]:
            return None
        if any(isinstance(k, ast.Name) and k.id == x.id and isinstance(k.ctx, ast.Store) for k in own_nodes(f)) and not cursor_of(f, x.id):
            return None
        if (id(f), x.id) in visited:
            return "(by the other call sites)"
        visited = visited | {(id(f), x.id)}
        sites = sites_of(f)
        if not sites:
            return None
        for mod2, q2, f2, c in sites:
            a = arg_of(c, f, x.id)
            if a is None or known(mod2, f2, c, a, depth - 1, visited) is None:
                return None
        return "a parameter: each of the %d call site(s) of %s passes a node known not to be done" % (len(sites), f.name)  # type: ignore[attr-defined]

    n = 0
    validators: dict[int, tuple] = {}
    for mod in fam:
        for q, f in mod.functions():
            for c in own_nodes(f):
                if not (isinstance(c, ast.Call) and norm(c.func) == "self.subjectDone" and len(c.args) == 1):
                    continue
                x = c.args[0]
                if isinstance(x, ast.Call) and norm(x.func).split(".")[-1] == "cast" and len(x.args) == 2:
                    x = x.args[1]
                n += 1
                rep.analysed("%s:%s" % (mod.rel, q))
                if any(pol and isinstance(e, ast.Call) and norm(e.func) == "isinstance" and len(e.args) == 2 and norm(e.args[0]) == norm(x) and norm(e.args[1]) in ("Graph", "QuotedGraph")
                       for e, pol in facts_at(mod, f, c)):
                    rep.ob(RULE, mod, q, c, True, "a formula (a Graph used as a term): not an RDF 1.1 term", node=c)
                    continue
                why = known(mod, f, c, x, 3, frozenset())
                if isinstance(x, ast.Name) and cursor_of(f, x.id):
                    # the cells after the first: every call site is under a validator of the chain
                    guarded = True
                    for mod2, q2, f2, call in sites_of(f):
                        a = arg_of(call, f, x.id)
                        vs = validators_of(mod2, f2, call, a, lambda fn: [(m_, fa, c_) for m_, q_, fa, c_ in sites_of(fn)])
                        ress = [_resolve_method(repo, mod2, q2.rsplit(".", 1)[0], v_) for v_ in sorted(vs)] if vs and "." in q2 else [None]
                        for res in ress:
                            if res is None:
                                guarded = False
                            else:
                                validators.setdefault(id(res[1]), (res[0], res[0].qual_of(res[1]), res[1]))
                    if why is not None:
                        why = ("the first cell: " + why + "; the later cells: by the validator the walk is called under") if guarded else None
                rep.ob(RULE, mod, q, c, why is not None, why or
                       "%s is marked (and written) here although nothing on the way says it is not in %s already: a node that has its description elsewhere gets a second one "
                       "(for a blank node written inline or as a list cell: a second, different node after parsing)" % (norm(x), done), node=c)
    for vmod, vq, vf in validators.values():
        rep.analysed("%s:%s" % (vmod.rel, vq))
        ok = False
        nwalk = 0
        for vloop, vcur in loops.link_walk_loops(vf):
            if vcur not in params(vf)[1:]:
                continue
            nwalk += 1
            heads = {k.id for k in own_nodes(vf) if isinstance(k, ast.Name) and isinstance(k.ctx, ast.Store) and k.id != vcur
                     and (lambda ds: bool(ds) and all(isinstance(d, ast.Name) and d.id == vcur for d in ds))(local_defs(vf, k.id))}

            def atom(e, vcur=vcur, heads=heads):
                d = done_atom(e, vcur)
                if d is not None:
                    return d
                cw = _cmp_with(e, vcur)
                if cw is not None and isinstance(cw[1], ast.Name) and cw[1].id in heads:
                    if isinstance(cw[0], (ast.IsNot, ast.NotEq)):
                        return True  # a cell after the first
                    if isinstance(cw[0], (ast.Is, ast.Eq)):
                        return False
                return None
            for i in ast.walk(vloop):
                if isinstance(i, ast.If) and returns_falsy(i.body) and tri_eval(i.test, atom) is True:
                    ok = True
        if not nwalk:
            raise AnalysisError("%s: the validator's walk was not found" % vq)
        n += 1
        rep.ob(RULE, vmod, vq, "a cell after the first that is in %s already is rejected" % done, ok,
               "by a test of the walk" if ok else
               "no test of the walk answers False for a later cell that is written already (in %s): a list begun in the middle, through a member that leads back to one of its cells, is folded "
               "into ( ... ) and that cell, already written with its label, is written again as an anonymous cell - the graph read back has other triples" % done, node=vf)
    if n < 7:
        raise AnalysisError("subjectDone call sites of the Turtle-family serializers not found")


def rule_ad_no_raw_xml_under_default_namespace(repo: Repo, rep: Report) -> None:
    """(ad) raw parseType="Literal" content is read in the scope of the document's namespace declarations"""
    from vlib.h_c03 import facts_at, local_defs, params

    RULE = "C03.ad-parsetype-literal-not-under-a-default-namespace"
    rep.rule(RULE,
             "pretty-xml: the lexical form of an rdf:XMLLiteral written raw under parseType=\"Literal\" stands inside the root element, in the scope of every namespace the class declares there "
             "with `writer.namespaces(<dict>)`. The keys of that dict are prefixes from compute_qname_strict(), and '' (the default namespace) is one of them unless every store into the dict "
             "is under a test that the key is non-empty; so the raw write is made only where a flag that serialize() computes as `'' in <that dict>`, after the last store into it, is known "
             "to be false. Under xmlns=\"http://e/\" the literal '<b>x</b>' is read back as '<b xmlns=\"http://e/\">x</b>'", floor=1)
    rx = repo.mod("rdflib.plugins.serializers.rdfxml")
    n = 0
    for q, f in rx.functions():
        if "." not in q:
            continue
        cls = q.split(".")[0]
        ps = params(f)
        raws = [c for c in own_nodes(f) if isinstance(c, ast.Call) and isinstance(c.func, ast.Attribute) and c.func.attr == "write" and norm(c.func.value).endswith("stream")
                and len(c.args) == 1 and isinstance(c.args[0], ast.Name) and c.args[0].id in ps]
        for c in raws:
            facts = facts_at(rx, f, c)
            if not any(pol and "XMLLiteral" in norm(e) for e, pol in facts):
                continue
            decl = None
            for m, g in rx.methods(cls).items():
                for k in own_nodes(g):
                    if isinstance(k, ast.Call) and isinstance(k.func, ast.Attribute) and k.func.attr == "namespaces" and k.args:
                        for x in ast.walk(k.args[0]):
                            if isinstance(x, ast.Name) and any(isinstance(v, ast.Dict) or (isinstance(v, ast.Call) and norm(v.func) == "dict") for v in local_defs(g, x.id)):
                                decl = (m, g, x.id)
            if decl is None:
                raise AnalysisError("%s: the dict of namespace declarations passed to writer.namespaces() was not found" % cls)
            m, g, D = decl
            rep.analysed("%s:%s" % (rx.rel, q), "%s:%s.%s" % (rx.rel, cls, m))
            stores = [s for s in own_nodes(g) if isinstance(s, ast.Subscript) and isinstance(s.ctx, ast.Store) and isinstance(s.value, ast.Name) and s.value.id == D]

            def key_nonempty(s):
                k = s.slice
                if isinstance(k, ast.Constant):
                    return bool(k.value)
                for e, pol in facts_at(rx, g, s):
                    if pol and norm(e) == norm(k):
                        return True
                    if isinstance(e, ast.Compare) and len(e.ops) == 1 and norm(e.left) == norm(k) and isinstance(e.comparators[0], ast.Constant) and e.comparators[0].value == "" \
                            and ((isinstance(e.ops[0], ast.NotEq) and pol) or (isinstance(e.ops[0], ast.Eq) and not pol)):
                        return True
                return False
            open_ = [s for s in stores if not key_nonempty(s)]
            n += 1
            if not open_:
                rep.ob(RULE, rx, q, c, True, "no store into %s can have the empty prefix as its key: the document never declares a default namespace" % D, node=c)
                continue
            last = max(s.lineno for s in stores)
            flags = {}  # `self.<a>` -> its truth value when a default namespace is declared
            for a in own_nodes(g):
                if isinstance(a, ast.Assign) and len(a.targets) == 1 and isinstance(a.targets[0], ast.Attribute) and norm(a.targets[0].value) == "self" and a.lineno > last \
                        and isinstance(a.value, ast.Compare) and len(a.value.ops) == 1 and isinstance(a.value.left, ast.Constant) and a.value.left.value == "" \
                        and isinstance(a.value.comparators[0], ast.Name) and a.value.comparators[0].id == D and isinstance(a.value.ops[0], (ast.In, ast.NotIn)):
                    flags[norm(a.targets[0])] = isinstance(a.value.ops[0], ast.In)
            ok = any(isinstance(e, ast.Attribute) and norm(e) in flags and pol != flags[norm(e)] for e, pol in facts)
            rep.ob(RULE, rx, q, "%s  [declarations: %s in %s.%s]" % (norm(c), D, cls, m), ok,
                   "only when no default namespace is declared" if ok else
                   "%s.%s can declare a default namespace (%s is stored under a prefix that may be '': `%s`), and the XMLLiteral is written raw without asking: with the empty prefix bound to "
                   "<http://e/> and a predicate in that namespace, Literal('<b>x</b>', datatype=rdf:XMLLiteral) comes back as '<b xmlns=\"http://e/\">x</b>'"
                   % (cls, m, D, norm(open_[0])), node=c)
    if not n:
        raise AnalysisError("PrettyXMLSerializer.predicate: raw write of an XMLLiteral under parseType=Literal not found")


_ABS_YES = ("http://e/doc?", "urn:x:y", "a+b-c.d:e")
_ABS_NO = ("", "doc", "#f", "?q", "/p:q", "//h/p:q", "./a:b", "a/b:c")


def rule_ae_reader_resolves_relative_only(repo: Repo, rep: Report) -> None:
    """(ae) urljoin is for relative references"""
    from vlib.h_c03 import derives_from, facts_at, local_defs, params

    RULE = "C03.ae-reader-resolves-only-relative-references"
    rep.rule(RULE,
             "in the readers (rdflib/plugins/parsers, the JSON-LD helpers they share) a function that resolves a reference it was given with urllib's urljoin(base, reference) and returns the "
             "result does so only where the reference is known not to begin with a scheme: an earlier `if <regex>.match(reference): return ...` with a module-level regex that accepts "
             "exactly `scheme:` prefixes, or `if urlsplit(reference).scheme: return ...`. An IRI is to be taken as written; urljoin, given a base of the same scheme, takes it to pieces "
             "and puts it together again without an empty query or fragment: <http://e/doc?> written by the RDF/XML serializer was read back as <http://e/doc>", floor=3)
    # (shared/jsonld/context.py is left out: it uses urljoin for the locations of context documents it fetches, which are not terms of the graph)
    mods = [repo.mod(m) for m in sorted(repo.modules) if m.startswith("rdflib.plugins.parsers.")] + [repo.mod("rdflib.plugins.shared.jsonld.util")]
    n = 0
    for mod in mods:
        regexes: dict[str, str] = {}
        for st in mod.tree.body:
            if isinstance(st, ast.Assign) and len(st.targets) == 1 and isinstance(st.targets[0], ast.Name) and isinstance(st.value, ast.Call) and norm(st.value.func) in ("re.compile", "compile") \
                    and st.value.args and isinstance(st.value.args[0], ast.Constant) and isinstance(st.value.args[0].value, str):
                regexes[st.targets[0].id] = st.value.args[0].value

        def scheme_regex(name: str) -> bool:
            if name not in regexes:
                return False
            try:
                rx_ = re.compile(regexes[name])
            except re.error:
                raise AnalysisError("%s: %s does not compile" % (mod.rel, name))
            return all(rx_.match(s) for s in _ABS_YES) and not any(rx_.match(s) for s in _ABS_NO)

        for q, f in mod.functions():
            ps = set(params(f))
            for c in own_nodes(f):
                if not (isinstance(c, ast.Call) and norm(c.func).split(".")[-1] == "urljoin" and len(c.args) >= 2):
                    continue
                ref = c.args[1]
                # the names on the way from the reference back to a parameter
                chain: set[str] = set()
                todo = [x.id for x in ast.walk(ref) if isinstance(x, ast.Name)]
                while todo:
                    nm = todo.pop()
                    if nm in chain:
                        continue
                    chain.add(nm)
                    if nm not in ps:
                        for v in local_defs(f, nm):
                            todo += [x.id for x in ast.walk(v) if isinstance(x, ast.Name)]
                given = chain & ps - {"self"}
                if not given:
                    continue
                if not any(isinstance(r, ast.Return) and r.value is not None and derives_from(f, r.value, lambda k: k is c) for r in own_nodes(f)):
                    continue
                n += 1
                rep.analysed("%s:%s" % (mod.rel, q))
                ok = False
                for e, pol in facts_at(mod, f, c):
                    if pol:
                        continue
                    if isinstance(e, ast.Call) and isinstance(e.func, ast.Attribute) and e.func.attr == "match" and isinstance(e.func.value, ast.Name) and scheme_regex(e.func.value.id) \
                            and len(e.args) == 1 and isinstance(e.args[0], ast.Name) and e.args[0].id in chain:
                        ok = True
                    if isinstance(e, ast.Attribute) and e.attr == "scheme" and derives_from(
                            f, e.value, lambda k: isinstance(k, ast.Call) and norm(k.func).split(".")[-1] in ("urlsplit", "urlparse") and k.args and isinstance(k.args[0], ast.Name) and k.args[0].id in given):
                        ok = True
                rep.ob(RULE, mod, q, c, ok, "only for a reference without a scheme" if ok else
                       "the reference (%s) goes through urljoin whether or not it is an IRI already: under a base of the same scheme urljoin('http://e/x', 'http://e/doc?') gives 'http://e/doc' - "
                       "the empty query (or fragment) of an IRI the serializer wrote as it is, is gone after parsing" % norm(ref), node=c)
    if n < 3:
        raise AnalysisError("the resolving functions of the readers (RDFXMLHandler.absolutize, jsonld util.norm_url) were not found")


def rule_af_symbol_key_agrees_with_reader(repo: Repo, rep: Report) -> None:
    """(af) a key that happens to be a term is read with all that the term says"""
    from vlib.h_c03 import facts_at, namedtuple_fields, params

    RULE = "C03.af-jsonld-key-that-is-a-term-says-nothing-more"
    rep.rule(RULE,
             "JSON-LD: for a key that is a term of the context the reader (Parser methods, and the Context methods they hand the term to) consults fields of the Term beyond the IRI it stands "
             "for (id, name): type, container, language, reverse, the scoped context ... (a field read only under `<X> in term.container` counts as container). The serializer, where it has "
             "found no term that fits the value and falls back on the symbol of the predicate (`k = context.to_symbol(p)`), looks that symbol up (`t = context.terms.get(k)`) and goes back to "
             "the IRI of the predicate as the key (`k = p`) under a test that reads every one of those fields of t: a field it does not ask about is applied by the reader to a value that "
             "was not written for it. With {\"@language\": \"de\", \"q\": {\"@language\": null}} the literal \"x\"@de was written as \"q\": \"x\" and read back without its language", floor=5)
    cm = repo.mod("rdflib.plugins.shared.jsonld.context")
    fields = set(namedtuple_fields(cm, "Term"))
    ident = {"id", "name"}
    jp = repo.mod("rdflib.plugins.parsers.jsonld")

    def term_names(f) -> set[str]:
        out = set()
        a = f.args
        for x in a.posonlyargs + a.args + a.kwonlyargs:
            if x.annotation is not None and re.search(r"\bTerm\b", norm(x.annotation)):
                out.add(x.arg)
        for k in own_nodes(f):
            if isinstance(k, ast.Assign) and len(k.targets) == 1 and isinstance(k.targets[0], ast.Name) and isinstance(k.value, ast.Call) and isinstance(k.value.func, ast.Attribute) \
                    and (k.value.func.attr == "find_term" or (k.value.func.attr == "get" and isinstance(k.value.func.value, ast.Attribute) and k.value.func.value.attr == "terms")):
                out.add(k.targets[0].id)
        return out

    def reads(mod, f, names: set[str]):
        for k in own_nodes(f, include_nested=True):
            if isinstance(k, ast.Attribute) and isinstance(k.ctx, ast.Load) and isinstance(k.value, ast.Name) and k.value.id in names and k.attr in fields:
                sub = any(pol and isinstance(e, ast.Compare) and len(e.ops) == 1 and isinstance(e.ops[0], ast.In) and norm(e.comparators[0]) == k.value.id + ".container"
                          for e, pol in facts_at(mod, f, k))
                yield k.attr, k, sub

    required: dict[str, str] = {}
    for m, f in jp.methods("Parser").items():
        names = term_names(f)
        if not names:
            continue
        rep.analysed("%s:Parser.%s" % (jp.rel, m))
        for fld, node, sub in reads(jp, f, names):
            if not sub and fld not in ident:
                required.setdefault(fld, "Parser.%s: %s" % (m, norm(node)))
        for c in own_nodes(f, include_nested=True):  # the term handed on to a method of the context
            if isinstance(c, ast.Call) and isinstance(c.func, ast.Attribute) and cm.has("Context." + c.func.attr):
                g = cm.func("Context." + c.func.attr)
                gp = params(g)[1:]
                for i, a in enumerate(c.args):
                    if isinstance(a, ast.Name) and a.id in names and i < len(gp):
                        for fld, node, sub in reads(cm, g, {gp[i]}):
                            if not sub and fld not in ident:
                                required.setdefault(fld, "Context.%s: %s" % (c.func.attr, norm(node)))
    if not {"type", "container", "language"} <= set(required):
        raise AnalysisError("JSON-LD reader: the reads of Term.type / container / language were not found (found %s)" % sorted(required))
    jm = repo.mod("rdflib.plugins.serializers.jsonld")
    n = 0
    for m, f in jm.methods("Converter").items():
        ps = set(params(f))
        for k in own_nodes(f):
            if not (isinstance(k, ast.Assign) and len(k.targets) == 1 and isinstance(k.targets[0], ast.Name) and isinstance(k.value, ast.Call) and isinstance(k.value.func, ast.Attribute)
                    and k.value.func.attr == "to_symbol" and len(k.value.args) == 1 and isinstance(k.value.args[0], ast.Name) and k.value.args[0].id in ps):
                continue
            key, pred = k.targets[0].id, k.value.args[0].id
            if not any(isinstance(x, ast.Subscript) and isinstance(x.ctx, ast.Store) and isinstance(x.slice, ast.Name) and x.slice.id == key for x in own_nodes(f)):
                continue  # (a symbol that is written as a value, not used as the key of the node object)
            looked = {t.targets[0].id for t in own_nodes(f) if isinstance(t, ast.Assign) and len(t.targets) == 1 and isinstance(t.targets[0], ast.Name) and isinstance(t.value, ast.Call)
                      and isinstance(t.value.func, ast.Attribute) and t.value.func.attr == "get" and isinstance(t.value.func.value, ast.Attribute) and t.value.func.value.attr == "terms"
                      and t.value.args and isinstance(t.value.args[0], ast.Name) and t.value.args[0].id == key}
            tested: set[str] = set()
            for i in own_nodes(f):
                if isinstance(i, ast.If) and any(isinstance(s, ast.Assign) and len(s.targets) == 1 and norm(s.targets[0]) == key and isinstance(s.value, ast.Name) and s.value.id == pred for s in i.body):
                    tested |= {x.attr for x in ast.walk(i.test) if isinstance(x, ast.Attribute) and isinstance(x.value, ast.Name) and x.value.id in looked}
            rep.analysed("%s:Converter.%s" % (jm.rel, m))
            examples = {
                "language": "with {\"@language\": \"de\", \"q\": {\"@language\": null}} the literal \"x\"@de is written as \"q\": \"x\" and read back without its language",
                "reverse": "with {\"@vocab\": \"http://e/\", \"knows\": {\"@reverse\": \"http://e/knows\"}} the triple <a> <http://e/knows> <b> is written under the key \"knows\" and read back as <b> <http://e/knows> <a>",
                "context": "with {\"@base\": \"http://e/\", \"@vocab\": \"http://e/\", \"q\": {\"@id\": \"http://e/q\", \"@language\": \"de\", \"@context\": {\"@base\": \"http://other/\"}}} "
                           "the triple <http://e/a> <http://e/q> <http://e/x> is written as \"q\": {\"@id\": \"/x\"} and read back with the object <http://other/x>",
                "type": "a plain literal written under a term with \"@type\": \"@id\" is read back as an IRI",
                "container": "a node reference written under a term with \"@container\": \"@list\" is read back as a list",
            }
            for fld in sorted(required):
                ok = fld in tested
                n += 1
                rep.ob(RULE, jm, "Converter." + m, "%s = to_symbol(%s): the term of that name is asked for its `%s`  [reader: %s]" % (key, pred, fld, required[fld]), ok,
                       "the IRI of the predicate is the key when it is set" if ok else
                       "the symbol of the predicate stays the key whatever the `%s` of the term with that name: %s" % (fld, examples.get(fld, "the reader applies it to a value that was not written for it")), node=k)
    if n < 3:
        raise AnalysisError("Converter.add_to_node: the fallback `key = context.to_symbol(predicate)` was not found")


def rule_ag_unescaped_text_has_no_markup(repo: Repo, rep: Report) -> None:
    """(ag) the other half of (l): what XMLWriter.text writes outside CDATA is escaped, or known to need no escaping"""
    from vlib.h_c03 import facts_at

    RULE = "C03.ag-xmlwriter-text-is-escaped-or-has-no-markup"
    rep.rule(RULE,
             "XMLWriter.text (pretty-xml, TriX): every stream.write(...) of something computed from the text passes it through escape(), or stands between the writes of '<![CDATA[' and "
             "']]>' (rule l), or is made where the text is known to contain none of '&', '<', '>' and CR (a fast path that looks for '&', '<' and CR only writes Literal('a]]>b') raw, and "
             "']]>' is not allowed in character data: the document does not parse)", floor=2)
    xw = repo.mod("rdflib.plugins.serializers.xmlwriter")
    tf = xw.func("XMLWriter.text")
    rep.analysed("%s:XMLWriter.text" % xw.rel)
    tparam = tf.args.args[1].arg
    n = 0
    for c in own_nodes(tf):
        if not (isinstance(c, ast.Call) and norm(c.func).endswith("stream.write") and len(c.args) == 1 and any(isinstance(x, ast.Name) and x.id == tparam for x in ast.walk(c.args[0]))):
            continue
        n += 1
        if any(isinstance(x, ast.Call) and norm(x.func).split(".")[-1] == "escape" and x.args and any(isinstance(y, ast.Name) and y.id == tparam for y in ast.walk(x.args[0])) for x in ast.walk(c.args[0])):
            rep.ob(RULE, xw, "XMLWriter.text", c, True, "escaped", node=c)
            continue
        st = _stmt_of(xw, c)
        par = xw.parent.get(id(st))
        bracketed = False
        for field in ("body", "orelse"):
            lst = getattr(par, field, None)
            if isinstance(lst, list) and any(st is x for x in lst):
                i = [k for k, x in enumerate(lst) if x is st][0]
                before = norm(lst[i - 1]) if i > 0 else ""
                after = norm(lst[i + 1]) if i + 1 < len(lst) else ""
                bracketed = "<![CDATA[" in before and "]]>" in after and norm(c.args[0]) == tparam
        if bracketed:
            rep.ob(RULE, xw, "XMLWriter.text", c, True, "inside a CDATA section (rule l says when)", node=c)
            continue
        facts = facts_at(xw, tf, c)
        missing = [m for m in ("&", "<", ">", "\r") if not any(_asserts_absent(x, m, tparam) for x in facts) and not (m == ">" and any(_asserts_absent(x, "]]>", tparam) for x in facts))]
        rep.ob(RULE, xw, "XMLWriter.text", c, not missing, "the text has nothing to escape here" if not missing else
               "the text is written without escape() where it may contain %s: %s" % (", ".join(repr(m) for m in missing), "; ".join(
                   {"&": "'a&b' is an undefined entity reference", "<": "'a<b' opens an element", ">": "']]>' (Literal('a]]>b')) is not allowed in character data, the document does not parse",
                    "\r": "a carriage return is read back as a line feed"}[m] for m in missing)), node=c)
    if n < 2:
        raise AnalysisError("XMLWriter.text: the writes of the text were not found")


_run_base5 = run


def run(repo: Repo, rep: Report) -> None:  # noqa: F811
    _layer(rep, _run_base5, repo)
    _layer(rep, rule_ab_writer_stops_with_validator, repo)
    _layer(rep, rule_ac_marked_only_once, repo)
    _layer(rep, rule_ad_no_raw_xml_under_default_namespace, repo)
    _layer(rep, rule_ae_reader_resolves_relative_only, repo)
    _layer(rep, rule_af_symbol_key_agrees_with_reader, repo)
    _layer(rep, rule_ag_unescaped_text_has_no_markup, repo)


_run_before_borrow = run


def run(repo: Repo, rep: Report) -> None:  # noqa: F811
    _layer(rep, _run_before_borrow, repo)
    from vlib.core import borrow

    borrow(repo, rep, "C03", "C17", ('C17.a',))
    borrow(repo, rep, "C03", "C05", ('C05.h',))
