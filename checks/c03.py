"""C03 - serialise->parse round trip: termination on cyclic lists and
writer/reader escape-table agreement (DESIGN.md §2 C03)."""
from __future__ import annotations

import ast
import re

from vlib import loops
from vlib.core import AnalysisError, Repo, Report, norm, own_nodes

EXPLANATION = (
    "(a) Every loop in a serializer (and Collection / Graph.items, which RDF/XML uses) that follows rdf:rest from its "
    "own cursor terminates on a cyclic or malformed chain: counter bound, visited-set guard that leaves the loop, link "
    "removal, or the function is called only under a validator of the same argument that has such a guard. "
    "(b) The string-literal escape chains of the N-Triples and Turtle-family writers escape backslash first and cover "
    "the characters the grammars forbid raw, and every escape they emit is decoded by the readers' table back to the "
    "same character. Equality of the reparsed graph (numeric shorthand, qname splitting, bnode inlining, RDF/XML "
    "nesting, JSON-LD conversion) is value-level and not decided."
)


def _replace_chain(e: ast.AST) -> tuple[ast.AST, list[tuple[str, str]]]:
    """X.replace(a,b).replace(c,d) -> (X, [(a,b),(c,d)]) with constant args."""
    chain = []
    cur = e
    while isinstance(cur, ast.Call) and isinstance(cur.func, ast.Attribute) and cur.func.attr == "replace" and len(cur.args) == 2 \
            and all(isinstance(a, ast.Constant) and isinstance(a.value, str) for a in cur.args):
        chain.append((cur.args[0].value, cur.args[1].value))
        cur = cur.func.value
    chain.reverse()
    return cur, chain


def _char_class_of_escape_pattern(pattern: str) -> set[str]:
    """characters accepted after a backslash as ECHAR by a regex like \\\\(?:([tbnrf"'\\\\])|...)"""
    import re._parser as sre  # type: ignore

    out = set()
    tree = sre.parse(pattern)

    def walk(items):
        for op, av in items:
            name = str(op)
            if name == "IN":
                for o2, v2 in av:
                    if str(o2) == "LITERAL":
                        out.add(chr(v2))
            elif name in ("SUBPATTERN",):
                walk(av[3])
            elif name == "BRANCH":
                for alt in av[1]:
                    # only the first alternative group holds the ECHAR class; \\u.. alternatives contain ranges
                    walk(alt)
            elif name in ("MAX_REPEAT", "MIN_REPEAT"):
                pass
    walk(tree)
    return out


def run(repo: Repo, rep: Report) -> None:
    rep.extra["explanation"] = EXPLANATION

    # ------------------------------------------------------------------ (a)
    rep.rule("C03.a-list-walk-terminates",
             "every while-loop in rdflib/plugins/serializers, rdflib/collection.py and Graph.items whose cursor is "
             "reassigned from its own rdf:rest is bounded (counter), guarded (visited set whose hit leaves the loop), "
             "consumes the link, or lives in a function whose every call site is inside `if <validator>(same arg):` "
             "with a guarded validator", floor=8)
    scope = []
    for name, mod in repo.modules.items():
        if name.startswith("rdflib.plugins.serializers.") or name == "rdflib.collection":
            for q, f in mod.functions():
                scope.append((mod, q, f))
    gm = repo.mod("rdflib.graph")
    scope.append((gm, "Graph.items", gm.func("Graph.items")))
    nloops = 0
    for mod, q, f in scope:
        rep.analysed("%s:%s" % (mod.rel, q))
        found = list(loops.link_walk_loops(f)) + list(_pred_obj_walks(f))
        for loop, cur in found:
            nloops += 1
            why = loops.link_walk_guard(loop, cur, f)
            if why is None:
                why = _validator_guard(mod, q, f, cur)
            rep.ob("C03.a-list-walk-terminates", mod, q, "while %s: ... %s = rdf:rest of %s" % (norm(loop.test), cur, cur), why is not None,
                   why or "no counter, visited-set guard, link removal or guarded validator: serialisation never ends on a cyclic rdf:rest chain", node=loop)

    escape_table_rules(repo, rep, "C03.b-escape-tables-agree")
    # (d) readers never drop a falsy value
    from vlib import truthy as _tr
    rep.rule("C03.d-readers-keep-falsy-values",
             "in the JSON-LD reader (Parser methods that build objects and lists) a converted value that may be a Literal is tested with `is None`, "
             "never by truthiness: 0, '' and false are values that were written and must come back", floor=1)
    jp = repo.mod("rdflib.plugins.parsers.jsonld")
    for m, f in jp.methods("Parser").items():
        _tr.scan(repo, rep, "C03.d-readers-keep-falsy-values", jp, f, "Parser." + m)
        rep.analysed("rdflib/plugins/parsers/jsonld.py:Parser." + m)
    from checks.c05 import xmlns_agreement

    xmlns_agreement(repo, rep, "C03.c-rdfxml-prefixes-declared-as-used")
    mark_before_descend(repo, rep)


def mark_before_descend(repo: Repo, rep: Report) -> None:
    """(e) recursive Turtle-family writers mark a node done before they write its description"""
    from vlib.cfg import CFG

    rep.rule("C03.e-node-marked-done-before-its-description",
             "in the recursive Turtle-family serializers (turtle, n3, longturtle) a method that both marks a node (`self.subjectDone(x)`) and writes its description "
             "(`self.predicateList(x)`, `self.s_squared(x)`, `self.s_default(x)`, `self.s_clause(x)`) marks it first on every path: p_squared refuses to "
             "inline a node that is marked, and that is what keeps a blank-node cycle from being written inside itself (and a statement from being lost or repeated)", floor=5)
    DESCR = {"predicateList", "s_squared", "s_default", "s_clause"}  # doList marks every cell itself
    for modname in ("rdflib.plugins.serializers.turtle", "rdflib.plugins.serializers.n3", "rdflib.plugins.serializers.longturtle"):
        mod = repo.mod(modname)
        for q, f in mod.functions():
            marks = [c for c in own_nodes(f) if isinstance(c, ast.Call) and norm(c.func) == "self.subjectDone" and c.args]
            if not marks:
                continue
            g = None
            for c in own_nodes(f):
                if isinstance(c, ast.Call) and isinstance(c.func, ast.Attribute) and norm(c.func.value) == "self" and c.func.attr in DESCR and c.args:
                    x = norm(c.args[0])
                    ms = [m for m in marks if norm(m.args[0]) == x]
                    if not ms:
                        continue
                    g = g or CFG(f)
                    ok = g.must_pass_before(g.node_of(c, mod), [g.node_of(m, mod) for m in ms]) and not any(g.node_of(m, mod) == g.node_of(c, mod) and m.lineno > c.lineno for m in ms)
                    rep.ob("C03.e-node-marked-done-before-its-description", mod, q, c, ok,
                           "subjectDone(%s) precedes" % x if ok else
                           "%s can run before self.subjectDone(%s): while %s's own property list is being written it is not yet marked, so a blank-node path that leads back to it inlines it again" % (norm(c), x, x), node=c)


def escape_table_rules(repo: Repo, rep: Report, RULE: str) -> None:
    rep.rule(RULE,
             "string escape chains of the N-Triples writer (nt._quote_encode) and the Turtle-family writer "
             "(Literal._quote_encode) replace the backslash first, cover the raw-forbidden characters of their quoting "
             "form, and emit only escapes that the readers' table (compat._string_escape_map + the ECHAR class of "
             "_turtle_escape_pattern, ntriples.r_quot) decodes to the original character", floor=8)
    compat = repo.mod("rdflib.compat")
    # reader table
    emap = None
    pattern = None
    for st in compat.tree.body:
        if isinstance(st, ast.Assign) and isinstance(st.targets[0], ast.Name):
            if st.targets[0].id == "_string_escape_map" and isinstance(st.value, ast.Dict):
                emap = {k.value: v.value for k, v in zip(st.value.keys, st.value.values) if isinstance(k, ast.Constant) and isinstance(v, ast.Constant)}
            if st.targets[0].id == "_turtle_escape_pattern" and isinstance(st.value, ast.Call) and st.value.args and isinstance(st.value.args[0], ast.Constant):
                pattern = st.value.args[0].value
    if not emap or pattern is None:
        raise AnalysisError("compat._string_escape_map / _turtle_escape_pattern not found")
    echars = _char_class_of_escape_pattern(pattern)
    ntp = repo.mod("rdflib.plugins.parsers.ntriples")
    rq = None
    for st in ntp.tree.body:
        if isinstance(st, ast.Assign) and isinstance(st.targets[0], ast.Name) and st.targets[0].id == "r_quot" and isinstance(st.value, ast.Call) \
                and st.value.args and isinstance(st.value.args[0], ast.Constant):
            rq = _char_class_of_escape_pattern(st.value.args[0].value)
    if rq is None:
        raise AnalysisError("ntriples.r_quot not found")
    rep.info["reader_echar_class"] = sorted(echars)
    rep.ob(RULE, compat, "_turtle_escape_pattern", "ECHAR class == keys of _string_escape_map", echars == set(emap),
           "regex class and decode table agree" if echars == set(emap) else "class %s vs table keys %s" % (sorted(echars), sorted(emap)), node=compat.tree)
    rep.ob(RULE, ntp, "r_quot", "validating N-Triples ECHAR class == decode table keys", rq == set(emap),
           "agree" if rq == set(emap) else "r_quot class %s vs table keys %s" % (sorted(rq), sorted(emap)), node=ntp.tree)

    def check_chain(mod, q, chain: list[tuple[str, str]], must: set[str], form: str, node):
        eff = [(a, b) for a, b in chain]
        srcs = [a for a, _ in eff]
        # backslash first among the replacements that introduce backslashes
        intro = [i for i, (a, b) in enumerate(eff) if "\\" in b]
        bs = [i for i, (a, b) in enumerate(eff) if a == "\\"]
        ok_first = bool(bs) and (not intro or bs[0] == min(intro))
        rep.ob(RULE, mod, q, "%s: backslash escaped first (%s)" % (form, [a for a, _ in eff]), ok_first,
               "the backslash is doubled before any escape is introduced" if ok_first else
               "an escape is introduced before the backslash is doubled (or the backslash is never escaped): escapes get double-escaped / raw backslashes corrupt the string", node=node)
        missing = must - set(srcs)
        rep.ob(RULE, mod, q, "%s: covers %s" % (form, sorted(must)), not missing,
               "all raw-forbidden characters escaped" if not missing else "character(s) %r are written raw although the grammar forbids them in this quoting form" % sorted(missing), node=node)
        for a, b in eff:
            if a == "\\":
                ok = b == "\\\\"
            elif len(a) == 1:
                ok = len(b) == 2 and b[0] == "\\" and b[1] in echars and emap.get(b[1]) == a
            else:
                # multi-char source such as '"""' -> each char escaped individually
                parts = re.findall(r"\\(.)", b)
                ok = "".join(emap.get(x, "?") for x in parts) == a and len(b) == 2 * len(a)
            rep.ob(RULE, mod, q, "%s: %r -> %r" % (form, a, b), ok,
                   "decoded back to %r by the reader table" % a if ok else "the reader does not decode %r back to %r" % (b, a), node=node)

    ntw = repo.mod("rdflib.plugins.serializers.nt")
    f = ntw.func("_quote_encode")
    rep.analysed("rdflib/plugins/serializers/nt.py:_quote_encode")
    chains = []
    for n in ast.walk(f):
        base, ch = _replace_chain(n)
        if len(ch) >= 2:
            chains.append((n, base, ch))
    if not chains:
        raise AnalysisError("nt._quote_encode: no .replace chain found")
    n, base, ch = max(chains, key=lambda x: len(x[2]))
    check_chain(ntw, "_quote_encode", ch, {"\\", "\n", "\r", '"'}, 'N-Triples "..."', n)

    term = repo.mod("rdflib.term")
    f = term.func("Literal._quote_encode")
    rep.analysed("rdflib/term.py:Literal._quote_encode")
    # locate `if "\n" in self:` ; orelse = single-line form, body = triple-quoted form
    top = [s for s in f.body if isinstance(s, ast.If)]
    sel = None
    for s in top:
        t = s.test
        if isinstance(t, ast.Compare) and isinstance(t.left, ast.Constant) and t.left.value == "\n" and isinstance(t.ops[0], ast.In):
            sel = s
    if sel is None:
        raise AnalysisError("Literal._quote_encode: `if '\\n' in self` selector not found")
    # single-line form: chains in orelse; replacements of "\n" are dead there (folded away)
    best = None
    for n in [x for s in sel.orelse for x in ast.walk(s)]:
        base, ch = _replace_chain(n)
        if len(ch) >= 2 and (best is None or len(ch) > len(best[1])):
            best = (n, ch)
    if best is None:
        raise AnalysisError("Literal._quote_encode: single-line replace chain not found")
    ch = [(a, b) for a, b in best[1] if a != "\n"]  # "\n" not in self on this branch: no-op
    check_chain(term, "Literal._quote_encode", ch, {"\\", "\r", '"'}, 'Turtle "..." (no newline in value)', best[0])
    # triple-quoted form: sequence of statements; collect replace pairs in statement order
    pairs = []
    for s in sel.body:
        for n in ast.walk(s):
            if isinstance(n, ast.Call) and isinstance(n.func, ast.Attribute) and n.func.attr == "replace" and len(n.args) == 2 \
                    and all(isinstance(a, ast.Constant) and isinstance(a.value, str) for a in n.args):
                pairs.append((n.lineno, n.col_offset, n.args[0].value, n.args[1].value, n))
    # order of application: by statement order, then inner-most first within a chain (col order is outer-first; use chain extraction)
    seq: list[tuple[str, str]] = []
    for s in sel.body:
        best_chain = []
        for n in ast.walk(s):
            base, chn = _replace_chain(n)
            if len(chn) > len(best_chain):
                best_chain = chn
        seq += best_chain
    if not seq:
        raise AnalysisError("Literal._quote_encode: triple-quoted replace sequence not found")
    check_chain(term, "Literal._quote_encode", seq, {"\\", "\r", '"""'}, 'Turtle """..."""', sel)
    # trailing quote handling: a value ending in a quote must not run into the closing delimiter
    tail = any(isinstance(n, ast.If) and "[-1]" in norm(n.test) and '"' in norm(n.test) for s in sel.body for n in ast.walk(s))
    rep.ob(RULE, term, "Literal._quote_encode", 'Turtle """...""": trailing quote escaped', tail,
           "a value ending in a double quote is escaped before the closing delimiter" if tail else
           'a value ending in " would merge with the closing """', node=sel)


def _pred_obj_walks(fn: ast.AST):
    """second link-walk form: `while cur: for p, o in g.predicate_objects(cur): ... if p == RDF.rest: tmp = o ... cur = tmp`"""
    for n in own_nodes(fn, include_nested=False):
        if not isinstance(n, ast.While):
            continue
        for inner in ast.walk(n):
            if isinstance(inner, ast.For):
                itn = loops.names(inner.iter, ast.Load)
                for a in ast.walk(inner):
                    if isinstance(a, ast.If) and any(loops._is_rest(x) for x in ast.walk(a.test)):
                        for s in a.body:
                            if isinstance(s, ast.Assign) and isinstance(s.targets[0], ast.Name):
                                tmp = s.targets[0].id
                                # cursor = tmp later in the while body
                                for b in ast.walk(n):
                                    if isinstance(b, ast.Assign) and isinstance(b.targets[0], ast.Name) and isinstance(b.value, ast.Name) and b.value.id == tmp:
                                        cur = b.targets[0].id
                                        if cur in itn:
                                            yield n, cur
                                            return


def _validator_guard(mod, q: str, f: ast.FunctionDef, cur: str) -> str | None:
    """(iv) every call site of this method is inside `if self.<V>(<same arg>):` where V walks the
    same parameter with a guard."""
    params = [a.arg for a in f.args.args]
    if cur not in params:
        return None
    pos = params.index(cur)
    cls = q.rsplit(".", 1)[0] if "." in q else None
    name = f.name
    sites = []
    for q2, f2 in mod.functions():
        for c in own_nodes(f2):
            if isinstance(c, ast.Call) and isinstance(c.func, ast.Attribute) and c.func.attr == name and isinstance(c.func.value, ast.Name) and c.func.value.id == "self":
                sites.append((q2, f2, c))
    if not sites:
        return None
    for q2, f2, c in sites:
        argi = pos - 1  # minus self
        if argi >= len(c.args):
            return None
        arg = norm(c.args[argi])
        ok = False
        for p in mod.parents(c):
            if isinstance(p, ast.If) and any(c is x for s in p.body for x in ast.walk(s)):
                t = p.test
                if isinstance(t, ast.Call) and isinstance(t.func, ast.Attribute) and isinstance(t.func.value, ast.Name) and t.func.value.id == "self" \
                        and t.args and norm(t.args[0]) == arg:
                    vname = t.func.attr
                    vq = (cls + "." if cls else "") + vname
                    if mod.has(vq):
                        vf = mod.func(vq)
                        vparams = [a.arg for a in vf.args.args]
                        for vloop, vcur in loops.link_walk_loops(vf):
                            if vcur in vparams and loops.link_walk_guard(vloop, vcur, vf):
                                ok = True
            if p is f2:
                break
        if not ok:
            return None
    return "every call site (%d) is inside `if self.<validator>(same list head)` and the validator's walk of that chain is guarded" % len(sites)


_run_base = run


def run(repo: Repo, rep: Report) -> None:  # noqa: F811
    _run_base(repo, rep)
    from vlib import memo

    rep.rule("C03.f-serializer-memos-key-complete",
             "every memo of a serializer class (prefix rewrite tables, done-sets filled on a miss) is keyed by every re-bindable instance attribute its value is computed "
             "from (the store / graph being written, the base), or re-binding that attribute invalidates the memo", floor=4)
    memo.scan(repo, rep, "C03.f-serializer-memos-key-complete", sorted(m for m in repo.modules if m.startswith("rdflib.plugins.serializers.")))

    # (k) no stale loop variable in serializers
    from vlib.loops import stale_loop_variable_reads

    rep.rule("C03.k-no-stale-loop-variable",
             "in the serializer modules no loop reads a name whose only bindings are the targets of earlier, already finished loops of the same function: it would see that "
             "loop's last element in every iteration (a `for bnode in bnodes: self.subject(subject, 1)` writes one subject n times and the others never)", floor=20)
    for modname in sorted(m for m in repo.modules if m.startswith("rdflib.plugins.serializers.")):
        mod = repo.mod(modname)
        for q, f in mod.functions():
            fl = sorted((n for n in own_nodes(f) if isinstance(n, (ast.For, ast.AsyncFor))), key=lambda n: (n.lineno, n.col_offset))
            if len(fl) < 2:
                continue
            stale = dict((id(l), names_) for l, names_ in stale_loop_variable_reads(f))
            for l in fl[1:]:
                st = stale.get(id(l))
                rep.ob("C03.k-no-stale-loop-variable", mod, q, "for %s in %s" % (norm(l.target), norm(l.iter)[:40]), st is None,
                       "uses its own variables" if st is None else "the loop reads %s, bound only by an earlier loop that has finished: every iteration works on that loop's last element, the elements of this loop are never written" % st, node=l)

    # (g) JSON-LD: every subject is written
    rep.rule("C03.g-jsonld-every-subject-written",
             "JSON-LD serializer, Converter.from_graph: node objects are created by process_subject, which is reached from the top-level loop(s) over graph.subjects() and, "
             "for blank nodes, from a node that references them. A blank node whose every referrer is itself only reachable that way (a cycle, or a node referenced "
             "through a compact @id value) is reached from nowhere, so some loop over the subjects must call process_subject for blank nodes under a condition that "
             "does not ask whether the node is referenced (only: it is a BNode, it was not folded into a @list, it is not a list cell)", floor=2)
    jm = repo.mod("rdflib.plugins.serializers.jsonld")
    fg = jm.func("Converter.from_graph")
    calls = [c for c in own_nodes(fg) if isinstance(c, ast.Call) and norm(c.func) == "self.process_subject"]
    if not calls:
        raise AnalysisError("Converter.from_graph no longer calls process_subject")
    unconditional = []
    for c in calls:
        conds = []
        child = c
        for p_ in jm.parents(c):
            if isinstance(p_, ast.If) and any(child is x or any(child is y for y in ast.walk(x)) for x in p_.body):
                conds.append(p_.test)
            if p_ is fg:
                break
            child = p_
        asks_referenced = any(isinstance(n, ast.Call) and isinstance(n.func, ast.Attribute) and n.func.attr in ("subjects", "subject_predicates", "triples") for t in conds for n in ast.walk(t))
        rep.ob("C03.g-jsonld-every-subject-written", jm, "Converter.from_graph", "%s under [%s]" % (norm(c), "; ".join(norm(t)[:70] for t in conds) or "no condition"), True,
               "asks whether the node is referenced (ordering heuristic)" if asks_referenced else "does not depend on the node being referenced", node=c)
        if not asks_referenced:
            unconditional.append(c)
    rep.ob("C03.g-jsonld-every-subject-written", jm, "Converter.from_graph", "a pass over the subjects that does not depend on being referenced", bool(unconditional),
           "every blank-node subject is visited" if unconditional else
           "every process_subject call in from_graph is guarded by a referenced-ness test: blank nodes that reference only each other (`_:a p _:b . _:b p _:a`) - or that are referenced "
           "through a term coerced to @id - are never written; their triples are silently missing from the output", node=fg)

    # (h) JSON-LD: only cells with a single referrer are folded into @list
    rep.rule("C03.h-jsonld-folded-list-cells-have-one-referrer",
             "JSON-LD serializer, Converter.to_collection: the rdf:rest walk that turns a chain of cells into a @list value gives up (returns None) for a cell that is "
             "referenced from more than one place - a shared list, a shared tail - because a @list value has no identity: written twice it is read back as two lists", floor=1)
    tc = jm.func("Converter.to_collection")
    loops_ = [n for n in own_nodes(tc) if isinstance(n, ast.While)]
    if not loops_:
        raise AnalysisError("Converter.to_collection: rdf:rest walk not found")
    cur = norm(loops_[0].test)
    hit = None
    for n in ast.walk(loops_[0]):
        if isinstance(n, ast.If) and any(isinstance(r, ast.Return) and isinstance(r.value, ast.Constant) and r.value.value is None for r in n.body):
            for c in ast.walk(n.test):
                if isinstance(c, ast.Call) and isinstance(c.func, ast.Attribute) and c.func.attr in ("subject_predicates", "subjects", "triples") and any(cur in norm(a) for a in c.args):
                    hit = n
    rep.ob("C03.h-jsonld-folded-list-cells-have-one-referrer", jm, "Converter.to_collection", hit.test if hit is not None else "referrer count of %s tested in the walk" % cur, hit is not None,
           "shared cells are not folded" if hit is not None else
           "no cell of the chain is checked for other referrers: `s p _:l ; q _:l . _:l = (1 2)` is written as two @list values and read back as two different lists (extra triples, not isomorphic)", node=hit or tc)

    # (i) Turtle family: what is written as ( ... ) is a well-formed, unshared list of blank cells
    rep.rule("C03.i-turtle-collection-validator",
             "TurtleSerializer / LongTurtleSerializer.isValidList decide whether a node is written as ( ... ), which records only the rdf:first values of the chain: for every cell "
             "of the walk they require (1) a blank node - an IRI-named cell has an identity the abbreviation cannot express, (2) no second referrer (self._references of a cell "
             "after the head) - a shared tail would lose its identity, (3) exactly the properties rdf:first and rdf:rest, by name - a bare property count accepts a cell with "
             "rdf:first plus some other property and drops that property", floor=6)
    for modname, cname in (("rdflib.plugins.serializers.turtle", "TurtleSerializer"), ("rdflib.plugins.serializers.longturtle", "LongTurtleSerializer")):
        mod = repo.mod(modname)
        f = mod.func(cname + ".isValidList")
        wl = [n for n in own_nodes(f) if isinstance(n, ast.While)]
        if not wl:
            raise AnalysisError("%s.isValidList: walk not found" % cname)
        loop = wl[0]
        cur = None
        for n in ast.walk(loop):
            if isinstance(n, ast.Assign) and isinstance(n.targets[0], ast.Name) and "RDF.rest" in norm(n.value):
                cur = n.targets[0].id
        if cur is None:
            raise AnalysisError("%s.isValidList: cursor not found" % cname)
        rejects = [n for n in ast.walk(loop) if isinstance(n, ast.If) and any(isinstance(r, ast.Return) and isinstance(r.value, ast.Constant) and r.value.value is False for r in n.body)]
        tests = [t for n in rejects for t in [n.test]]
        txt = [norm(t) for t in tests]
        c1 = any("isinstance(%s, BNode)" % cur in t for t in txt)
        c2 = any("_references[%s]" % cur in t for t in txt)
        c3 = any("RDF.first" in t and "RDF.rest" in t for t in txt)
        for ok, what, why in ((c1, "cells must be blank nodes", "an IRI-named cell inside the chain is written as an anonymous member of ( ... ): the IRI and its link are lost"),
                              (c2, "cells after the head have no second referrer", "a list tail that is also referenced from elsewhere (`:t :tail _:c2`) is folded into ( ... ); the other reference dangles"),
                              (c3, "a cell has exactly rdf:first and rdf:rest (by name)", "a cell with rdf:first and one other property passes a bare count of 2: it is written as ( x ) and the other property is dropped")):
            rep.ob("C03.i-turtle-collection-validator", mod, cname + ".isValidList", what, ok, "rejected by a test in the walk" if ok else why, node=loop)

    # (j) RDF/XML pretty: parseType="Collection" only for lists it can express
    rep.rule("C03.j-prettyxml-collection-validator",
             "PrettyXMLSerializer.predicate writes parseType=\"Collection\" (which records only the members, as node elements) only under the result of a validator method whose "
             "walk rejects a chain unless every cell is a blank node, has no other referrer, has exactly rdf:first and rdf:rest, and its member is not a literal (a literal cannot "
             "be a node element); and it marks every cell of the chain as written, not only the head (otherwise the inner cells are emitted a second time)", floor=5)
    rx = repo.mod("rdflib.plugins.serializers.rdfxml")
    pf = rx.func("PrettyXMLSerializer.predicate")
    attrs = [c for c in own_nodes(pf) if isinstance(c, ast.Call) and norm(c.func).endswith(".attribute") and len(c.args) == 2 and isinstance(c.args[1], ast.Constant) and c.args[1].value == "Collection"]
    if not attrs:
        rep.ob("C03.j-prettyxml-collection-validator", rx, "PrettyXMLSerializer.predicate", "parseType=Collection is not used", True, "no abbreviation, nothing to validate", node=pf)
    for c in attrs:
        guard = None
        child = c
        for p_ in rx.parents(c):
            if isinstance(p_, ast.If) and any(child is x or any(child is y for y in ast.walk(x)) for x in p_.body):
                guard = p_
                break
            if p_ is pf:
                break
            child = p_
        validator = None
        if guard is not None:
            names = {n.id for n in ast.walk(guard.test) if isinstance(n, ast.Name)}
            for a in own_nodes(pf):
                if isinstance(a, ast.Assign) and isinstance(a.targets[0], ast.Name) and a.targets[0].id in names and isinstance(a.value, ast.Call) \
                        and isinstance(a.value.func, ast.Attribute) and norm(a.value.func.value) == "self":
                    mname = a.value.func.attr
                    for q, f in rx.functions():
                        if q.startswith("PrettyXMLSerializer.") and (q.endswith("." + mname) or q.endswith("." + mname.split("__")[-1]) or q.split(".")[-1].lstrip("_") == mname.lstrip("_").replace("PrettyXMLSerializer__", "")):
                            validator = (q, f, a.targets[0].id)
        if validator is None:
            rep.ob("C03.j-prettyxml-collection-validator", rx, "PrettyXMLSerializer.predicate", c, False,
                   "parseType=\"Collection\" is chosen without a validator of the chain (only the existence of an rdf:first is tested): a literal member is written as <rdf:Description rdf:about=\"1\"/> (an IRI), "
                   "cells with other properties or other referrers lose them, and the inner cells of the chain are written a second time as top-level nodes", node=c)
            continue
        q, f, var = validator
        wl = [n for n in own_nodes(f) if isinstance(n, ast.While)]
        txt = []
        if wl:
            for n in ast.walk(wl[0]):
                if isinstance(n, ast.If) and any(isinstance(r, ast.Return) and isinstance(r.value, ast.Constant) and r.value.value is None for r in n.body):
                    txt.append(norm(n.test))
        conds = (
            (any("isinstance(" in t and "BNode" in t for t in txt), "cells must be blank nodes", "an IRI-named cell loses its identity"),
            (any("triples((None, None," in t or "subjects(" in t or "subject_predicates(" in t for t in txt), "cells have no other referrer", "a shared list or tail is copied"),
            (any("RDF.first" in t and "RDF.rest" in t for t in txt), "a cell has exactly rdf:first and rdf:rest", "other assertions on a cell are dropped"),
            (any("Literal" in t for t in txt), "members are not literals", "a literal member is written as a node element with rdf:about=<its text>, i.e. as an IRI"),
        )
        for ok, what, why in conds:
            rep.ob("C03.j-prettyxml-collection-validator", rx, q, what, ok, "rejected by the validator" if ok else why, node=f)
        marks_all = any(isinstance(l, (ast.For,)) and var in norm(l.iter) and any(isinstance(a, ast.Assign) and "__serialized[" in norm(a.targets[0]) and norm(l.target) in norm(a.targets[0]) for a in ast.walk(l)) for l in ast.walk(guard))
        rep.ob("C03.j-prettyxml-collection-validator", rx, "PrettyXMLSerializer.predicate", "every cell of the chain is marked written", marks_all,
               "" if marks_all else "only the head cell is marked: the remaining cells are written again as top-level descriptions (extra triples after parsing)", node=guard)


_run_base2 = run


def run(repo: Repo, rep: Report) -> None:  # noqa: F811
    _run_base2(repo, rep)
    # ------------------------------------------------------------------ (l)
    rep.rule("C03.l-xmlwriter-raw-text-has-no-carriage-return",
             "XMLWriter.text (used by pretty-xml and TriX) writes text either escaped - escape(text, {'\\r': '&#13;'}) - or raw inside CDATA. CDATA cannot carry a character reference, "
             "and XML line-end normalisation turns a raw CR (and CR LF) into LF, so the raw branch is taken only under a test that the text contains no CR", floor=1)
    xw = repo.mod("rdflib.plugins.serializers.xmlwriter")
    tf = xw.func("XMLWriter.text")
    tparam = tf.args.args[1].arg
    raws = [c for c in own_nodes(tf) if isinstance(c, ast.Call) and norm(c.func).endswith("stream.write") and c.args and norm(c.args[0]) == tparam]
    if not raws:
        rep.ob("C03.l-xmlwriter-raw-text-has-no-carriage-return", xw, "XMLWriter.text", "no raw write of the text", True, "always escaped", node=tf)
    for c in raws:
        guarded = False
        child = c
        for p_ in xw.parents(c):
            if isinstance(p_, ast.If) and any(child is x or any(child is y for y in ast.walk(x)) for x in p_.body):
                for t in ast.walk(p_.test):
                    if isinstance(t, ast.Compare) and isinstance(t.ops[0], ast.NotIn) and isinstance(t.left, ast.Constant) and t.left.value == "\r" and norm(t.comparators[0]) == tparam:
                        guarded = True
            if p_ is tf:
                break
            child = p_
        rep.ob("C03.l-xmlwriter-raw-text-has-no-carriage-return", xw, "XMLWriter.text", c, guarded,
               "only for text without CR" if guarded else "text containing `<`, `>` and a carriage return is written raw inside CDATA: Literal('a<b>\\rc') is read back as 'a<b>\\nc'", node=c)

    # ------------------------------------------------------------------ (m)
    rep.rule("C03.m-serialize-starts-from-reset-state",
             "serialize() of every recursive Turtle-family serializer (turtle, n3 via turtle, trig, longturtle) calls self.reset() before it preprocesses: the done-set, reference "
             "counts and namespace table of a previous run on the same serializer object would otherwise make the second document come out without its statements", floor=3)
    for modname, cname in (("rdflib.plugins.serializers.turtle", "TurtleSerializer"), ("rdflib.plugins.serializers.trig", "TrigSerializer"), ("rdflib.plugins.serializers.longturtle", "LongTurtleSerializer")):
        mod = repo.mod(modname)
        f = mod.func(cname + ".serialize")
        resets = [c for c in own_nodes(f) if isinstance(c, ast.Call) and norm(c.func) == "self.reset"]
        pre = [c for c in own_nodes(f) if isinstance(c, ast.Call) and norm(c.func) in ("self.preprocess", "self.startDocument")]
        ok = bool(resets) and (not pre or min(r.lineno for r in resets) < min(p_.lineno for p_ in pre))
        rep.ob("C03.m-serialize-starts-from-reset-state", mod, cname + ".serialize", resets[0] if resets else "self.reset() before preprocess()", ok,
               "" if ok else "serialize() does not reset the per-run state: a second serialize() on the same serializer object finds every subject `done` and writes only the prefix header", node=resets[0] if resets else f)

    # ------------------------------------------------------------------ (i, continued): the cell's properties are compared unfiltered
    for modname, cname in (("rdflib.plugins.serializers.turtle", "TurtleSerializer"), ("rdflib.plugins.serializers.longturtle", "LongTurtleSerializer")):
        mod = repo.mod(modname)
        f = mod.func(cname + ".isValidList")
        for n in own_nodes(f):
            if isinstance(n, (ast.GeneratorExp, ast.ListComp, ast.SetComp)) and any("predicate_objects" in norm(g_.iter) for g_ in n.generators):
                filtered = [norm(c) for g_ in n.generators for c in g_.ifs]
                rep.ob("C03.i-turtle-collection-validator", mod, cname + ".isValidList", "all properties of a cell are compared (%s)" % norm(n)[:60], not filtered,
                       "unfiltered" if not filtered else "the comparison skips properties matching `%s`: a cell carrying such a triple is still abbreviated to ( ... ) and the triple is dropped" % filtered[0], node=n)


_run_base3 = run


def run(repo: Repo, rep: Report) -> None:  # noqa: F811
    _run_base3(repo, rep)
    rep.rule("C03.n-relative-form-resolves-back",
             "a serializer that writes an IRI relative to the base by cutting the base off its front (uri.replace(base, '', 1)) keeps that form only if resolving it against the base "
             "gives the IRI back (a comparison with urljoin(base, relative) / a join function), or delegates to a relativize() that does: the cut of <http://e/a/bc> against "
             "<http://e/a/b> is `c` = <http://e/a/c>; a remainder `c:d` reads as an absolute IRI; against a base ending in `#` the remainder `x` resolves to a sibling path", floor=2)
    mods = [repo.mod("rdflib.serializer")] + [repo.mod(m) for m in sorted(repo.modules) if m.startswith("rdflib.plugins.serializers.")]
    n_rel = 0
    for mod in mods:
        for q, f in mod.functions():
            if q.split(".")[-1] != "relativize":
                continue
            n_rel += 1
            cuts = [c for c in own_nodes(f) if isinstance(c, ast.Call) and isinstance(c.func, ast.Attribute) and c.func.attr == "replace" and len(c.args) >= 2 and isinstance(c.args[1], ast.Constant) and c.args[1].value == ""]
            builds = [c for c in own_nodes(f) if isinstance(c, ast.Call) and norm(c.func) == "URIRef"]
            delegates = any(isinstance(c, ast.Call) and norm(c.func) in ("super().relativize", "Serializer.relativize") for c in own_nodes(f))
            checks = any(isinstance(c, ast.Compare) and isinstance(c.ops[0], ast.Eq) for c in own_nodes(f)) and any(isinstance(c, ast.Call) and norm(c.func).split(".")[-1] in ("urljoin", "join") for c in own_nodes(f))
            if not builds:
                ok = delegates or not cuts
                rep.ob("C03.n-relative-form-resolves-back", mod, q, "delegates the relative form", ok, "to a checked relativize()" if ok else "cuts the base off without building or delegating", node=f)
                continue
            rep.ob("C03.n-relative-form-resolves-back", mod, q, builds[0], checks or delegates,
                   "kept only if it resolves back" if (checks or delegates) else
                   "the base is cut off the front of the IRI and the remainder is written as a relative reference without checking that it resolves back: with base <http://e/a/b>, <http://e/a/bc> is written <c> and read as <http://e/a/c>", node=builds[0])
    if n_rel < 2:
        raise AnalysisError("expected Serializer.relativize and RecursiveSerializer.relativize")


_run_before_borrow = run


def run(repo: Repo, rep: Report) -> None:  # noqa: F811
    _run_before_borrow(repo, rep)
    from vlib.core import borrow

    borrow(repo, rep, "C03", "C17", ('C17.a',))
    borrow(repo, rep, "C03", "C05", ('C05.h',))
