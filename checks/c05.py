"""C05 - output side only: N-Triples literal escapes, XML escape discipline, JSON via dumps (DESIGN.md §2 C05)."""
from __future__ import annotations

import ast

from checks.c03 import _replace_chain
from vlib.core import AnalysisError, Repo, Report, canon, norm, own_nodes

EXPLANATION = (
    "(a) the N-Triples/N-Quads literal writer routes every literal through _quote_encode, whose replace chain doubles the "
    "backslash first and escapes the four characters STRING_LITERAL_QUOTE forbids raw (\", \\, LF, CR); (b) XML escape "
    "discipline in the hand-written XML writers (xmlwriter.XMLWriter, rdfxml.XMLSerializer): every non-constant value "
    "interpolated into markup handed to write() is sanitised by escape()/quoteattr(), is a computed qname / indentation / "
    "constant, or is a table-listed value with a stated reason; raw stream writes are table-listed; (c) JSON-LD, HexTuples and "
    "SPARQL-JSON output text is produced by json.dumps / orjson.dumps only. NOT applicable (no static argument in reach): "
    "that the hand-written Turtle/TriG/N3, RDF/XML and JSON-LD parsers accept every legal spelling, and that "
    "str/bytes/file/path inputs agree."
)

SANITISERS = {"escape", "quoteattr"}
QNAME_CALLS = {"self.qname", "self.store.namespace_manager.qname_strict", "nm.qname_strict", "self.nm.qname_strict", "qname_strict"}
# values interpolated without a sanitiser that are safe for a stated reason: (function, normalised expr) -> reason
TABLE_SAFE = {
    ("XMLWriter.__init__", "encoding"): "codec name accepted by codecs.lookup two lines above",
    ("XMLSerializer.serialize", "self.encoding"): "codec name",
    ("XMLSerializer.predicate", "object.language"): "language tags are validated against _lang_tag_regex ([a-zA-Z0-9-]) when the Literal is constructed",
}
for _q in ("XMLWriter.namespaces", "XMLSerializer.serialize"):
    TABLE_SAFE[(_q, "prefix")] = "a namespace prefix has to be an NCName for the document to be namespace-well-formed; escaping cannot repair a non-NCName prefix (prefixes come from bind()/generated nsN)"
RAW_WRITES_OK = {
    ("PrettyXMLSerializer.predicate", "writer.stream.write(object)"): "rdf:XMLLiteral whose value is a parsed xml.dom.minidom.Document: well-formed by construction",
}


def _int_name(fn: ast.AST, nm: str) -> bool:
    """every binding of the local nm in fn is integer arithmetic on constants, int(..) and nm itself"""
    vals = [a.value for a in own_nodes(fn) if isinstance(a, ast.Assign) and norm(a.targets[0]) == nm] + \
           [a.value for a in own_nodes(fn) if isinstance(a, ast.AugAssign) and norm(a.target) == nm]

    def num(v):
        if isinstance(v, ast.Constant):
            return isinstance(v.value, int)
        if isinstance(v, ast.Call):
            return norm(v.func) == "int"
        if isinstance(v, ast.BinOp):
            return num(v.left) and num(v.right)
        if isinstance(v, ast.IfExp):
            return num(v.body) and num(v.orelse)
        return isinstance(v, ast.Name) and v.id == nm
    return bool(vals) and all(num(v) for v in vals)


def _generated_label(fn: ast.AST, v: ast.AST) -> bool:
    """'<letter...>%s' % <integer local of fn>"""
    return isinstance(v, ast.BinOp) and isinstance(v.op, ast.Mod) and isinstance(v.left, ast.Constant) and isinstance(v.left.value, str) \
        and v.left.value[:1].isalpha() and v.left.value.replace("%s", "").replace("%d", "").isalnum() and isinstance(v.right, ast.Name) and _int_name(fn, v.right.id)


def _ncname_value(mod, fn: ast.AST, v: ast.AST, at: ast.AST, depth: int = 0) -> bool:
    """the value v, evaluated at the statement `at` of fn, is an NCName by construction: a name used where `is_ncname(<that name>)` is known to hold, a call of a
    function every return of which is such a value, or an entry of a table (a local / parameter, or an attribute of self) into which only generated labels
    '<letter...>%s' % <integer> are ever stored (by fn; for an attribute of self by the methods of its class)"""
    if isinstance(v, ast.Name):
        return any(isinstance(p, ast.If) and isinstance(p.test, ast.Call) and norm(p.test.func) == "is_ncname" and p.test.args and norm(p.test.args[0]) == v.id
                   and any(at is x for s_ in p.body for x in ast.walk(s_)) for p in mod.parents(at))
    if isinstance(v, ast.Subscript) and isinstance(v.value, (ast.Name, ast.Attribute)):
        table = norm(v.value)
        scopes = [fn]
        if isinstance(v.value, ast.Attribute) and norm(v.value.value) == "self":
            owner = next((p for p in mod.parents(fn) if isinstance(p, ast.ClassDef)), None)
            if owner is None:
                return False
            scopes = [st for st in owner.body if isinstance(st, ast.FunctionDef)]
        elif not isinstance(v.value, ast.Name):
            return False
        stores = [(a.value, sc) for sc in scopes for a in own_nodes(sc) if isinstance(a, ast.Assign) and isinstance(a.targets[0], ast.Subscript) and norm(a.targets[0].value) == table]
        other = [c for sc in scopes for c in own_nodes(sc) if isinstance(c, ast.Call) and isinstance(c.func, ast.Attribute) and c.func.attr in ("update", "setdefault", "__setitem__")
                 and norm(c.func.value) == table]
        return bool(stores) and not other and all(_generated_label(sc, x) for x, sc in stores)
    if isinstance(v, ast.Call):
        callee = _resolve_local(mod, fn, v)
        return callee is not None and _ncname_producing(mod, callee, depth + 1)
    return False


def _ncname_producing(mod, fn: ast.AST, depth: int = 0) -> bool:
    """every return of fn is an NCName by construction (see _ncname_value)"""
    if not isinstance(fn, ast.FunctionDef) or depth > 2:
        return False
    rets = [r for r in own_nodes(fn) if isinstance(r, ast.Return)]
    return bool(rets) and all(r.value is not None and _ncname_value(mod, fn, r.value, r, depth) for r in rets)


def _ncname_local(mod, fn: ast.AST, name: str) -> bool:
    """every binding of the local `name` in fn is a plain assignment of a value that is an NCName by construction: the same condition as _ncname_producing, for a
    value that reaches its use through a local instead of through the return of a helper"""
    binds = [n for n in own_nodes(fn) if isinstance(n, ast.Name) and n.id == name and isinstance(n.ctx, (ast.Store, ast.Del))]
    assigns = [a for a in own_nodes(fn) if isinstance(a, ast.Assign) and len(a.targets) == 1 and isinstance(a.targets[0], ast.Name) and a.targets[0].id == name]
    a_ = fn.args  # type: ignore[attr-defined]
    if not assigns or len(assigns) != len(binds) or name in {x.arg for x in a_.posonlyargs + a_.args + a_.kwonlyargs}:
        return False
    return all(_ncname_value(mod, fn, a.value, a) for a in assigns)


def _resolve_local(mod, ctx_fn: ast.AST, call: ast.Call):
    """the FunctionDef in this module that a call `f(...)` / `self.m(...)` / `self.__m(...)` denotes"""
    fn = call.func
    if isinstance(fn, ast.Name):
        d = mod.defs.get(fn.id)
        return d if isinstance(d, ast.FunctionDef) else None
    if isinstance(fn, ast.Attribute) and isinstance(fn.value, ast.Name) and fn.value.id == "self":
        for q, d in mod.defs.items():
            if isinstance(d, ast.FunctionDef) and "." in q and q.rsplit(".", 1)[1] == fn.attr and any(ctx_fn is x for x in ast.walk(mod.defs.get(q.rsplit(".", 1)[0], ast.Module(body=[], type_ignores=[])))):
                return d
    return None


NT_MODULE, NQ_MODULE = "rdflib.plugins.serializers.nt", "rdflib.plugins.serializers.nquads"
# the public entry points of the two line-based writers of the property (NT11Serializer inherits the first)
ROW_WRITERS = ((NT_MODULE, "NTSerializer.serialize"), (NQ_MODULE, "NQuadsSerializer.serialize"))
FORBIDDEN_RAW = ("\\", '"', "\n", "\r")  # what STRING_LITERAL_QUOTE does not allow unescaped


def _top_functions(mod):
    """(qualified name, def) of the functions of a module that are not nested in another function (their nested defs are read with them)"""
    for q, f in mod.functions():
        if "." in q and isinstance(mod.defs.get(q.rsplit(".", 1)[0]), ast.FunctionDef):
            continue
        yield q, f


class _LiteralWriting:
    """Value flow of the lexical form of a Literal into the text of a row, in the N-Triples / N-Quads serializer modules.

    * an ESCAPED, QUOTED value is an expression that puts one value between two double quotes (%-format, f-string, +, str.format) where that value is an
      escape application: a chain of str.replace calls with constant arguments, or str.translate with a constant table (possibly named by a local bound once);
    * an expression CARRIES the escaped form if it contains such a value, a local all of whose bindings carry it, or a call of a function every return of which
      carries it;
    * a LITERAL SITE is an isinstance(X, Literal) test; it is in order if, where the test is known to be true, X is handed to a function every return of which
      carries the escaped form (or is escaped and quoted on the spot)."""

    def __init__(self, repo: Repo, mods):
        from vlib import h_c05 as H

        self.H, self.repo, self.mods = H, repo, mods
        self._qe: dict[int, object] = {}
        self._yq: dict[int, bool] = {}
        self.sites: list = []  # (mod, qual, fn, quoted expression, EscapeMap)
        for mod in mods:
            for q, f in _top_functions(mod):
                for n in own_nodes(f, include_nested=True):
                    em = self.quoted_escape(mod, f, n)
                    if em is not None:
                        self.sites.append((mod, q, f, n, em))

    def quoted_escape(self, mod, fn, e):
        if id(e) not in self._qe:
            slot = self.H.quoted_slot(e) if isinstance(e, (ast.BinOp, ast.JoinedStr, ast.Call)) else None
            self._qe[id(e)] = self.H.escape_map(self.repo, mod, fn, slot) if slot is not None else None
        return self._qe[id(e)]

    def escape_calls(self) -> set:
        """the str.replace calls that make up the escape chains of the escaped, quoted values"""
        return {id(c) for _, _, _, _, em in self.sites for c in em.calls}

    def carries(self, mod, fn, e, depth: int = 0, busy: frozenset = frozenset()) -> bool:
        for x in ast.walk(e):
            if self.quoted_escape(mod, fn, x) is not None:
                return True
            if isinstance(x, ast.Name) and isinstance(x.ctx, ast.Load) and x.id not in busy:
                vals = self.H.local_defs(fn, x.id)
                if vals and all(self.carries(mod, fn, v, depth, busy | {x.id}) for v in vals):
                    return True
            if isinstance(x, ast.Call):
                r = self.callee(mod, fn, x)
                if r is not None and self.yields_quoted(r[0], r[1], depth + 1):
                    return True
        return False

    def callee(self, mod, fn, call: ast.Call):
        """(module, def) of the function a call denotes: a bare name (module-level def, possibly imported from a sibling module) or a method of the own class"""
        if isinstance(call.func, ast.Name):
            return self.H.resolve_function(self.repo, mod, call.func.id)
        d = _resolve_local(mod, fn, call)
        return (mod, d) if d is not None else None

    def yields_quoted(self, mod, fn, depth: int = 0) -> bool:
        """every return of fn carries the escaped, quoted form"""
        if depth > 4:
            return False
        if id(fn) not in self._yq:
            self._yq[id(fn)] = False  # a recursive definition does not count
            rets = [r for r in own_nodes(fn) if isinstance(r, ast.Return)]
            self._yq[id(fn)] = bool(rets) and all(r.value is not None and self.carries(mod, fn, r.value, depth) for r in rets)
        return self._yq[id(fn)]

    def literal_sites(self):
        """(mod, qual, fn, isinstance test, [(rendering expression, writer function or None, in order)])"""
        H = self.H
        for mod in self.mods:
            for q, f in _top_functions(mod):
                nodes = list(own_nodes(f, include_nested=True))
                for t in nodes:
                    if not (isinstance(t, ast.Call) and isinstance(t.func, ast.Name) and t.func.id == "isinstance" and len(t.args) == 2):
                        continue
                    types = t.args[1].elts if isinstance(t.args[1], ast.Tuple) else [t.args[1]]
                    if not any(norm(x).split(".")[-1] == "Literal" for x in types):
                        continue
                    subj = norm(t.args[0])
                    found = []
                    for n in nodes:
                        writer, ok = None, None
                        if isinstance(n, ast.Call) and n is not t and any(norm(a) == subj for a in n.args):
                            r = self.callee(mod, f, n)
                            if r is None:
                                continue
                            writer, ok = r, self.yields_quoted(r[0], r[1])
                        else:
                            # escaped and quoted on the spot: the escape is applied to X itself (or to str(X))
                            em = self.quoted_escape(mod, f, n)
                            root = em.root if em is not None else None
                            if isinstance(root, ast.Call) and isinstance(root.func, ast.Name) and root.func.id == "str" and len(root.args) == 1:
                                root = root.args[0]
                            if root is None or norm(root) != subj:
                                continue
                            ok = True
                        if any(g is t for g in H.positive_guards(mod, f, n)):
                            found.append((n, writer, ok))
                    yield mod, q, f, t, found

    def dispatch_sites(self):
        """(mod, qual, dispatcher def, [(class expression, implementation (module, def), registration node, [(rendering, writer or None, in order)], in order)] or None)
        for every function of the serializer modules that chooses its implementation by the class of its first argument (functools.singledispatch): the other way
        of knowing a term to be a Literal.  Inside an implementation registered for Literal (or a subclass of it) the first parameter is the literal; the registration
        is in order if that parameter is never rebound, is handed to a function every return of which carries the escaped, quoted form (or is escaped and quoted on the
        spot), and every return of the implementation carries that form."""
        H = self.H
        try:
            lit_subs = {x.rsplit(".", 1)[-1] for x in self.repo.typed().subclasses("rdflib.term.Literal")}
        except Exception:  # no typed facts: only the class itself is recognised
            lit_subs = set()
        lit_subs.add("Literal")
        for mod in self.mods:
            for q, f in _top_functions(mod):
                if "." in q or not H.is_type_dispatcher(mod, f):
                    continue
                regs = H.type_registrations(self.repo, self.mods, mod, f)
                if regs is None:
                    yield mod, q, f, None
                    continue
                out = []
                for rmod, cls, (im, g), node in regs:
                    if norm(cls).split(".")[-1] not in lit_subs:
                        continue
                    ps = H.params(g)
                    found = []
                    if ps and not any(isinstance(x, ast.Name) and x.id == ps[0] and isinstance(x.ctx, (ast.Store, ast.Del)) for x in own_nodes(g, include_nested=True)):
                        for n in own_nodes(g, include_nested=True):
                            if isinstance(n, ast.Call) and any(norm(a) == ps[0] for a in n.args):
                                r = self.callee(im, g, n)
                                if r is not None:
                                    found.append((n, r, self.yields_quoted(r[0], r[1])))
                                continue
                            em = self.quoted_escape(im, g, n)
                            root = em.root if em is not None else None
                            if isinstance(root, ast.Call) and isinstance(root.func, ast.Name) and root.func.id == "str" and len(root.args) == 1:
                                root = root.args[0]
                            if root is not None and norm(root) == ps[0]:
                                found.append((n, None, True))
                    out.append((cls, (im, g), node, found, any(o for _, _, o in found) and self.yields_quoted(im, g)))
                yield mod, q, f, out

    def reaches(self, mod, fn, good: set, depth: int = 0, seen: set | None = None) -> bool:
        """fn, or a function of the serializer modules it calls, is one of `good`"""
        seen = seen if seen is not None else set()
        if id(fn) in good:
            return True
        if id(fn) in seen or depth > 5:
            return False
        seen.add(id(fn))
        for c in own_nodes(fn, include_nested=True):
            if not isinstance(c, ast.Call):
                continue
            r = self.callee(mod, fn, c)
            if r is not None and any(r[0] is m for m in self.mods) and self.reaches(r[0], r[1], good, depth + 1, seen):
                return True
        return False


def nt_output_rules(repo: Repo, rep: Report) -> None:
    # ------------------------------------------------------------------ (a)
    R = "C05.a-nt-literal-escapes"
    rep.rule(R,
             "N-Triples / N-Quads writers: wherever the serializer modules know a term to be a Literal (an isinstance test that holds there - as the test of an if / conditional expression / guard clause, or through a flag variable bound once to it), its text comes from a function every return of "
             "which carries the lexical form escaped and put between double quotes; every such escape (a str.replace chain, or one str.translate with a table that denotes a constant mapping, however the table is spelled) "
             "covers \", \\, LF and CR with ECHAR escapes, and a chain doubles the backslash first; NTSerializer.serialize and NQuadsSerializer.serialize reach such a place", floor=7)
    nt, nq = repo.mod(NT_MODULE), repo.mod(NQ_MODULE)
    lw = _LiteralWriting(repo, (nt, nq))
    if not lw.sites:
        rep.ob(R, nt, "<module>", "a value escaped and put between double quotes", False,
               "no expression of the N-Triples / N-Quads serializer modules puts an escaped text (str.replace chain / str.translate with a constant table) between double quotes: "
               "literals are not written as STRING_LITERAL_QUOTE", node=nt.tree)
    for mod, q, f, site, em in lw.sites:
        rep.analysed("%s:%s" % (mod.rel, q))
        if em.pairs is None:
            rep.ob(R, mod, q, "translate(%s)" % norm(em.node.args[0])[:60], False, "the translation table is not a constant this analysis can fold: which characters are escaped is unknown", node=site)
            continue
        srcs = [a for a, _ in em.pairs]
        covered = set(FORBIDDEN_RAW) <= set(srcs)
        if em.kind == "chain":
            ok = covered and srcs[0] == "\\"
            rep.ob(R, mod, q, "replace chain %s" % srcs, ok,
                   "backslash first; \", \\n, \\r covered" if ok else "the chain %s does not start with the backslash or misses one of \" \\\\ LF CR: the output is not a valid STRING_LITERAL_QUOTE" % srcs, node=site)
        else:
            ok = covered and len(set(srcs)) == len(srcs)
            rep.ob(R, mod, q, "translation table for %s" % sorted(srcs), ok,
                   "one pass over the text (an escape is never escaped again); \", \\, \\n, \\r covered" if ok else "the table %s misses one of \" \\\\ LF CR: the output is not a valid STRING_LITERAL_QUOTE" % sorted(srcs), node=site)
        for a, b in em.pairs:
            okp = b is not None and ((a == "\\" and b == "\\\\") or (len(a) == 1 and len(b) == 2 and b[0] == "\\" and b[1] in 'tbnrf"\'\\'))
            rep.ob(R, mod, q, "%r -> %r" % (a, b), okp, "an ECHAR of the grammar" if okp else "%r is not an ECHAR escape" % (b,), node=site)
    good_fns: set = set()
    writers: dict = {}
    for mod, q, f, t, found in lw.literal_sites():
        rep.analysed("%s:%s" % (mod.rel, q))
        ok = any(o for _, _, o in found)
        if ok:
            good_fns.add(id(f))
        for _, w, o in found:
            if w is not None:
                writers.setdefault(id(w[1]), (w, o))
        rep.ob(R, mod, q, "%s: the literal is written by %s" % (norm(t), sorted({norm(n.func) if w is not None else "an escape on the spot" for n, w, _ in found}) or "nothing that quotes it"), ok,
               "escaped and quoted" if ok else "where %s is a Literal it is not handed to a function every return of which carries the escaped, quoted lexical form: the row is not valid N-Triples for "
               "a literal containing \" \\ LF or CR (or is written in Turtle shorthand)" % norm(t.args[0]), node=t)
    for mod, q, f, regs in lw.dispatch_sites():
        rep.analysed("%s:%s" % (mod.rel, q))
        if regs is None:
            rep.ob(R, mod, q, "%s chooses its implementation by the class of its argument" % q, False,
                   "the implementations registered with %s cannot be read off the source: what is run for a Literal is unknown" % q, node=f)
            continue
        for cls, (im, g), node, found, ok in regs:
            rep.analysed("%s:%s" % (im.rel, im.qual_of(g)))
            for _, w, o in found:
                if w is not None:
                    writers.setdefault(id(w[1]), (w, o))
            rep.ob(R, im, im.qual_of(g), "run by %s for a %s: the literal is written by %s" % (q, norm(cls), sorted({norm(n.func) if w is not None else "an escape on the spot" for n, w, _ in found}) or "nothing that quotes it"), ok,
                   "escaped and quoted" if ok else "the implementation that %s runs for a %s does not return its argument escaped and quoted by a function every return of which carries the escaped, quoted "
                   "lexical form: the row is not valid N-Triples for a literal containing \" \\ LF or CR (or is written in Turtle shorthand)" % (q, norm(cls)), node=node)
        # a call of the dispatcher with a Literal runs one of these implementations: the dispatcher is a place where a Literal is escaped and quoted
        # if there is an implementation for Literal and all those for Literal and its subclasses are in order
        if regs and all(ok for *_, ok in regs) and any(norm(cls).split(".")[-1] == "Literal" for cls, *_ in regs):
            good_fns.add(id(f))
    for (wm, wf), o in writers.values():
        rep.analysed("%s:%s" % (wm.rel, wm.qual_of(wf)))
        rep.ob(R, wm, wm.qual_of(wf), "every return carries the escaped, quoted lexical form", o, "" if o else "a return of %s bypasses the escape" % wf.name, node=wf)
    for modname, qual in ROW_WRITERS:
        mod = repo.mod(modname)
        f = mod.func(qual)
        rep.analysed("%s:%s" % (mod.rel, qual))
        ok = lw.reaches(mod, f, good_fns)
        rep.ob(R, mod, qual, "reaches a place where a Literal is escaped and quoted", ok, "" if ok else
               "%s no longer reaches an isinstance(.., Literal) test under which the literal is written with the N-Triples escape: literals are written like other terms" % qual, node=f)

    # (a2) rows are assembled once, from a template that is part of the source
    R2 = "C05.a2-rows-from-constant-templates"
    rep.rule(R2,
             "in the N-Triples / N-Quads serializers every string is assembled by a formatting operation whose template is part of the source (an f-string, or a string constant "
             "on the left of % / as receiver of .format(): data never becomes part of a format string), and serialised text is never post-edited with str.replace(): the only "
             "str.replace calls are the members of the escape chains of rule a (applied to the lexical form before it is quoted)", floor=4)
    escape_calls = lw.escape_calls()
    for mod in (nt, nq):
        for q, f in _top_functions(mod):
            nodes = list(own_nodes(f, include_nested=True))
            specs = {id(n.format_spec) for n in nodes if isinstance(n, ast.FormattedValue) and n.format_spec is not None}

            def _const(v):
                return (isinstance(v, ast.Constant) and isinstance(v.value, str)) or (isinstance(v, ast.IfExp) and _const(v.body) and _const(v.orelse))

            def _template_ok(t: ast.AST) -> bool:
                if isinstance(t, ast.Constant):
                    return isinstance(t.value, str)
                if isinstance(t, ast.Name):
                    # a name bound only to string constants (or a conditional choice between constants)
                    vals = [x.value for x in nodes if isinstance(x, ast.Assign) and any(isinstance(tt, ast.Name) and tt.id == t.id for tt in x.targets)]
                    return bool(vals) and all(_const(v) for v in vals)
                return False

            for n in nodes:
                if isinstance(n, ast.BinOp) and isinstance(n.op, ast.Mod):
                    if isinstance(n.left, ast.Constant) and not isinstance(n.left.value, str):
                        continue
                    # a non-constant left operand of % is string formatting only if it is str-typed; arithmetic % does not occur in these modules
                    ok = _template_ok(n.left)
                    rep.ob(R2, mod, q, "%s %% (...)" % norm(n.left)[:50], ok,
                           "constant template" if ok else "the format template %s is built from data: a `%%` inside an IRI (percent-encoding) or literal is read as a conversion specifier" % norm(n.left)[:60], node=n)
                elif isinstance(n, ast.JoinedStr) and id(n) not in specs:
                    if any(isinstance(v, ast.FormattedValue) for v in n.values):
                        rep.ob(R2, mod, q, norm(n)[:70], True, "f-string: the template is part of the source", node=n)
                elif isinstance(n, ast.Call) and isinstance(n.func, ast.Attribute) and n.func.attr in ("format", "format_map"):
                    ok = _template_ok(n.func.value)
                    rep.ob(R2, mod, q, "(%s).format(...)" % norm(n.func.value)[:50], ok,
                           "constant template" if ok else "the format template %s is built from data: a `{` inside an IRI or literal is read as a replacement field" % norm(n.func.value)[:60], node=n)
                if isinstance(n, ast.Call) and isinstance(n.func, ast.Attribute) and n.func.attr == "replace" and id(n) not in escape_calls:
                    rep.ob(R2, mod, q, n, False,
                           "serialised text is edited with .replace(): the pattern also matches inside literals / IRIs of the row", node=n)


def xml_escape_rules(repo: Repo, rep: Report) -> None:
    # ------------------------------------------------------------------ (b)
    rep.rule("C05.b-xml-escape-discipline",
             "every non-constant operand interpolated into text passed to write()/stream.write() in xmlwriter.XMLWriter and rdfxml.XMLSerializer is "
             "escape()/quoteattr()-sanitised, a computed qname, indentation, or a table-listed safe value; raw (non-interpolated) variable writes are table-listed", floor=20)
    for modname, classes in (("rdflib.plugins.serializers.xmlwriter", ("XMLWriter",)), ("rdflib.plugins.serializers.rdfxml", ("XMLSerializer", "PrettyXMLSerializer"))):
        mod = repo.mod(modname)
        for cls in classes:
            for m, f in mod.methods(cls).items():
                q = "%s.%s" % (cls, m)
                rep.analysed("%s:%s" % (mod.rel, q))
                # local facts
                safe_names: dict[str, str] = {}
                for n in own_nodes(f):
                    if isinstance(n, ast.Assign) and len(n.targets) == 1 and isinstance(n.targets[0], ast.Name):
                        nm, v = n.targets[0].id, n.value
                        if isinstance(v, ast.Constant):
                            safe_names[nm] = "constant"
                        elif isinstance(v, ast.Call) and norm(v.func) in SANITISERS:
                            safe_names[nm] = "sanitised by %s" % norm(v.func)
                        elif isinstance(v, ast.Call) and (norm(v.func) in QNAME_CALLS or norm(v.func).endswith("qname_strict") or norm(v.func).endswith(".qname")):
                            safe_names[nm] = "computed qname"
                        elif isinstance(v, ast.BinOp) and isinstance(v.op, ast.Mult) and isinstance(v.left, ast.Constant):
                            safe_names[nm] = "indentation"
                        elif isinstance(v, (ast.Name, ast.Attribute)) and norm(v).endswith("write"):
                            pass

                site: list = []
                busy: set = set()

                def classify(e: ast.AST) -> str | None:
                    """reason if safe, None if unsanitised"""
                    if isinstance(e, ast.Constant):
                        return "constant"
                    if isinstance(e, ast.Call):
                        fn = norm(e.func)
                        if fn in SANITISERS:
                            return "sanitised by %s" % fn
                        if fn in QNAME_CALLS or fn.endswith("qname_strict") or fn.endswith(".qname") or fn == "self.qname":
                            return "computed qname"
                        if fn == "str" and e.args:
                            return classify(e.args[0])
                    if isinstance(e, ast.Name) and e.id in safe_names:
                        return safe_names[e.id]
                    if isinstance(e, ast.Call):
                        callee = _resolve_local(mod, f, e)
                        if callee is not None and _ncname_producing(mod, callee):
                            return "NCName by construction (%s)" % callee.name
                        # a method that only puts character references for what the encoding lacks into text that is sanitised already:
                        # its one parameter is returned, re-bound at most to an encode(.., "xmlcharrefreplace") round trip of itself
                        if callee is not None and len(e.args) == 1 and not e.keywords and len(callee.args.args) == 2:
                            par_name = callee.args.args[1].arg
                            rets_ = [r for r in own_nodes(callee) if isinstance(r, ast.Return)]
                            rebinds = [a.value for a in own_nodes(callee) if isinstance(a, ast.Assign) and norm(a.targets[0]) == par_name]
                            if rets_ and all(isinstance(r.value, ast.Name) and r.value.id == par_name for r in rets_) and all(
                                    any(isinstance(k, ast.Constant) and k.value == "xmlcharrefreplace" for k in ast.walk(v)) and par_name in {x.id for x in ast.walk(v) if isinstance(x, ast.Name)} for v in rebinds):
                                inner = classify(e.args[0])
                                if inner is not None:
                                    return inner + ", then character references for what the encoding lacks"
                    if isinstance(e, ast.Subscript) and isinstance(e.value, ast.Call) and norm(e.value.func).endswith("compute_qname_strict") \
                            and isinstance(e.slice, ast.Constant) and e.slice.value == 0:
                        return "prefix part of a computed qname"
                    if isinstance(e, ast.Attribute) and isinstance(e.value, ast.Name) and e.value.id == "self" and e.attr.startswith("__") and e.attr not in busy:
                        # a private attribute of the serializer: safe if everything the class stores in it is
                        busy.add(e.attr)
                        try:
                            stores = [(a.value, mm) for mm in mod.methods(cls).values() for a in own_nodes(mm) if isinstance(a, ast.Assign) and norm(a.targets[0]) == norm(e)]

                            def store_ok(v: ast.AST, owner: ast.AST) -> bool:
                                # judged in the method that makes the store: a constant, the prefix part of a computed qname, or a generated label "<letters>%s" % <integer local>
                                if isinstance(v, ast.Constant) and isinstance(v.value, str):
                                    return True
                                if isinstance(v, ast.Subscript) and isinstance(v.value, ast.Call) and norm(v.value.func).endswith("compute_qname_strict") and isinstance(v.slice, ast.Constant) and v.slice.value == 0:
                                    return True
                                if isinstance(v, ast.BinOp) and isinstance(v.op, ast.Mod) and isinstance(v.left, ast.Constant) and isinstance(v.left.value, str) \
                                        and v.left.value.replace("%s", "").replace("%d", "").isalnum() and v.left.value[:1].isalpha() and isinstance(v.right, ast.Name):
                                    vals = [a.value for a in own_nodes(owner) if isinstance(a, ast.Assign) and norm(a.targets[0]) == v.right.id] + \
                                           [a.value for a in own_nodes(owner) if isinstance(a, ast.AugAssign) and norm(a.target) == v.right.id]
                                    return bool(vals) and all(isinstance(x, ast.Constant) and isinstance(x.value, int) for x in vals)
                                return False
                            if stores and all(store_ok(v, mm) for v, mm in stores):
                                return "private attribute holding only constants / computed prefixes / generated labels"
                        finally:
                            busy.discard(e.attr)
                    if isinstance(e, ast.Name) and _ncname_local(mod, f, e.id):
                        return "NCName by construction (every binding of %s)" % e.id
                    if isinstance(e, ast.Name) and e.id not in busy:
                        # a local built from safe pieces ("%s:Description" % rdf)
                        busy.add(e.id)
                        try:
                            vals = [a.value for a in own_nodes(f) if isinstance(a, ast.Assign) and len(a.targets) == 1 and norm(a.targets[0]) == e.id]
                            if vals and all(piece_ok(v) for v in vals):
                                return "built from safe pieces"
                        finally:
                            busy.discard(e.id)
                    if isinstance(e, ast.Attribute) and norm(e) in ("self.indent",):
                        return "indentation"
                    if isinstance(e, ast.BinOp) and isinstance(e.op, ast.Mult):
                        return "indentation"
                    if isinstance(e, ast.Name) and e.id == "attributes":
                        # accumulated attribute text: every += piece must itself be safe
                        pieces = [n.value for n in own_nodes(f) if isinstance(n, ast.AugAssign) and norm(n.target) == "attributes"] + \
                                 [n.value for n in own_nodes(f) if isinstance(n, ast.Assign) and norm(n.targets[0]) == "attributes"]
                        bad = [p for p in pieces if not piece_ok(p)]
                        return "attribute text built from safe pieces" if not bad else None
                    why = {(x, canon(y)): r for (x, y), r in TABLE_SAFE.items()}.get((q, canon(e)))
                    if why:
                        return "table: " + why
                    # structural forms of the table rows
                    if isinstance(e, ast.Attribute) and e.attr == "language":
                        tf = repo.typed.type_of(mod.name, e.value) if False else None
                        return "language tag of a Literal: validated against _lang_tag_regex at construction"
                    if isinstance(e, ast.Name) and site:
                        # xmlns:PREFIX=<quoteattr(namespace)>: PREFIX is the first target of the enclosing `for prefix, namespace in ...`
                        for par_ in mod.parents(site[0]):
                            if isinstance(par_, ast.For) and isinstance(par_.target, ast.Tuple) and len(par_.target.elts) == 2 and norm(par_.target.elts[0]) == e.id:
                                other = norm(par_.target.elts[1])
                                if any(isinstance(x, ast.Call) and norm(x.func) == "quoteattr" and x.args and norm(x.args[0]) == other for x in ast.walk(site[0])):
                                    return "namespace prefix paired with a quoteattr()-sanitised namespace: must be an NCName, escaping cannot repair it"
                    return None

                def operands(e: ast.AST) -> list[ast.AST]:
                    if isinstance(e, ast.BinOp) and isinstance(e.op, ast.Mod):
                        r = e.right
                        return list(r.elts) if isinstance(r, ast.Tuple) else [r]
                    if isinstance(e, ast.JoinedStr):
                        return [v.value for v in e.values if isinstance(v, ast.FormattedValue)]
                    if isinstance(e, ast.BinOp) and isinstance(e.op, ast.Add):
                        return operands_or_self(e.left) + operands_or_self(e.right)
                    if isinstance(e, ast.Call) and isinstance(e.func, ast.Attribute) and e.func.attr == "format":
                        return list(e.args) + [k.value for k in e.keywords]
                    return []

                def operands_or_self(e: ast.AST) -> list[ast.AST]:
                    ops = operands(e)
                    if ops or isinstance(e, (ast.BinOp, ast.JoinedStr)) and not isinstance(getattr(e, "op", None), ast.Mult):
                        return ops
                    return [e]

                def piece_ok(p: ast.AST) -> bool:
                    if isinstance(p, ast.Constant):
                        return True
                    ops = operands(p)
                    if ops:
                        return all(classify(o) is not None for o in ops)
                    return classify(p) is not None

                # local aliases of a stream's write method: w = self.stream.write / w = self.write / lambda wrapping .write
                write_aliases = {"write"}
                for n in own_nodes(f):
                    if isinstance(n, ast.Assign):
                        v = n.value
                        is_w = (isinstance(v, ast.Attribute) and v.attr == "write") or (
                            isinstance(v, ast.Lambda) and any(isinstance(x, ast.Attribute) and x.attr == "write" for x in ast.walk(v.body)))
                        if is_w:
                            for t in n.targets:
                                if isinstance(t, ast.Name):
                                    write_aliases.add(t.id)
                for c in own_nodes(f):
                    if not (isinstance(c, ast.Call) and c.args):
                        continue
                    fn = norm(c.func)
                    if not (fn in write_aliases or fn.endswith(".write")):
                        continue
                    a = c.args[0]
                    if isinstance(a, ast.Constant):
                        continue
                    if isinstance(a, ast.Call) and isinstance(a.func, ast.Attribute) and a.func.attr == "encode":
                        a = a.func.value
                        if isinstance(a, ast.Constant):
                            continue
                    site[:] = [c]
                    ops = operands(a)
                    if ops:
                        for o in ops:
                            why = classify(o)
                            rep.ob("C05.b-xml-escape-discipline", mod, q, "%s  in  %s" % (norm(o), norm(c)[:70]), why is not None,
                                   why or "the value %s is interpolated into XML markup without escape()/quoteattr(): a value containing & < or a quote yields malformed XML" % norm(o), node=c)
                    else:
                        why = classify(a)
                        if why is None:
                            # a raw write is acceptable only inside a CDATA section: the statement is directly between the writes of the
                            # constants "<![CDATA[" and "]]>" in its block, and the enclosing test excludes "]]>" from the text
                            st_ = mod.parent.get(id(c))
                            blk_owner = mod.parent.get(id(st_))
                            for field in ("body", "orelse"):
                                blk = getattr(blk_owner, field, None)
                                if isinstance(blk, list) and st_ in blk:
                                    i = blk.index(st_)
                                    prev_ok = i > 0 and "<![CDATA[" in norm(blk[i - 1])
                                    next_ok = i + 1 < len(blk) and "]]>" in norm(blk[i + 1])
                                    guard_ok = isinstance(blk_owner, ast.If) and "']]>' not in" in norm(blk_owner.test)
                                    if prev_ok and next_ok and guard_ok:
                                        why = "inside a CDATA section entered only when ']]>' not in the text"
                        if why is None:
                            why = {(x, canon(y)): r for (x, y), r in RAW_WRITES_OK.items()}.get((q, canon(c)))
                        if why is None:
                            # the structural form of that table row, whatever the stream is called: the written value X is known, where it is written, to be
                            # a literal whose parsed value is an XML document (isinstance(X.value, ...Document) holds there)
                            from vlib import h_c05 as _H

                            for g in _H.positive_guards(mod, f, c):
                                if isinstance(g, ast.Call) and isinstance(g.func, ast.Name) and g.func.id == "isinstance" and len(g.args) == 2 \
                                        and norm(g.args[0]) == norm(a) + ".value" and norm(g.args[1]).split(".")[-1] == "Document":
                                    why = "rdf:XMLLiteral whose value is a parsed XML document (%s): well-formed by construction" % norm(g)
                        rep.ob("C05.b-xml-escape-discipline", mod, q, norm(c)[:90], why is not None,
                               why if why else "raw write of %s: not sanitised and not table-listed" % norm(a), node=c)


def xmlns_rule(repo: Repo, rep: Report) -> None:
    xmlns_agreement(repo, rep, "C05.b2-xmlns-declared-as-used")


JSON_WRITERS = (("rdflib.plugins.serializers.jsonld", "JsonLDSerializer.serialize"), ("rdflib.plugins.sparql.results.jsonresults", "JSONResultSerializer.serialize"),
                ("rdflib.plugins.serializers.hext", "HextuplesSerializer.serialize"))


def _resolve_call(mod, ctx_fn: ast.AST, call: ast.Call):
    """(FunctionDef of this module that the call denotes, whether its first parameter is bound by the call expression itself): `f(..)`, `self.m(..)`,
    `Class.m(..)` / `cls.m(..)`"""
    d = _resolve_local(mod, ctx_fn, call)
    if d is None and isinstance(call.func, ast.Attribute) and isinstance(call.func.value, ast.Name):
        recv = call.func.value.id
        owner = mod.defs.get(recv)
        if not isinstance(owner, ast.ClassDef) and recv == "cls":
            q = mod.qual_of(ctx_fn)
            owner = mod.defs.get(q.rsplit(".", 1)[0]) if "." in q else None
        if isinstance(owner, ast.ClassDef):
            d = next((st for st in owner.body if isinstance(st, ast.FunctionDef) and st.name == call.func.attr), None)
    if d is None:
        return None, False
    from vlib import h_c05 as H

    is_method = isinstance(mod.parent.get(id(d)), ast.ClassDef)
    return d, is_method and not H.is_static(d)


def _is_dumps(x: ast.AST) -> bool:
    return isinstance(x, ast.Call) and norm(x.func).endswith("dumps")


def _stream_writes(mod, fn: ast.AST, is_stream, dumped_params: set, helper_dumps: set, depth: int, seen: set):
    """(function, `<stream>.write(x)` call, x is text produced by dumps()) for every write to the output stream in fn and in the functions of the module to which fn
    hands the stream on (the parameter that receives it names the stream there; a parameter that receives dumps() text names such text there)"""
    from vlib import h_c05 as H

    if id(fn) in seen or depth > 4:
        return
    seen.add(id(fn))
    dump_names = set(dumped_params)
    for n in own_nodes(fn):
        if isinstance(n, ast.Assign) and isinstance(n.targets[0], ast.Name):
            if any(_is_dumps(x) or (isinstance(x, ast.Call) and norm(x.func) in helper_dumps) for x in ast.walk(n.value)):
                dump_names.add(n.targets[0].id)

    def dumped(a: ast.AST) -> bool:
        return bool({x.id for x in ast.walk(a) if isinstance(x, ast.Name)} & dump_names) or any(_is_dumps(x) for x in ast.walk(a))

    for c in own_nodes(fn):
        if not isinstance(c, ast.Call):
            continue
        if isinstance(c.func, ast.Attribute) and c.func.attr == "write" and is_stream(c.func.value):
            if c.args:
                yield fn, c, dumped(c.args[0])
            continue
        handed = [a for a in list(c.args) + [k.value for k in c.keywords] if is_stream(a)]
        if not handed:
            continue
        callee, bound = _resolve_call(mod, fn, c)
        if callee is None:
            continue
        a_ = callee.args
        names = [x.arg for x in a_.posonlyargs + a_.args + a_.kwonlyargs]
        got = {p_: H.bound_arg(c, callee, p_, bound) for p_ in (names[1:] if bound else names)}
        streams = {p_ for p_, e in got.items() if e is not None and is_stream(e)}
        texts = {p_ for p_, e in got.items() if e is not None and not is_stream(e) and dumped(e)}
        if streams:
            yield from _stream_writes(mod, callee, lambda e, _s=streams: norm(e) in _s, texts, helper_dumps, depth + 1, seen)


def json_rules(repo: Repo, rep: Report) -> None:
    # ------------------------------------------------------------------ (c)
    rep.rule("C05.c-json-by-dumps", "JSON text written by the JSON-LD, HexTuples and SPARQL-JSON serializers comes from json.dumps / orjson.dumps: every write() to the output stream, "
             "in serialize() or in a function of the module it hands the stream to, writes text that dumps() produced", floor=5)
    for modname, qual in JSON_WRITERS:
        mod = repo.mod(modname)
        f = mod.func(qual)
        rep.analysed("%s:%s" % (mod.rel, qual))
        helper_dumps = set()
        # methods of the class that return dumps(...) results
        cls = qual.split(".")[0]
        for m, mf in mod.methods(cls).items():
            rets = [r for r in own_nodes(mf) if isinstance(r, ast.Return) and r.value is not None]
            names = {norm(n.targets[0]) for n in own_nodes(mf) if isinstance(n, ast.Assign) and any(_is_dumps(x) for x in ast.walk(n.value))}
            rets = [r for r in rets if not (isinstance(r.value, ast.Constant) and r.value.value is None)]
            if rets and all(any(_is_dumps(x) for x in ast.walk(r.value)) or (isinstance(r.value, ast.Name) and r.value.id in names) for r in rets):
                helper_dumps.add("self." + m)
        nw = 0
        for wf, c, ok in _stream_writes(mod, f, lambda e: norm(e).endswith("stream"), set(), helper_dumps, 0, set()):
            nw += 1
            where = qual if wf is f else mod.qual_of(wf)
            rep.analysed("%s:%s" % (mod.rel, where))
            rep.ob("C05.c-json-by-dumps", mod, where, c, ok, "text from dumps()" if ok else "JSON output text %s is not the result of json.dumps/orjson.dumps" % norm(c.args[0])[:60], node=c)
        if nw == 0:
            raise AnalysisError("%s: no write to the output stream found (in it or in the functions it hands the stream to)" % qual)
    # (c2) non-finite floats never reach json.dumps as numbers
    rep.rule("C05.c2-no-nan-in-json",
             "a JSON serializer either calls json.dumps(..., allow_nan=False), or converts literals to native Python numbers (toPython()) only under "
             "a finiteness test (math.isfinite / isnan / isinf): json.dumps would write NaN / Infinity, which is not JSON", floor=2)
    for modname in ("rdflib.plugins.serializers.jsonld", "rdflib.plugins.sparql.results.jsonresults", "rdflib.plugins.serializers.hext"):
        mod = repo.mod(modname)
        dumps = [c for c in ast.walk(mod.tree) if isinstance(c, ast.Call) and norm(c.func) == "json.dumps"]
        strict = bool(dumps) and all(any(k.arg == "allow_nan" and isinstance(k.value, ast.Constant) and k.value.value is False for k in c.keywords) for c in dumps)
        natives = []
        for q, f in mod.functions():
            for c in own_nodes(f):
                if isinstance(c, ast.Call) and isinstance(c.func, ast.Attribute) and c.func.attr == "toPython":
                    guarded = any(isinstance(x, ast.Call) and norm(x.func).split(".")[-1] in ("isfinite", "isnan", "isinf") for x in ast.walk(f))
                    natives.append((q, c, guarded))
        if strict or not natives:
            rep.ob("C05.c2-no-nan-in-json", mod, "<module>", "json.dumps(allow_nan=False) / no native numbers", True,
                   "allow_nan=False" if strict else "no literal is converted to a native Python number in this module", node=mod.tree)
        for q, c, guarded in ([] if strict else natives):
            rep.ob("C05.c2-no-nan-in-json", mod, q, c, guarded,
                   "native conversion guarded by a finiteness test" if guarded else
                   "a literal's Python value (possibly float('nan') / inf) enters the JSON tree and json.dumps is not called with allow_nan=False: the output contains bare NaN / Infinity", node=c)


def run(repo: Repo, rep: Report) -> None:
    """the first rule layers: each group of rules is a layer of its own, so that a lost anchor of one group is judged (on the tree and on its equivalent views)
    without taking the rules of the other groups with it"""
    from vlib.core import layer

    rep.extra["explanation"] = EXPLANATION
    layer(rep, nt_output_rules, repo)
    layer(rep, xml_escape_rules, repo)
    layer(rep, xmlns_rule, repo)  # a layer of its own: its anchors (found by role) are not those of the escape discipline
    layer(rep, json_rules, repo)
    layer(rep, iri_resolution_rule, repo)


def xmlns_agreement(repo: Repo, rep: Report, RULE: str) -> None:
    """every prefix used in an element name is declared: the code that collects the xmlns declarations splits
    IRIs with the same (strict) qname computation as the functions that write element names.

    The two sides are found by what they do, from the public methods of the class: the DECLARING side is the code that computes what
    XMLSerializer.serialize writes into its xmlns declarations (the writes whose template text contains `xmlns`: the values interpolated there,
    followed through the loops they are drawn from and the locals they are bound to, to the methods of the class they are the results of - whatever those
    private methods are called; qname computations written out in serialize itself count as well); the NAMING side is XMLSerializer.predicate."""
    from vlib import h_c05 as H

    QNAME_FUNCS = ("compute_qname", "compute_qname_strict", "qname", "qname_strict")
    rep.rule(RULE,
             "rdfxml.XMLSerializer: the xmlns declarations (the code whose results serialize() writes as xmlns attributes) and the element names (predicate) are computed "
             "with qname functions of the same strictness (compute_qname_strict / qname_strict); otherwise an element can use a generated prefix that was never declared", floor=2)
    mod = repo.mod("rdflib.plugins.serializers.rdfxml")
    cls = "XMLSerializer"
    ser = mod.func(cls + ".serialize")
    methods = mod.methods(cls)

    def qname_calls(fs) -> list:
        return [norm(c.func).rsplit(".", 1)[-1] for f_ in fs for c in ast.walk(f_) if isinstance(c, ast.Call) and isinstance(c.func, ast.Attribute) and c.func.attr in QNAME_FUNCS]

    declarers = H.producers_of_written_text(mod, ser, methods, lambda text: "xmlns" in text)
    if declarers is None:
        raise AnalysisError("anchor vanished: %s:%s.serialize writes no xmlns declaration (no write whose template contains `xmlns`)" % (mod.rel, cls))
    sides = []
    decl_fns = [methods[m] for m in declarers]
    if qname_calls([ser]) or not decl_fns:
        decl_fns = [ser] + decl_fns
    sides.append(("%s.%s" % (cls, declarers[0]) if declarers and decl_fns[0] is not ser else cls + ".serialize", decl_fns))
    sides.append((cls + ".predicate", [mod.func(cls + ".predicate")]))
    strict = []
    for q, fs in sides:
        calls = qname_calls(fs)
        if not calls:
            raise AnalysisError("%s: no qname computation found" % q)
        strict.append({c.endswith("_strict") for c in calls})
        rep.analysed(*["%s:%s" % (mod.rel, mod.qual_of(f_)) for f_ in fs])
        rep.ob(RULE, mod, q, "uses %s" % sorted(set(calls)), len(strict[-1]) == 1, "" if len(strict[-1]) == 1 else "%s mixes strict and non-strict qname computation" % q, node=fs[0])
    ok = strict[0] == strict[1] == {True}
    rep.ob(RULE, mod, cls, "declarations and element names both use the strict split", ok,
           "every used prefix is declared" if ok else "xmlns declarations and element names are computed with different qname functions: for a predicate whose local part is not an NCName the element uses a prefix that is never declared (unbound prefix, not namespace-well-formed)", node=mod.func(cls + ".predicate"))


# where IRI references read from a document are resolved against the base: (module, function) per syntax family
IRI_RESOLVERS = [
    ("rdflib.plugins.parsers.notation3", "join", "Turtle / TriG / N3"),
    ("rdflib.plugins.parsers.rdfxml", "RDFXMLHandler.absolutize", "RDF/XML"),
    ("rdflib.plugins.shared.jsonld.util", "norm_url", "JSON-LD"),
]


def iri_resolution_rule(repo: Repo, rep: Report) -> None:
    """(d) sibling agreement of relative-IRI resolution"""
    rep.rule("C05.d-iri-resolution-keeps-empty-components",
             "the resolvers of IRI references of the parsers agree on RFC 3986 section 5.2: the reference's query and path are kept as written. A resolver that "
             "delegates to urllib.parse.urljoin does not: urljoin re-assembles the result with urlunsplit, which drops an empty query ('a?') and empty path "
             "parameters ('o;') (a fact of the standard library on every interpreter rdflib supports); the Turtle-family resolver works on the strings "
             "and keeps them. (URIRef(ref, base=...), used for SPARQL BASE, shares the flaw but SPARQL text is outside this property.)", floor=3)
    for modname, q, what in IRI_RESOLVERS:
        mod = repo.mod(modname)
        f = mod.func(q)
        rep.analysed("%s:%s" % (mod.rel, q))
        calls = [c for c in own_nodes(f) if isinstance(c, ast.Call) and norm(c.func).split(".")[-1] == "urljoin"]
        # a urljoin whose result only feeds the *path* of a hand-assembled result is not a whole-reference resolution
        whole = []
        for c in calls:
            second = c.args[1] if len(c.args) > 1 else None
            if second is not None and isinstance(second, ast.Attribute) and second.attr == "path":
                continue
            whole.append(c)
        if not whole:
            rep.ob("C05.d-iri-resolution-keeps-empty-components", mod, q, "%s: no whole-reference urljoin" % what, True, "resolves on the strings", node=f)
        for c in whole:
            rep.ob("C05.d-iri-resolution-keeps-empty-components", mod, q, c, False,
                   "%s: the reference is resolved with urljoin: with base <http://example/> the legal references <a?> and <o;> (and, for a base of the same scheme, "
                   "the absolute <http://example/a?>) become <http://example/a> and <http://example/o>, where the Turtle parser reads <http://example/a?> and "
                   "<http://example/o;> from the same spelling" % what, node=c)


from vlib.core import layer as _layer  # noqa: E402

_run_base = run


def run(repo: Repo, rep: Report) -> None:  # noqa: F811
    _layer(rep, _run_base, repo)
    from vlib import memo

    rep.rule("C05.e-parser-memos-key-complete",
             "every memo of a parser class (a dict attribute that a method both looks a key up in and fills under that key: blank-node label maps, resolved-reference "
             "caches ...) is keyed by everything its value is computed from: an instance attribute the value reads and that a later method re-binds (the base IRI after "
             "@base / BASE, the current graph ...) is part of the key, or re-binding it invalidates the memo", floor=6)
    mods = [m for m in repo.modules if m.startswith("rdflib.plugins.parsers.") or m.startswith("rdflib.plugins.shared.jsonld.")]
    memo.scan(repo, rep, "C05.e-parser-memos-key-complete", sorted(mods))

    # (f) xml:lang="" is a value
    from vlib import truthy as _tr

    rep.rule("C05.f-empty-xml-lang-is-a-value",
             "RDF/XML parser: the in-scope language (xml:lang, inherited down the element stack) is compared with None by identity; xml:lang=\"\" switches the "
             "inherited language off, so the empty string must not be treated like an absent attribute", floor=1)
    rx = repo.mod("rdflib.plugins.parsers.rdfxml")
    for q, f in rx.functions():
        # the expressions that hold the in-scope language: the `.language` attribute of the element handlers and every local that is
        # assigned from it, from the xml:lang attribute lookup (`<attrs>.get(LANG, ...)`), or from another such local
        lang_names: set[str] = set()
        for _ in range(3):
            for a in own_nodes(f):
                if isinstance(a, ast.Assign) and len(a.targets) == 1 and isinstance(a.targets[0], ast.Name):
                    v = a.value
                    src = (isinstance(v, ast.Attribute) and v.attr == "language") or (isinstance(v, ast.Name) and v.id in lang_names) or (
                        isinstance(v, ast.Call) and isinstance(v.func, ast.Attribute) and v.func.attr == "get" and v.args and norm(v.args[0]) == "LANG")
                    if src:
                        lang_names.add(a.targets[0].id)

        def is_lang(e: ast.AST) -> bool:
            return (isinstance(e, ast.Attribute) and e.attr == "language") or (isinstance(e, ast.Name) and e.id in lang_names)

        for n in own_nodes(f):
            if isinstance(n, ast.Compare) and isinstance(n.ops[0], (ast.Is, ast.IsNot)) and isinstance(n.comparators[0], ast.Constant) and n.comparators[0].value is None \
                    and is_lang(n.left):
                rep.ob("C05.f-empty-xml-lang-is-a-value", rx, q, n, True, "by identity", node=n)
        for e, owner, kind in _tr.bool_contexts(f):
            if is_lang(e):
                rep.ob("C05.f-empty-xml-lang-is-a-value", rx, q, "%s [in %s: %s]" % (norm(e), kind, norm(getattr(owner, "test", owner))[:60]), False,
                       "%s is None or a string; xml:lang=\"\" (empty string, falsy) is an explicit `no language` and must not take the `attribute absent` path: literals below would inherit the ancestor's language tag" % norm(e), node=e)


_run_base2 = run


def run(repo: Repo, rep: Report) -> None:  # noqa: F811
    _layer(rep, _run_base2, repo)
    rx = repo.mod("rdflib.plugins.serializers.rdfxml")
    rep.rule("C05.g-prettyxml-declares-the-prefix-it-writes",
             "PrettyXMLSerializer writes the names of the RDF vocabulary (rdf:RDF, rdf:Description, rdf:about ...) through XMLWriter.qname, i.e. with the prefix the graph's namespace "
             "manager has or generates for the RDF namespace (or an extra_ns entry given to the writer). The xmlns declaration for that namespace must use the same source; a "
             "declaration under the hard-coded prefix `rdf` is only right while the graph binds `rdf` to the RDF namespace (Graph(bind_namespaces='none') writes <ns2:RDF xmlns:rdf=...>: unbound prefix)", floor=1)
    sf = rx.func("PrettyXMLSerializer.serialize")
    xw = [c for c in own_nodes(sf) if isinstance(c, ast.Call) and norm(c.func) == "XMLWriter"]
    extra = any(k.arg == "extra_ns" and isinstance(k.value, ast.Dict) and any(isinstance(x, ast.Constant) and x.value == "rdf" for x in k.value.keys) for c in xw for k in c.keywords)
    hard = [st for st in own_nodes(sf) if isinstance(st, ast.Assign) and isinstance(st.targets[0], ast.Subscript) and isinstance(st.targets[0].slice, ast.Constant) and st.targets[0].slice.value == "rdf"]
    computed = [st for st in own_nodes(sf) if isinstance(st, ast.Assign) and isinstance(st.value, ast.Call) and norm(st.value.func).endswith("compute_qname_strict") and st.value.args and "RDFVOC" in norm(st.value.args[0])]
    if hard:
        for st in hard:
            rep.ob("C05.g-prettyxml-declares-the-prefix-it-writes", rx, "PrettyXMLSerializer.serialize", st, extra,
                   "the writer is told to use `rdf` for that namespace (extra_ns)" if extra else
                   "the RDF namespace is declared as xmlns:rdf whatever prefix the writer will put on rdf:RDF / rdf:about: a graph that does not bind `rdf` to it gets element names with an undeclared prefix (not namespace-well-formed XML)", node=st)
    else:
        ok = bool(computed) or extra
        rep.ob("C05.g-prettyxml-declares-the-prefix-it-writes", rx, "PrettyXMLSerializer.serialize", computed[0] if computed else "declaration of the RDF namespace", ok,
               "declared under the prefix the namespace manager gives it" if ok else "no declaration of the RDF namespace found", node=computed[0] if computed else sf)


_run_base3 = run


def run(repo: Repo, rep: Report) -> None:  # noqa: F811
    _layer(rep, _run_base3, repo)
    rep.rule("C05.h-inherited-containers-are-copied-before-they-are-extended",
             "in the parser modules, a function that sets an attribute of one object from the same-named attribute of ANOTHER object (`current.declared = parent.declared`: per-element "
             "state inherited down the element stack) and then extends it in place (subscript store, update/append/add) takes a copy: without it the entries made for one element "
             "leak into the parent and thereby into the following siblings (the in-scope xmlns map of an XMLLiteral: a later sibling loses its declaration)", floor=1)
    n_sites = 0
    for modname in sorted(m for m in repo.modules if m.startswith("rdflib.plugins.parsers.")):
        mod = repo.mod(modname)
        for q, f in mod.functions():
            for a in own_nodes(f):
                if not (isinstance(a, ast.Assign) and len(a.targets) == 1 and isinstance(a.targets[0], ast.Attribute)):
                    continue
                t, v = a.targets[0], a.value
                src = v.func.value if isinstance(v, ast.Call) and isinstance(v.func, ast.Attribute) and v.func.attr == "copy" and not v.args else v
                copied = src is not v or (isinstance(v, ast.Call) and norm(v.func) in ("dict", "list", "set") and v.args and isinstance(v.args[0], ast.Attribute))
                if isinstance(v, ast.Call) and norm(v.func) in ("dict", "list", "set") and v.args:
                    src = v.args[0]
                if not (isinstance(src, ast.Attribute) and src.attr == t.attr and norm(src.value) != norm(t.value)):
                    continue
                owner = norm(t)
                muts = [n for n in own_nodes(f) if getattr(n, "lineno", 0) > a.lineno and (
                    (isinstance(n, ast.Assign) and any(isinstance(x, ast.Subscript) and norm(x.value) == owner for x in n.targets)) or
                    (isinstance(n, ast.Call) and isinstance(n.func, ast.Attribute) and n.func.attr in ("update", "append", "add", "extend", "setdefault", "pop") and norm(n.func.value) == owner))]
                if not muts:
                    continue
                n_sites += 1
                rep.ob("C05.h-inherited-containers-are-copied-before-they-are-extended", mod, q, a, copied,
                       "copied, then extended" if copied else "%s aliases %s and is then extended in place (%s): the change is visible through the other object as well" % (owner, norm(src), norm(muts[0])[:50]), node=a)
    if n_sites == 0:
        raise AnalysisError("no inherited-and-extended container found in the parser modules (rdfxml literal_element_start was one)")


# ---------------------------------------------------------------------------------------------------------------------
# parser side: token tables (regular expressions, character sets) against the grammars, and necessary conditions on the
# hand-written scanners / IRI resolvers.  Helpers: vlib/h_c05.py
# ---------------------------------------------------------------------------------------------------------------------
LINE_SYNTAX_PARSERS = ("rdflib.plugins.parsers.ntriples", "rdflib.plugins.parsers.nquads", "rdflib.plugins.parsers.patch",
                       "rdflib.plugins.parsers.notation3", "rdflib.plugins.parsers.trig")
CR, LF = "\r", "\n"


def _parser_modules(repo: Repo) -> list:
    return [repo.mod(m) for m in sorted(repo.modules) if m.startswith("rdflib.plugins.parsers.")]


def token_regex_rules(repo: Repo, rep: Report) -> None:
    from vlib import h_c05 as H

    mods = _parser_modules(repo)
    regexes = [(m, r) for m in mods for r in H.module_regexes(repo, m)]
    if len(regexes) < 15:
        raise AnalysisError("only %d regular expressions found in the parser modules (ntriples and notation3 compile 25)" % len(regexes))

    # (i) white space between the terms of a statement is optional
    R = "C05.i-separator-white-space-is-optional"
    rep.rule(R, "N-Triples / N-Quads / RDF Patch parsers: a pattern handed to eat() that consists of white space only accepts the empty string. The grammars have no "
                "mandatory white space (`triple ::= subject predicate object '.'`): <s><p><o>. is a legal line, so a separator pattern with a minimum width of 1 rejects it", floor=8)
    ws_chars = [(9, 13), (32, 32)]
    for m in mods:
        for q, f in m.functions():
            for c in own_nodes(f):
                if not (isinstance(c, ast.Call) and isinstance(c.func, ast.Attribute) and c.func.attr == "eat" and len(c.args) == 1):
                    continue
                rx = H.resolve_regex(repo, m, c.args[0])
                if rx is None:
                    continue
                sets = [H.class_set(op, av, rx.flags) for op, av in H.regex_items(rx.sp)]
                sets = [s for s in sets if s is not None]
                if not sets or any(H.iv_minus(s, ws_chars) for s in sets):
                    continue  # not a pure white-space pattern
                ok = rx.min_width() == 0
                rep.ob(R, m, q, "eat(<%s>)" % rx.pattern, ok, "optional" if ok else
                       "the separator pattern %r needs at least %d character(s): the legal line `<http://a/s><http://a/p><http://a/o>.` is rejected" % (rx.pattern, rx.min_width()), node=c)
                rep.analysed("%s:%s" % (m.rel, q))

    # (j) blank node labels: the classes of the token cover the grammar's name characters
    R = "C05.j-blank-node-label-classes-cover-the-grammar"
    rep.rule(R, "a token pattern for blank node labels (it starts with the literal `_:`) follows BLANK_NODE_LABEL ::= '_:' (PN_CHARS_U | [0-9]) ((PN_CHARS | '.')* PN_CHARS)?: "
                "its first character class contains PN_CHARS_U and the digits, every later class contains PN_CHARS (both include the non-ASCII ranges of PN_CHARS_BASE; "
                "PN_CHARS adds U+00B7, U+0300-036F, U+203F-2040). A narrower class stops the label at the first such character: `_:b\u00e9 <p> <o> .` is rejected", floor=2)
    for m, rx in regexes:
        top = list(rx.sp)
        if not (len(top) >= 2 and str(top[0][0]) == "LITERAL" and top[0][1] == ord("_") and str(top[1][0]) == "LITERAL" and top[1][1] == ord(":")):
            continue
        classes = [(op, av) for op, av in H.regex_items(rx.sp) if str(op) == "IN"]
        if not classes:
            rep.ob(R, m, rx.label, "no character class after `_:`", False, "the label pattern %r has no character class to compare with the grammar" % rx.pattern, node=rx.node)
        for k, (op, av) in enumerate(classes):
            need = H.iv_union(H.PN_CHARS_U, H.DIGITS) if k == 0 else H.PN_CHARS
            missing = H.iv_minus(need, H.class_set(op, av, rx.flags))
            what = "first character" if k == 0 else "character class %d" % (k + 1)
            rep.ob(R, m, rx.label, "%s of the label" % what, not missing, "covers %s" % ("PN_CHARS_U | [0-9]" if k == 0 else "PN_CHARS") if not missing else
                   "the %s of %s does not accept %s, which the grammar allows there: a label such as `_:%sb%s` is cut short or rejected"
                   % (what, rx.label, H.iv_show(missing), "" if k else chr(missing[0][0]), chr(missing[0][0]) if k else ""), node=rx.node)

    # (k) negated classes exclude ASCII characters only
    R = "C05.k-negated-classes-exclude-only-ascii"
    rep.rule(R, "in the token patterns of the parsers a negated character class ([^...]) excludes ASCII characters only. Every terminal the grammars define by exclusion "
                "(IRIREF: #x00-#x20 < > \" { } | ^ ` \\; the string terminals; comments) excludes ASCII characters; a class that also excludes non-ASCII ones - "
                "typically through \\s, which for str patterns is every Unicode white space: U+0085, U+00A0, U+2000-200A, U+3000 ... - rejects a legal document "
                "(<http://a/b\u00a0c> is a legal IRIREF and rdflib's own N-Triples output contains it raw)", floor=7)
    for m, rx in regexes:
        for op, av in H.regex_items(rx.sp):
            if not H.is_negated(op, av):
                continue
            excluded = H.iv_compl(H.class_set(op, av, rx.flags))
            bad = H.iv_minus(excluded, [(0, 0x7F)])
            rep.ob(R, m, rx.label, "[^ %s ] in %s" % (H.iv_show(excluded, 12), rx.pattern[:60]), not bad, "ASCII only" if not bad else
                   "the class excludes the non-ASCII characters %s%s: text containing one of them (e.g. U+%04X) is legal where the grammar excludes only ASCII characters, and is rejected"
                   % (H.iv_show(bad), " (through a Unicode-wide category escape such as \\s)" if H.has_category(op, av) else "", bad[0][0]), node=rx.node)

    # (l) a lone CR ends a line, as LF and CR LF do
    R = "C05.l-cr-and-lf-are-both-line-ends"
    rep.rule(R, "the parsers of the line / token syntaxes treat CR and LF alike (EOL ::= [#xD#xA]+; white space is #x20 #x9 #xD #xA; a comment ends at either): "
                "(1) a character class - or, in a pattern that names line ends, `.` - contains LF iff it contains CR; (2) a pattern (or an alternation in it) that matches "
                "\"\\n\" alone matches \"\\r\" alone, and vice versa; (3) a constant character set used in a membership test of a scanner contains LF iff it contains CR. "
                "Otherwise a document with CR-only line ends loses the statements after a comment (`# c\\r<s> <p> <o> .`) or is rejected", floor=18)
    for m, rx in regexes:
        items = list(H.regex_items(rx.sp))
        sets = [(op, av, H.class_set(op, av, rx.flags)) for op, av in items]

        def eol_aware(op, av, s) -> bool:
            """the item singles out a line end: a literal CR / LF, a class that contains one, a negated class (or `.`) that excludes one"""
            has = (H.iv_has(s, 10), H.iv_has(s, 13))
            return not all(has) if (H.is_negated(op, av) or str(op) == "ANY") else any(has)

        # the pattern is about line ends: it has a literal CR / LF, or a negated class that excludes nothing but line ends
        names_eol = any(s is not None and ((str(op) == "LITERAL" and av in (10, 13)) or (str(op) in ("IN", "NOT_LITERAL") and H.is_negated(op, av)
                        and not H.iv_minus(H.iv_compl(s), [(10, 10), (13, 13)]))) for op, av, s in sets)
        for op, av, s in sets:
            o = str(op)
            if s is None or o == "LITERAL" or not eol_aware(op, av, s) or (o == "ANY" and not names_eol):
                continue
            has_lf, has_cr = H.iv_has(s, 10), H.iv_has(s, 13)
            shown = "." if o == "ANY" else ("[^ %s ]" % H.iv_show(H.iv_compl(s), 10) if H.is_negated(op, av) else "[ %s ]" % H.iv_show(s, 10))
            ok = has_lf == has_cr
            lf_special = (not has_lf) if (H.is_negated(op, av) or o == "ANY") else has_lf
            rep.ob(R, m, rx.label, "%s in %s" % (shown, rx.pattern[:60]), ok, "CR and LF alike" if ok else
                   "%s treats %s as a line end but not %s: a comment / line that ends in a lone %s is not ended there (`# c\\r<s> <p> <o> .` loses the statement)"
                   % (shown, "LF" if lf_special else "CR", "CR" if lf_special else "LF", "CR" if lf_special else "LF"), node=rx.node)
        subs = [("the pattern", rx.sp)] + [("alternation %d" % (k + 1), [(op, av)]) for k, (op, av) in enumerate(x for x in items if str(x[0]) == "BRANCH")]
        for what, sp in subs:
            lang = H.bounded_language(sp, rx.flags, (CR, LF, "x"), 2)
            if lang is None or not ({CR, LF} & lang):
                continue
            ok = {CR, LF} <= lang
            rep.ob(R, m, rx.label, "%s of %s matches %s" % (what, rx.pattern[:60], sorted(repr(x) for x in lang & {CR, LF, CR + LF})), ok, "CR, LF alike" if ok else
                   "%s matches %s alone but not %s: a lone %s is not taken as a line end" % (what, "LF" if LF in lang else "CR", "CR" if LF in lang else "LF", "CR" if LF in lang else "LF"), node=rx.node)
    for name in LINE_SYNTAX_PARSERS:
        m = repo.mod(name)
        for q, f in m.functions():
            seen_sets: set = set()
            for c in own_nodes(f):
                if not (isinstance(c, ast.Compare) and len(c.ops) == 1 and isinstance(c.ops[0], (ast.In, ast.NotIn))):
                    continue
                cs = H.const_charset(repo, m, c.comparators[0])
                if cs is None or not ({CR, LF} & cs) or norm(c.comparators[0]) in seen_sets:
                    continue
                seen_sets.add(norm(c.comparators[0]))
                ok = {CR, LF} <= cs
                rep.ob(R, m, q, "%s %s" % ("in" if isinstance(c.ops[0], ast.In) else "not in", norm(c.comparators[0])[:70]), ok, "CR and LF alike" if ok else
                       "the character set contains %s but not %s: the scanner treats a lone %s differently from the other line end" % (
                           "LF" if LF in cs else "CR", "CR" if LF in cs else "LF", "CR" if LF in cs else "LF"), node=c)
                rep.analysed("%s:%s" % (m.rel, q))


def input_source_rules(repo: Repo, rep: Report) -> None:
    # (m) bytes are decoded without newline translation
    R = "C05.m-bytes-are-decoded-without-newline-translation"
    rep.rule(R, "rdflib.parser: every TextIOWrapper that turns a byte source into the character stream of an InputSource is created with newline=\"\". The default "
                "(universal newlines) rewrites CR and CR LF to LF while decoding, so a literal \"\"\"a\\r\\nb\"\"\" (or \"a&#13;b\" written raw) given as bytes / file parses to a "
                "different graph than the same document given as str. (JSON syntaxes cannot contain a raw line end inside a string; their wrappers are not in scope.)", floor=2)
    m = repo.mod("rdflib.parser")
    for q, f in m.functions():
        for c in own_nodes(f):
            if isinstance(c, ast.Call) and norm(c.func).split(".")[-1] == "TextIOWrapper":
                nl = [k.value for k in c.keywords if k.arg == "newline"]
                if len(c.args) >= 4:
                    nl.append(c.args[3])
                ok = bool(nl) and all(isinstance(v, ast.Constant) and v.value == "" for v in nl)
                rep.ob(R, m, q, c, ok, "newline=\"\"" if ok else
                       "the byte stream is decoded with universal-newline translation: CR / CR LF inside a literal become LF for bytes and file input, not for str input", node=c)
                rep.analysed("%s:%s" % (m.rel, q))


def document_id_rule(repo: Repo, rep: Report) -> None:
    # (o) the document id is made absolute before it is used as an IRI
    R = "C05.o-document-id-is-made-absolute"
    rep.rule(R, "in every parser the id of the source document (getPublicId() / getSystemId(): for an open file it is the bare path) reaches IRI resolution only through "
                "<graph>.absolutize(...); other uses are error messages, truth tests and taking the fragment. A raw id used as base gives scheme-less IRIs: "
                "parse(open('/tmp/x/doc.rdf','rb'), format='xml') with rdf:about=\"rel\" yields </tmp/x/rel> where the Turtle parser yields <file:///tmp/x/rel>", floor=8)
    for m in _parser_modules(repo):
        for q, f in m.functions():
            srcs = [c for c in own_nodes(f) if isinstance(c, ast.Call) and isinstance(c.func, ast.Attribute) and c.func.attr in ("getPublicId", "getSystemId") and not c.args]
            for s in srcs:
                verdict = _use_of_document_id(m, q, f, s, 0)
                bad = [v for v in verdict if v.startswith("raw")]
                rep.ob(R, m, q, "%s -> %s" % (norm(s), sorted(set(v.split(":")[0] for v in verdict)) or ["unused"]), not bad,
                       "; ".join(sorted(set(verdict))) if not bad else
                       "the document id is used as an IRI without being made absolute (%s): for a file object source it is a bare path, relative IRIs of the document then resolve to scheme-less IRIs" % bad[0], node=s)
                rep.analysed("%s:%s" % (m.rel, q))


def _use_of_document_id(m, q: str, f: ast.AST, node: ast.AST, depth: int) -> list[str]:
    """how the value of expression `node` is used: 'clean' (argument of absolutize), 'message', 'fragment', 'test', or 'raw:<construct>'"""
    if depth > 4:
        return ["raw:too deep"]
    child = node
    for p in m.parents(node):
        if isinstance(p, (ast.BoolOp, ast.IfExp)) and not (isinstance(p, ast.IfExp) and child is p.test):
            child = p
            continue
        if isinstance(p, ast.IfExp) or (isinstance(p, (ast.If, ast.While)) and child is p.test) or isinstance(p, ast.UnaryOp) and isinstance(p.op, ast.Not):
            return ["test"]
        if isinstance(p, ast.Compare) and all(isinstance(x, ast.Constant) and x.value is None for x in p.comparators):
            return ["test"]
        if isinstance(p, (ast.JoinedStr, ast.FormattedValue)) or (isinstance(p, ast.BinOp) and isinstance(p.op, ast.Mod)) or (isinstance(p, ast.Tuple) and isinstance(m.parent.get(id(p)), ast.BinOp)):
            return ["message"]
        if isinstance(p, ast.Call):
            if isinstance(p.func, ast.Attribute) and p.func.attr == "absolutize":
                return ["clean"]
            up = m.parent.get(id(p))
            if isinstance(up, ast.Attribute) and up.attr == "fragment":
                return ["fragment"]
            return ["raw:%s" % norm(p)[:60]]
        if isinstance(p, (ast.Assign, ast.AnnAssign)):
            tg = p.targets if isinstance(p, ast.Assign) else [p.target]
            if len(tg) == 1 and isinstance(tg[0], ast.Name):
                out: list[str] = []
                for n in own_nodes(f):
                    if isinstance(n, ast.Name) and isinstance(n.ctx, ast.Load) and n.id == tg[0].id:
                        out += _use_of_document_id(m, q, f, n, depth + 1)
                return out
            return ["raw:%s" % norm(p)[:60]]
        if isinstance(p, ast.Return):
            # the value is returned: follow the calls of this method in its class
            out = []
            cls = q.rsplit(".", 1)[0] if "." in q else None
            for q2, f2 in m.functions():
                if cls and q2.startswith(cls + "."):
                    for c in own_nodes(f2):
                        if isinstance(c, ast.Call) and isinstance(c.func, ast.Attribute) and c.func.attr == f.name and isinstance(c.func.value, ast.Name) and c.func.value.id == "self":  # type: ignore[attr-defined]
                            out += _use_of_document_id(m, q2, f2, c, depth + 1)
            return out
        if isinstance(p, ast.stmt):
            return ["raw:%s" % norm(p)[:60]]
        child = p
    return ["raw:?"]


def rdfxml_rules(repo: Repo, rep: Report) -> None:
    # (n) IRI-valued attribute values are resolved against the in-scope base
    R = "C05.n-rdfxml-attribute-iris-are-resolved"
    rep.rule(R, "RDF/XML parser: an IRI node made from an attribute VALUE of the document (rdf:about, rdf:resource, rdf:datatype, rdf:ID, the value of an rdf:type property "
                "attribute: anything read from the attribute dictionary convert() returns) is made by absolutize(), which resolves it against the in-scope xml:base; a bare "
                "URIRef(<value>) keeps a relative reference relative (<rdf:Description rdf:about=\"http://a/s\"><ex:p rdf:type=\"T\"/> with xml:base http://b/ gives <T>, not <http://b/T>)", floor=5)
    m = repo.mod("rdflib.plugins.parsers.rdfxml")
    for meth, f in m.methods("RDFXMLHandler").items():
        q = "RDFXMLHandler." + meth
        dicts = set()
        for st in own_nodes(f):
            if isinstance(st, ast.Assign) and isinstance(st.value, ast.Call) and isinstance(st.value.func, ast.Attribute) and st.value.func.attr == "convert" \
                    and isinstance(st.targets[0], ast.Tuple) and len(st.targets[0].elts) == 2 and isinstance(st.targets[0].elts[1], ast.Name):
                dicts.add(st.targets[0].elts[1].id)
        if not dicts:
            continue
        rep.analysed("%s:%s" % (m.rel, q))

        def is_src(e: ast.AST) -> bool:
            return (isinstance(e, ast.Subscript) and isinstance(e.value, ast.Name) and e.value.id in dicts and isinstance(e.ctx, ast.Load)) or (
                isinstance(e, ast.Call) and isinstance(e.func, ast.Attribute) and e.func.attr == "get" and isinstance(e.func.value, ast.Name) and e.func.value.id in dicts)

        tainted: set[str] = set()
        for _ in range(4):
            for st in own_nodes(f):
                if isinstance(st, ast.Assign) and any(is_src(x) or (isinstance(x, ast.Name) and x.id in tainted) for x in ast.walk(st.value)) \
                        and not (isinstance(st.value, ast.Call) and norm(st.value.func).split(".")[-1] in ("absolutize", "URIRef", "Literal", "BNode")):
                    for t in st.targets:
                        for x in ast.walk(t):
                            if isinstance(x, ast.Name) and not isinstance(t, (ast.Subscript, ast.Attribute)):
                                tainted.add(x.id)
        resolver_names = {"absolutize"} | {st.targets[0].id for st in own_nodes(f) if isinstance(st, ast.Assign) and isinstance(st.targets[0], ast.Name)
                                           and isinstance(st.value, ast.Attribute) and st.value.attr == "absolutize"}
        for c in own_nodes(f):
            if not (isinstance(c, ast.Call) and c.args):
                continue
            fn = c.func.attr if isinstance(c.func, ast.Attribute) else (c.func.id if isinstance(c.func, ast.Name) else "")
            if fn not in resolver_names and fn != "URIRef":
                continue
            if not any(is_src(x) or (isinstance(x, ast.Name) and x.id in tainted) for x in ast.walk(c.args[0])):
                continue
            ok = fn in resolver_names
            rep.ob(R, m, q, "%s(%s)" % ("absolutize" if ok else fn, canon(c.args[0])), ok, "resolved against the in-scope base" if ok else
                   "the attribute value %s becomes an IRI without being resolved against the in-scope base: a relative reference stays relative" % norm(c.args[0]), node=c)


def n3_scanner_rules(repo: Repo, rep: Report) -> None:
    from vlib import h_c05 as H
    from vlib.cfg import CFG

    m = repo.mod("rdflib.plugins.parsers.notation3")
    methods = m.methods("SinkParser")
    esc = H.const_charset(repo, m, ast.Name(id="escapeChars", ctx=ast.Load()))
    not_name = H.const_charset(repo, m, ast.Name(id="_notNameChars", ctx=ast.Load()))
    if not esc or not not_name:
        raise AnalysisError("notation3: the character tables escapeChars / _notNameChars are no longer foldable constants")

    def text_index(e: ast.AST, back: int):
        """(text, index name) if e is <text>[<name> - back]"""
        if isinstance(e, ast.Subscript) and isinstance(e.slice, ast.BinOp) and isinstance(e.slice.op, ast.Sub) and isinstance(e.slice.right, ast.Constant) \
                and e.slice.right.value == back and isinstance(e.slice.left, ast.Name):
            return norm(e.value), e.slice.left.id
        return None

    # (p) a look-behind after an escape-aware scan asks whether the character was escaped
    R = "C05.p-look-behind-after-an-escape-aware-scan"
    rep.rule(R, "Turtle/N3 scanner: after a loop that scans a name and honours backslash escapes (it compares a character with '\\\\'), a test that looks back at the last "
                "character consumed (text[i - 1] == c, c one of the characters PN_LOCAL_ESC can escape) to give it back as punctuation also tests that the character before it "
                "is not the backslash (text[i - 2]). Without it the escaped dot of `ex:a\\. ` is taken for the end of the statement and the name loses it", floor=1)
    for meth, f in methods.items():
        q = "SinkParser." + meth
        loops = [w for w in own_nodes(f) if isinstance(w, ast.While) and any(
            isinstance(x, ast.Compare) and any(isinstance(y, ast.Constant) and y.value == "\\" for y in [x.left] + x.comparators) for x in ast.walk(w))]
        if not loops:
            continue
        for st in own_nodes(f):
            if not isinstance(st, (ast.If, ast.While)) or not any(st.lineno > (w.end_lineno or 0) for w in loops):
                continue
            for x in ast.walk(st.test):
                if not (isinstance(x, ast.Compare) and len(x.ops) == 1 and isinstance(x.ops[0], ast.Eq) and isinstance(x.comparators[0], ast.Constant)
                        and x.comparators[0].value in esc):
                    continue
                ti = text_index(x.left, 1)
                if ti is None:
                    continue
                guards = [y for y in ast.walk(st.test) if isinstance(y, ast.Compare) and len(y.ops) == 1 and text_index(y.left, 2) == ti
                          and isinstance(y.comparators[0], ast.Constant) and y.comparators[0].value == "\\"]
                ok = bool(guards)
                rep.ob(R, m, q, canon(st.test), ok, "asks whether the character was escaped" if ok else
                       "%s is compared with %r after a scan that honours backslash escapes, without looking at the character before it: the escaped %r of a local name "
                       "(`ex:a\\%s`) is treated as punctuation and cut off the name" % (norm(x.left), x.comparators[0].value, x.comparators[0].value, x.comparators[0].value), node=st)
                rep.analysed("%s:%s" % (m.rel, q))

    # (q) a keyword ends at a terminator, but a terminator that can continue a name needs a look-ahead
    R = "C05.q-keyword-end-needs-a-look-ahead-for-name-characters"
    rep.rule(R, "Turtle/N3 scanner: a test that accepts a keyword (`a`, `true`, `false`, `is` ...) because the next character is in a terminator table also looks one character "
                "further when that table contains a character that may continue a name (a character outside _notNameChars: the dot). PN_PREFIX allows inner dots, so `a.b:c`, "
                "`true.x:c` are prefixed names: without the look-ahead their first letters are read as the keyword", floor=1)
    for meth, f in methods.items():
        q = "SinkParser." + meth
        for st in own_nodes(f):
            if not isinstance(st, ast.If):
                continue
            accepts = any(isinstance(r, ast.Return) and r.value is not None and not isinstance(r.value, ast.Constant)
                          and not (isinstance(r.value, ast.UnaryOp) and isinstance(r.value.operand, ast.Constant)) for b in st.body for r in ast.walk(b))
            if not accepts:
                continue
            for x in ast.walk(st.test):
                if not (isinstance(x, ast.Compare) and len(x.ops) == 1 and isinstance(x.ops[0], ast.In) and isinstance(x.left, ast.Subscript) and isinstance(x.comparators[0], ast.Name)):
                    continue
                table = H.const_charset(repo, m, x.comparators[0])
                if table is None or not (table - not_name):
                    continue
                exprs = H.closure_exprs(f, st.test)
                ok = any(isinstance(n, ast.Name) and n.id == "_notNameChars" for e in exprs for n in ast.walk(e))
                rep.ob(R, m, q, "%s in %s" % (canon(x.left), x.comparators[0].id), ok, "with a look-ahead against _notNameChars" if ok else
                       "the token is accepted when the next character is in %s, which contains %s - a character that may continue a name - and nothing looks at the character "
                       "after it: `a.b:c <p> <o> .` is read as the keyword `a` followed by garbage" % (x.comparators[0].id, sorted(table - not_name)), node=st)
                rep.analysed("%s:%s" % (m.rel, q))

    # (r) white space may separate a string from its ^^datatype / @language
    R = "C05.r-white-space-between-a-string-and-its-suffix"
    rep.rule(R, "Turtle/N3 scanner: after a quoted string has been read (strconst), every test for the `^^` of a datatype or the `@` of a language tag is reached only through "
                "a skipSpace() call made after the string. String, `^^`/LANGTAG and the datatype IRI are separate tokens (RDFLiteral ::= String (LANGTAG | '^^' iri)?), white space "
                "and comments may stand between them: `\"1\" ^^xsd:integer` is legal", floor=2)
    for meth, f in methods.items():
        q = "SinkParser." + meth
        strs = [st for st in own_nodes(f) if isinstance(st, ast.stmt) and not isinstance(st, (ast.If, ast.While, ast.For, ast.Try, ast.With)) and any(
            isinstance(c, ast.Call) and isinstance(c.func, ast.Attribute) and c.func.attr == "strconst" for c in ast.walk(st))]
        if not strs:
            continue
        tests = [st for st in own_nodes(f) if isinstance(st, (ast.If, ast.While)) and any(
            isinstance(x, ast.Compare) and isinstance(x.left, ast.Subscript) and any(isinstance(y, ast.Constant) and y.value in ("^^", "@") for y in x.comparators) for x in ast.walk(st.test))]
        if not tests:
            continue
        g = CFG(f)
        skips = {g.node_of(st) for st in own_nodes(f) if isinstance(st, ast.stmt) and not isinstance(st, (ast.If, ast.While, ast.For, ast.Try, ast.With)) and any(
            isinstance(c, ast.Call) and isinstance(c.func, ast.Attribute) and c.func.attr == "skipSpace" for c in ast.walk(st))}
        for s0 in strs:
            n0 = g.node_of(s0)
            after = g.reach(n0)
            unskipped = g.reach(n0, avoid=skips & after)
            for t in tests:
                nt_ = g.node_of(t)
                if nt_ not in after:
                    continue
                ok = nt_ not in unskipped
                rep.ob(R, m, q, canon(t.test), ok, "reached through skipSpace()" if ok else
                       "the test for the literal's suffix is reached from strconst() without a skipSpace(): `\"1\" ^^<http://www.w3.org/2001/XMLSchema#integer>` (white space or a "
                       "comment between the string and ^^ / @) is rejected", node=t)
                rep.analysed("%s:%s" % (m.rel, q))


def string_resolver_rules(repo: Repo, rep: Report) -> None:
    from vlib import h_c05 as H

    # (s) a resolver that works on the strings follows RFC 3986 5.2
    R = "C05.s-string-iri-resolver-works-on-the-five-components"
    rep.rule(R, "an IRI resolver that works on the strings (no urljoin: notation3.join) decides on the components of RFC 3986: (1) the reference is returned unchanged "
                "(`it has a scheme`) only by a test that knows all of '/', '?' and '#' as the delimiters that end the scheme search - a ':' in a query or fragment "
                "(<?a:b>, <#a:b>) is not a scheme delimiter; (2) no result is the whole base string plus something: the base's fragment (and, unless the reference is "
                "empty, its query) never take part (<#x> against <http://a/b#c> is <http://a/b#x>)", floor=2)
    n = 0
    for modname, q, what in IRI_RESOLVERS:
        m = repo.mod(modname)
        f = m.func(q)
        if any(isinstance(c, ast.Call) and norm(c.func).split(".")[-1] == "urljoin" for c in own_nodes(f)):
            continue
        ps = H.params(f)
        if len(ps) < 2:
            raise AnalysisError("%s: expected (base, reference) parameters" % q)
        base_p, ref_p = ps[0], ps[1]
        for r in own_nodes(f):
            if not isinstance(r, ast.Return) or r.value is None:
                continue
            # a return that puts the result together: a `+` chain, or (the same thing written elsewhere) a call of a function / a constructor of the module,
            # a join of pieces, an f-string - judged on the pieces the text is assembled from, wherever in the module the assembly is written
            pieces = [] if isinstance(r.value, ast.Name) else H.string_pieces(m, f, r.value)
            if (isinstance(r.value, ast.BinOp) and isinstance(r.value.op, ast.Add)) or len(pieces) > 1:
                n += 1
                leaves = H.add_leaves(r.value) + [x for x in pieces if x.__class__ is ast.Name and m.qual_of(x) == m.qual_of(r)]
                whole = [x for x in leaves if isinstance(x, ast.Name) and x.id == base_p]
                rep.ob(R, m, q, "return %s" % canon(r.value)[:100], not whole, "assembled from components" if not whole else
                       "the result is the whole base string plus %s: the base's fragment / query stay in the result (<#x> against <http://a/b#c> gives <http://a/b#c#x>)"
                       % ", ".join(norm(x) for x in leaves if x not in whole), node=r)
            elif isinstance(r.value, ast.Name) and r.value.id == ref_p:
                guard = next((p for p in m.parents(r) if isinstance(p, ast.If)), None)
                if guard is None:
                    continue
                n += 1
                ev: set = set()
                for e in H.deep_closure_exprs(m, f, guard.test):
                    for c in ast.walk(e):
                        if isinstance(c, ast.Call) and isinstance(c.func, ast.Attribute) and c.func.attr in ("find", "index", "rfind", "split", "partition") and c.args:
                            s = H.const_str(repo, m, c.args[0])
                            if s:
                                ev.update(s)
                        if isinstance(c, ast.Compare) and isinstance(c.ops[0], (ast.In, ast.NotIn)):
                            s = H.const_str(repo, m, c.left)
                            if s:
                                ev.update(s)
                        if isinstance(c, ast.Call) and isinstance(c.func, ast.Attribute) and c.func.attr in ("match", "fullmatch", "search"):
                            rx = H.resolve_regex(repo, m, c.func.value)
                            if rx is not None:
                                grp = next((av for op, av in H.regex_items(rx.sp) if str(op) == "SUBPATTERN" and av[0] == 1), None)
                                for op, av in (H.regex_items(grp[-1]) if grp else []):
                                    if H.is_negated(op, av):
                                        ev.update(chr(lo) for lo, hi in H.iv_compl(H.class_set(op, av, rx.flags)) if lo == hi and lo < 128)
                missing = {"/", "?", "#"} - ev
                rep.ob(R, m, q, "return %s  if  %s" % (ref_p, canon(guard.test)[:80]), not missing, "scheme search ends at / ? #" if not missing else
                       "the test that takes the reference for absolute looks for %s only, not for %s: <?a:b> and <#a:b> (a ':' in the query / fragment) are returned "
                       "unresolved instead of being resolved against the base" % (sorted(ev), sorted(missing)), node=r)
        rep.analysed("%s:%s" % (m.rel, q))
    if n == 0:
        raise AnalysisError("no string-based IRI resolver found (notation3.join was one)")

    # (t) normpath("") is "."
    R = "C05.t-normpath-only-on-a-non-empty-path"
    rep.rule(R, "an IRI resolver normalises a URL path with posixpath.normpath only under a test that the path is not empty: normpath('') is '.', so against a base without "
                "a path (<http://b>) the references '', '#f' and '?q' resolve to <http://b/.>, <http://b/.#f>, <http://b/.?q>", floor=1)
    for m in [repo.mod(x) for x in sorted(repo.modules) if x.startswith("rdflib.plugins.parsers.") or x.startswith("rdflib.plugins.shared.")]:
        for q, f in m.functions():
            for c in own_nodes(f):
                if not (isinstance(c, ast.Call) and norm(c.func).split(".")[-1] == "normpath" and len(c.args) == 1):
                    continue
                arg = norm(c.args[0])
                ok, child = False, c
                for p in m.parents(c):
                    if isinstance(p, (ast.IfExp, ast.If)) and child is not p.test:
                        in_true = child is p.body if isinstance(p, ast.IfExp) else any(child is s_ for s_ in p.body)
                        t = p.test
                        pos = norm(t) == arg or (isinstance(t, ast.Compare) and norm(t.left) == arg and isinstance(t.ops[0], ast.NotEq) and isinstance(t.comparators[0], ast.Constant) and t.comparators[0].value == "")
                        neg = (isinstance(t, ast.UnaryOp) and isinstance(t.op, ast.Not) and norm(t.operand) == arg) or (
                            isinstance(t, ast.Compare) and norm(t.left) == arg and isinstance(t.ops[0], ast.Eq) and isinstance(t.comparators[0], ast.Constant) and t.comparators[0].value == "")
                        if (pos and in_true) or (neg and not in_true):
                            ok = True
                    if p is f:
                        break
                    child = p
                rep.ob(R, m, q, "normpath(%s)" % canon(c.args[0]), ok, "only for a non-empty path" if ok else
                       "normpath(%s) is also applied to an empty path and returns '.': <> against <http://b> resolves to <http://b/.>" % arg, node=c)
                rep.analysed("%s:%s" % (m.rel, q))


def list_building_rule(repo: Repo, rep: Report) -> None:
    from vlib.cfg import CFG

    # (u) a list cell is linked and filled in the same iteration
    R = "C05.u-a-list-cell-is-linked-and-filled-together"
    rep.rule(R, "a parser loop that builds an RDF collection links a new cell (add((cell, rdf:rest, next))) only on a path that also gives the new cell its rdf:first before "
                "the iteration ends: an item that is skipped (`continue`: it converts to no RDF term, e.g. {\"@value\": null} in a JSON-LD @list) after the link was made leaves "
                "a cell without rdf:first, and the next item links that cell to itself (rdf:rest pointing to its own subject)", floor=1)

    def add_of(st: ast.AST, attr: str):
        for c in ast.walk(st):
            if isinstance(c, ast.Call) and isinstance(c.func, ast.Attribute) and c.func.attr == "add" and len(c.args) == 1 and isinstance(c.args[0], ast.Tuple) and len(c.args[0].elts) == 3:
                p_, o_ = c.args[0].elts[1], c.args[0].elts[2]
                if isinstance(p_, ast.Attribute) and p_.attr == attr and not (isinstance(o_, ast.Attribute) and o_.attr == "nil"):
                    return c
        return None

    n = 0
    for m in _parser_modules(repo):
        for q, f in m.functions():
            loops = [l for l in own_nodes(f) if isinstance(l, (ast.For, ast.While))]
            if not loops:
                continue
            g = None
            for loop in loops:
                simple = [st for b in loop.body for st in ast.walk(b) if isinstance(st, ast.Expr)]
                links = [st for st in simple if add_of(st, "rest") is not None]
                if not links:
                    continue
                g = g or CFG(f)
                fills = {g.node_of(st) for st in simple if add_of(st, "first") is not None}
                for st in links:
                    n += 1
                    ok = bool(fills) and g.must_pass_after(g.node_of(st), fills, exits={g.node_of(loop), g.exit})
                    rep.ob(R, m, q, canon(st), ok, "the cell gets its rdf:first in the same iteration" if ok else
                           "after the new cell has been linked the iteration can end without an rdf:first for it (an item that yields no term is skipped later): "
                           "[1, {\"@value\": null}] in a JSON-LD @list leaves a cell whose rdf:rest is itself", node=st)
                    rep.analysed("%s:%s" % (m.rel, q))
    if n == 0:
        raise AnalysisError("no collection-building loop found in the parser modules (jsonld Parser._add_list was one)")


_run_base4 = run


def run(repo: Repo, rep: Report) -> None:  # noqa: F811
    _layer(rep, _run_base4, repo)
    rep.extra["explanation"] = rep.extra.get("explanation", "") + (
        " Parser side (necessary conditions only, rules i-u): the token patterns of the N-Triples family and of the Turtle/N3 scanner agree with the grammars where a "
        "class-level comparison decides it (optional separators, name characters of blank node labels, ASCII-only exclusions, CR = LF as line end); byte sources are decoded "
        "without newline translation; RDF/XML attribute IRIs and the document id pass through absolutize(); the Turtle scanner's look-behind / look-ahead / skipSpace "
        "obligations at three token boundaries; the string IRI resolver decides on RFC 3986 components; normpath is kept off empty paths; a collection cell is linked and "
        "filled in one iteration. That the parsers accept EVERY legal document remains undecided.")
    for group in (token_regex_rules, input_source_rules, rdfxml_rules, document_id_rule, n3_scanner_rules, string_resolver_rules, list_building_rule):
        _layer(rep, group, repo)  # a layer each: a lost anchor of one group does not take the others with it


# ---------------------------------------------------------------------------------------------------------------------
# third layer (rules v-z): the source handed to parse(), document strings that become prefixes, XML literals, and the two
# decisions of the JSON-LD parser that depend on where a node object stands.  Helpers: vlib/h_c05.py (last section)
# ---------------------------------------------------------------------------------------------------------------------
# calls that take a path or an IRI: a stream's `name` reaches them only as a string
PATH_OR_IRI_SINKS = {"Path", "PurePath", "PurePosixPath", "PureWindowsPath", "setSystemId", "setPublicId", "URIRef", "urljoin", "guess_format",
                     "absolutize", "fspath", "pathname2url", "open", "as_uri"}
# the parsers of the six syntaxes of the property (RDF Patch, TriX, HexTuples are other properties' business)
SIX_SYNTAX_PARSERS = ("rdflib.plugins.parsers.ntriples", "rdflib.plugins.parsers.nquads", "rdflib.plugins.parsers.notation3", "rdflib.plugins.parsers.trig",
                      "rdflib.plugins.parsers.rdfxml", "rdflib.plugins.parsers.jsonld")
# modules in which the prefix handed to bind() is a token the scanner has read with the grammar's prefix production
PREFIX_IS_A_SCANNED_TOKEN = {
    "rdflib.plugins.parsers.notation3": "the prefix is the PNAME_NS token SinkParser.qname() has scanned (name characters only), or a key of the table filled from it",
    "rdflib.plugins.parsers.trig": "the keys of SinkParser._bindings, filled from scanned PNAME_NS tokens",
}
JSONLD_MODULES = ("rdflib.plugins.parsers.jsonld", "rdflib.plugins.shared.jsonld.context", "rdflib.plugins.shared.jsonld.util")


def stream_name_rule(repo: Repo, rep: Report) -> None:
    from vlib import h_c05 as H

    # (v) the name of a stream is a path only if it is a string
    R = "C05.v-a-stream-name-is-used-as-a-path-only-if-it-is-a-string"
    rep.rule(R, "where parse() turns its source into an InputSource (rdflib.parser, Graph.parse, the parser plugins), the `name` attribute of a stream object reaches a call that "
                "takes a path or an IRI (Path(), setSystemId(), URIRef(), urljoin(), guess_format() ...) only on the true side of an isinstance() test of that value against "
                "string / path types (or inside a try that handles TypeError and AttributeError). hasattr(f, 'name') is not enough: a stream opened on a file descriptor or a "
                "pipe (open(fd, 'rb'), os.fdopen, sys.stdin.buffer of a subprocess) has an int as name, BytesIO has none - parse(file=...) of a legal document raised TypeError / AttributeError", floor=3)
    mods = [repo.mod(n) for n in ("rdflib.parser", "rdflib.graph", "rdflib.util")] + _parser_modules(repo)
    for m in mods:
        for q, f in m.functions():
            reads = H.attr_reads(f, "name")
            if not reads:
                continue
            recv_of: dict[int, str] = {id(n): r for n, r in reads}
            # locals bound to such a read (directly, or through a conditional / boolean expression around it)
            local_recv: dict[str, set] = {}
            for st in own_nodes(f):
                if isinstance(st, (ast.Assign, ast.AnnAssign)) and getattr(st, "value", None) is not None:
                    tg = st.targets if isinstance(st, ast.Assign) else [st.target]
                    rs = {recv_of[id(x)] for x in ast.walk(st.value) if id(x) in recv_of and not any(
                        isinstance(c, ast.Call) and c is not x and any(x is y for a in c.args for y in ast.walk(a)) for c in ast.walk(st.value))}
                    for t in tg:
                        if isinstance(t, ast.Name) and rs:
                            local_recv.setdefault(t.id, set()).update(rs)

            def receivers(e: ast.AST) -> set:
                """the stream(s) whose name the expression e carries"""
                out = set()
                for x in ast.walk(e):
                    if id(x) in recv_of:
                        out.add(recv_of[id(x)])
                    elif isinstance(x, ast.Name) and isinstance(x.ctx, ast.Load) and x.id in local_recv:
                        out |= local_recv[x.id]
                return out

            for c in own_nodes(f):
                if not (isinstance(c, ast.Call) and norm(c.func).split(".")[-1] in PATH_OR_IRI_SINKS):
                    continue
                for a in list(c.args) + [k.value for k in c.keywords]:
                    for recv in sorted(receivers(a)):
                        why = None
                        for g in H.positive_guards(m, f, c):
                            for t in ast.walk(g):
                                if isinstance(t, ast.Call) and isinstance(t.func, ast.Name) and t.func.id == "isinstance" and len(t.args) == 2 and recv in receivers(t.args[0]):
                                    types = {norm(x).split(".")[-1] for x in (t.args[1].elts if isinstance(t.args[1], ast.Tuple) else [t.args[1]])}
                                    if types and not (types & {"int", "object", "Any"}):
                                        why = "under isinstance(.., %s)" % "/".join(sorted(types))
                        if why is None:
                            for p in m.parents(c):
                                if isinstance(p, ast.Try) and any(c is x for s_ in p.body for x in ast.walk(s_)):
                                    caught = {norm(x).split(".")[-1] for h in p.handlers for x in ([h.type] if h.type is not None and not isinstance(h.type, ast.Tuple) else (h.type.elts if h.type is not None else []))}
                                    if any(h.type is None for h in p.handlers) or caught & {"Exception", "BaseException"} or {"TypeError", "AttributeError"} <= caught:
                                        why = "inside a try that handles TypeError and AttributeError"
                                if p is f:
                                    break
                        rep.ob(R, m, q, "name of %s -> %s" % (recv, canon(c)[:80]), why is not None, why or
                               "the name of the stream %s reaches %s() without a test that it is a string: for a stream opened on a file descriptor (name is an int) or an "
                               "in-memory stream (no name) parse() raises TypeError / AttributeError instead of reading the document" % (recv, norm(c.func)), node=c)
                        rep.analysed("%s:%s" % (m.rel, q))


def document_prefix_rule(repo: Repo, rep: Report) -> None:
    from vlib import h_c05 as H

    # (w) a string of the document becomes a namespace prefix only if it is an NCName
    R = "C05.w-a-document-string-becomes-a-prefix-only-if-it-is-an-ncname"
    rep.rule(R, "in the parsers of the six syntaxes every bind(<prefix>, <namespace>) with a prefix that is not a constant gets a prefix that is an NCName by construction "
                "(the prefix parameter of the SAX callback startPrefixMapping: the XML parser has checked it; a prefix token the Turtle-family scanner has read: table "
                "PREFIX_IS_A_SCANNED_TOKEN) or stands on the true side of is_ncname(<prefix>). JSON-LD term names are arbitrary JSON strings: binding \"my vocab\" made parse() "
                "raise KeyError, \"1st\" / \"a<b\" became prefixes that the RDF/XML and Turtle writers put into malformed documents", floor=4)
    for name in SIX_SYNTAX_PARSERS:
        m = repo.mod(name)
        for q, f in m.functions():
            for c in own_nodes(f):
                if not (isinstance(c, ast.Call) and isinstance(c.func, ast.Attribute) and c.func.attr == "bind"):
                    continue
                pre = c.args[0] if c.args else next((k.value for k in c.keywords if k.arg == "prefix"), None)
                if pre is None or isinstance(pre, ast.Constant):
                    continue
                rep.analysed("%s:%s" % (m.rel, q))
                why = None
                if isinstance(pre, ast.Name) and f.name == "startPrefixMapping" and pre.id in H.params(f) and not H.local_defs(f, pre.id):
                    why = "prefix parameter of the SAX callback: an NCName (or None) by XML namespace well-formedness"
                elif name in PREFIX_IS_A_SCANNED_TOKEN:
                    why = "table: " + PREFIX_IS_A_SCANNED_TOKEN[name]
                else:
                    for g in H.positive_guards(m, f, c):
                        if isinstance(g, ast.Call) and norm(g.func).split(".")[-1] == "is_ncname" and g.args and norm(g.args[0]) == norm(pre):
                            why = "under is_ncname(%s)" % norm(pre)
                rep.ob(R, m, q, canon(c), why is not None, why or
                       "the string %s, taken from the document, becomes a namespace prefix without an NCName test: a JSON-LD term \"my vocab\" / \"1st\" / \"a<b\" with an IRI ending "
                       "in a delimiter is bound as prefix (KeyError from the namespace trie, or malformed RDF/XML and Turtle output later)" % norm(pre), node=c)


def xml_literal_rules(repo: Repo, rep: Report) -> None:
    from vlib.cfg import CFG

    m = repo.mod("rdflib.plugins.parsers.rdfxml")

    def text_append(st: ast.AST):
        """(owner, constants) if st adds to / sets the markup text `<owner>.object` of an XML literal"""
        t = st.target if isinstance(st, ast.AugAssign) else (st.targets[0] if isinstance(st, ast.Assign) and len(st.targets) == 1 else None)
        if isinstance(t, ast.Attribute) and t.attr == "object":
            return norm(t.value), [k.value for k in ast.walk(st.value) if isinstance(k, ast.Constant) and isinstance(k.value, str)]
        return None

    def lead_const(e: ast.AST):
        """the constant text a string-building expression starts with ('<%s' % x, f'<{x}', '<' + x)"""
        if isinstance(e, ast.Constant):
            return e.value if isinstance(e.value, str) else None
        if isinstance(e, ast.BinOp) and isinstance(e.op, (ast.Mod, ast.Add)):
            return lead_const(e.left)
        if isinstance(e, ast.JoinedStr) and e.values:
            return lead_const(e.values[0])
        if isinstance(e, ast.Call) and isinstance(e.func, ast.Attribute) and e.func.attr == "format":
            return lead_const(e.func.value)
        return None

    # (x) the table of declared namespaces and the text of the literal change together
    RX = "C05.x-xml-literal-namespace-table-and-text-change-together"
    rep.rule(RX, "RDF/XML parser, rdf:parseType=\"Literal\": the handler keeps the namespaces declared so far in the literal's text in `<element>.declared`. Every entry it adds "
                 "there is followed, on every path to the end of the handler, by text with an xmlns declaration added to `<element>.object`; every entry it deletes follows the "
                 "text of an undeclaration (xmlns=\"\"). An entry without its text gives a literal with an unbound prefix (<ex:p rdf:parseType=\"Literal\"><b a:x=\"1\"/> : "
                 "the value `<b a:x=\"1\">` does not declare `a`), and the following elements believe it declared", floor=3)
    # (y) a name written without a prefix fixes the default namespace
    RY = "C05.y-unprefixed-name-in-an-xml-literal-settles-the-default-namespace"
    rep.rule(RY, "RDF/XML parser, rdf:parseType=\"Literal\": on every path that writes a start tag without a prefix (\"<%s\" % local) a default-namespace declaration "
                 "(text containing xmlns=\"...) for `<element>.object` is reachable before the handler ends - xmlns=\"ns\" for an element of the default namespace, xmlns=\"\" "
                 "for an element in no namespace under an element that has declared one. Without it <d xmlns=\"http://d/\"><e xmlns=\"\"/></d> is read as a literal in "
                 "which <e> has moved into http://d/", floor=2)
    nx = ny = 0
    for q, f in m.functions():
        muts, appends, starts = [], [], []
        for st in own_nodes(f):
            if isinstance(st, (ast.Assign, ast.AugAssign)):
                ta = text_append(st)
                if ta is not None:
                    owner, consts = ta
                    if any("xmlns" in k for k in consts):
                        appends.append((st, consts))
                    if isinstance(st, ast.Assign) and not isinstance(st.value, ast.Constant) and consts and lead_const(st.value) is not None and lead_const(st.value).startswith("<") \
                            and not lead_const(st.value).startswith("</") and not any(":" in k for k in consts):
                        starts.append(st)
                if isinstance(st, ast.Assign):
                    for t in st.targets:
                        if isinstance(t, ast.Subscript) and isinstance(t.value, ast.Attribute) and t.value.attr == "declared":
                            muts.append((st, "add"))
            if isinstance(st, ast.Delete):
                for t in st.targets:
                    if isinstance(t, ast.Subscript) and isinstance(t.value, ast.Attribute) and t.value.attr == "declared":
                        muts.append((st, "delete"))
            if isinstance(st, ast.Expr) and isinstance(st.value, ast.Call) and isinstance(st.value.func, ast.Attribute) and isinstance(st.value.func.value, ast.Attribute) \
                    and st.value.func.value.attr == "declared" and st.value.func.attr in ("update", "setdefault", "pop", "popitem", "clear"):
                muts.append((st, "delete" if st.value.func.attr in ("pop", "popitem", "clear") else "add"))
        if not muts and not starts:
            continue
        g = CFG(f)
        rep.analysed("%s:%s" % (m.rel, q))
        decl_nodes = {g.node_of(st) for st, _ in appends}
        undecl_nodes = {g.node_of(st) for st, consts in appends if any('xmlns=""' in k for k in consts)}
        default_nodes = {g.node_of(st) for st, consts in appends if any('xmlns="' in k for k in consts)}
        for st, kind in muts:
            nx += 1
            if kind == "add":
                ok = bool(decl_nodes) and g.must_pass_after(g.node_of(st), decl_nodes)
                rep.ob(RX, m, q, canon(st), ok, "followed by the text of the declaration on every path" if ok else
                       "the namespace is recorded as declared but the handler can end without having added an xmlns declaration to the text: the literal uses a prefix it does not "
                       "declare (<b a:x=\"1\"/> inside rdf:parseType=\"Literal\": unbound prefix `a`)", node=st)
            else:
                ok = bool(undecl_nodes) and g.must_pass_before(g.node_of(st), undecl_nodes)
                rep.ob(RX, m, q, canon(st), ok, "after the text of the undeclaration" if ok else
                       "an entry of the declared namespaces is dropped on a path that has not written xmlns=\"\": the text still declares it", node=st)
        for st in starts:
            ny += 1
            ok = bool(default_nodes & g.reach(g.node_of(st)))
            rep.ob(RY, m, q, canon(st), ok, "a default-namespace (un)declaration can follow" if ok else
                   "after this start tag without a prefix no path adds a default-namespace declaration: an element in no namespace inside an element that declared "
                   "xmlns=\"http://d/\" is written as <e> and moves into http://d/ (it needs xmlns=\"\")", node=st)
    if nx == 0 or ny == 0:
        raise AnalysisError("rdfxml parser: the XML-literal handler no longer keeps `.declared` / writes start tags into `.object` (literal_element_start did)")


def jsonld_position_rules(repo: Repo, rep: Report) -> None:
    from vlib import h_c05 as H

    mods = [repo.mod(n) for n in JSONLD_MODULES]

    # (z) what only the caller knows comes from the caller
    R = "C05.z-jsonld-decisions-about-a-node-s-position-come-from-the-caller"
    rep.rule(R, "JSON-LD parser: the same node object means different things depending on where it stands, which only the caller knows. (1) the choice between a graph named "
                "by the node (dataset.get_context(<node>)) and the enclosing graph for the content of @graph: at the top level an object with @graph and no @id is the "
                "default graph, as the value of a property ({\"@id\": \"ex:s\", \"ex:p\": {\"@graph\": [...]}}) it is a graph named by the blank node; (2) in Context, the choice "
                "between a context and the one it falls back to when it does not propagate (its parent chain), where a method hands out one of the two: a context with \"@propagate\": false applies to the node that "
                "carries it and not to the nodes nested in it. Either choice must depend on a parameter whose value goes back, through the call sites, to a truth constant "
                "that a call site writes down; a test on the node / the context alone decides both positions alike", floor=2)
    ctx_mod = repo.mod("rdflib.plugins.shared.jsonld.context")
    walkers = {mn for mn, mf in ctx_mod.methods("Context").items() if len(H.params(mf)) == 1 and any(isinstance(x, ast.Attribute) and x.attr == "parent" and isinstance(x.ctx, ast.Load) for x in own_nodes(mf))}

    def reaches_parent(e: ast.AST) -> bool:
        return any((isinstance(x, ast.Attribute) and x.attr == "parent") or (isinstance(x, ast.Call) and isinstance(x.func, ast.Attribute) and x.func.attr in walkers) for x in ast.walk(e))

    def handed_out(f: ast.AST, sel: ast.AST, value: ast.AST) -> bool:
        """the selected context itself is what the function returns (directly, or through the local it is bound to) - not a context newly derived from it"""
        names = set()
        for st in own_nodes(f):
            if isinstance(st, ast.Return) and st.value is not None and (st.value is sel or st.value is value):
                return True
            if isinstance(st, (ast.Assign, ast.AnnAssign)) and getattr(st, "value", None) is not None and (st.value is sel or st.value is value):
                names |= {t.id for t in (st.targets if isinstance(st, ast.Assign) else [st.target]) if isinstance(t, ast.Name)}
        return any(isinstance(st, ast.Return) and isinstance(st.value, ast.Name) and st.value.id in names for st in own_nodes(f))

    n_graph = n_ctx = 0
    for m in mods:
        for q, f in m.functions():
            ps = H.params(f)
            own = ps[1:] if "." in q and ps else ps
            self_name = ps[0] if "." in q and ps else None
            for node, test, a, b in H.alternatives(m, f):
                def is_named_graph(e):
                    return isinstance(e, ast.Call) and isinstance(e.func, ast.Attribute) and e.func.attr == "get_context"
                kind = None
                if (is_named_graph(a) and isinstance(b, ast.Name) and b.id in own) or (is_named_graph(b) and isinstance(a, ast.Name) and a.id in own):
                    kind = "graph"
                elif m is ctx_mod and q.startswith("Context.") and own and self_name and handed_out(f, node, a) and (
                        (isinstance(a, ast.Name) and a.id == self_name and reaches_parent(b)) or (isinstance(b, ast.Name) and b.id == self_name and reaches_parent(a))):
                    kind = "context"
                if kind is None:
                    continue
                if kind == "graph":
                    n_graph += 1
                else:
                    n_ctx += 1
                rep.analysed("%s:%s" % (m.rel, q))
                read = {n.id for e in H.closure_exprs(f, test) for n in ast.walk(e) if isinstance(n, ast.Name)}
                found = None
                for p in own:
                    if p in read:
                        found = H.caller_constant(mods, f.name, f, p)
                        if found is not None:
                            found = (p,) + found
                            break
                what = "named graph or enclosing graph" if kind == "graph" else "the context or the one it falls back to"
                rep.ob(R, m, q, "%s: %s" % (what, canon(ast.IfExp(test=test, body=a, orelse=b))[:100]), found is not None,
                       "depends on parameter %s, set by %s (%s)" % (found[0], found[2], norm(found[3])) if found else
                       ("the choice reads %s, nothing of which goes back to a truth constant written at a call site: it cannot tell the positions apart. " % (
                           ("the parameters %s" % sorted(read & set(own))) if read & set(own) else "no parameter") +
                        ("{\"@id\": \"ex:s\", \"ex:p\": {\"@graph\": [{\"@id\": \"ex:a\", \"ex:q\": \"v\"}]}} puts ex:a ex:q \"v\" into the enclosing graph instead of the graph named by the value"
                         if kind == "graph" else
                         "{\"@context\": {\"@propagate\": false, \"t\": \"http://e/t\"}, \"@id\": \"http://e/s\", \"t\": \"v\"} loses the context for the node that carries it (AttributeError at the top level)")),
                       node=node)
    if n_graph == 0:
        raise AnalysisError("jsonld parser: no choice between dataset.get_context(..) and the enclosing graph found (Parser._key_to_graph had one)")
    if n_ctx == 0:
        raise AnalysisError("jsonld Context: no choice between a context and its non-propagating fallback found (Context.get_context_for_type had one)")

    # (z2) the parent of a context may be missing
    R2 = "C05.z2-an-optional-context-is-not-dereferenced"
    rep.rule(R2, "JSON-LD modules: no attribute is taken of an expression whose static type is `Context | None` (the parent of the root context, the result of a lookup) - the "
                 "type checker's own rule, here without the `# type: ignore` escape. {\"@context\": {\"@propagate\": false}, \"@id\": \"http://e/s\", \"http://e/p\": \"v\"} has a "
                 "non-propagating context without a parent: stepping to `parent` and using it made parse() raise AttributeError", floor=20)
    for m in mods + [repo.mod("rdflib.plugins.serializers.jsonld")]:
        for q, f in m.functions():
            n_ok = 0
            for n in own_nodes(f):
                if not isinstance(n, ast.Attribute):
                    continue
                t = repo.typed.type_of(m.name, n.value)
                if t is None or not any(i.endswith(".Context") for i in t.items):
                    continue
                if t.optional:
                    rep.ob(R2, m, q, canon(n), False, "%s has type %s: for a context without a parent it is None and .%s raises AttributeError" % (norm(n.value), t.text, n.attr), node=n)
                else:
                    n_ok += 1
            if n_ok:
                rep.ob(R2, m, q, "%d attribute accesses on Context values" % n_ok, True, "none of them optional", node=f)
                rep.analysed("%s:%s" % (m.rel, q))


_run_base5 = run


def run(repo: Repo, rep: Report) -> None:  # noqa: F811
    _layer(rep, _run_base5, repo)
    rep.extra["explanation"] = rep.extra.get("explanation", "") + (
        " Rules v-z: a stream's name is used as a path / IRI only when it is a string; a string of the document becomes a namespace prefix only as an NCName; the RDF/XML "
        "parser's XML literals declare every namespace they record and can (un)declare the default namespace wherever they write an unprefixed name; the two decisions of "
        "the JSON-LD parser that depend on a node's position (named graph or enclosing graph, own context or inherited one) are driven by the caller; an optional Context "
        "is never dereferenced.")
    for group in (stream_name_rule, document_prefix_rule, xml_literal_rules, jsonld_position_rules):
        _layer(rep, group, repo)



_run_before_borrow = run


def run(repo: Repo, rep: Report) -> None:  # noqa: F811
    _layer(rep, _run_before_borrow, repo)
    from vlib.core import borrow

    borrow(repo, rep, "C05", "C12", ('C12.b2',))
