"""C05 - output side only: N-Triples literal escapes, XML escape discipline, JSON via dumps (DESIGN.md §2 C05)."""
from __future__ import annotations

import ast

from checks.c03 import _replace_chain
from vlib.core import AnalysisError, Repo, Report, canon, norm, own_nodes

EXPLANATION = (
    "(a) the N-Triples/N-Quads literal writer routes every literal through _quote_encode, whose replace chain doubles the "
    "backslash first and escapes the four characters STRING_LITERAL_QUOTE forbids raw (\", \\, LF, CR); (b) XML escape "
    "discipline in the hand-written XML writers (xmlwriter.XMLWriter, rdfxml.XMLSerializer): every non-constant value "
    "interpolated into markup handed to write() is sanitised by escape()/quoteattr(), is a computed qname / indentation / "
    "constant, or is a table-listed value with a stated reason; raw stream writes are table-listed; (c) JSON-LD, HexTuples and "
    "SPARQL-JSON output text is produced by json.dumps / orjson.dumps only. NOT applicable (no static argument in reach): "
    "that the hand-written Turtle/TriG/N3, RDF/XML and JSON-LD parsers accept every legal spelling, and that "
    "str/bytes/file/path inputs agree."
)

SANITISERS = {"escape", "quoteattr"}
QNAME_CALLS = {"self.qname", "self.store.namespace_manager.qname_strict", "nm.qname_strict", "self.nm.qname_strict", "qname_strict"}
# values interpolated without a sanitiser that are safe for a stated reason: (function, normalised expr) -> reason
TABLE_SAFE = {
    ("XMLWriter.__init__", "encoding"): "codec name accepted by codecs.lookup two lines above",
    ("XMLSerializer.serialize", "self.encoding"): "codec name",
    ("XMLSerializer.predicate", "object.language"): "language tags are validated against _lang_tag_regex ([a-zA-Z0-9-]) when the Literal is constructed",
}
for _q in ("XMLWriter.namespaces", "XMLSerializer.serialize"):
    TABLE_SAFE[(_q, "prefix")] = "a namespace prefix has to be an NCName for the document to be namespace-well-formed; escaping cannot repair a non-NCName prefix (prefixes come from bind()/generated nsN)"
RAW_WRITES_OK = {
    ("PrettyXMLSerializer.predicate", "writer.stream.write(object)"): "rdf:XMLLiteral whose value is a parsed xml.dom.minidom.Document: well-formed by construction",
}


def _ncname_producing(mod, fn: ast.AST, depth: int = 0) -> bool:
    """every return of fn is an NCName by construction: a name returned under `if is_ncname(<that name>)`, a call of another such function, or an
    entry of a table all of whose stored values are '<letter...>%s' % <integer name> (generated labels)"""
    if not isinstance(fn, ast.FunctionDef) or depth > 2:
        return False
    rets = [r for r in own_nodes(fn) if isinstance(r, ast.Return)]
    if not rets:
        return False

    def int_name(nm: str) -> bool:
        vals = [a.value for a in own_nodes(fn) if isinstance(a, ast.Assign) and norm(a.targets[0]) == nm] + \
               [a.value for a in own_nodes(fn) if isinstance(a, ast.AugAssign) and norm(a.target) == nm]
        def num(v):
            if isinstance(v, ast.Constant):
                return isinstance(v.value, int)
            if isinstance(v, ast.Call):
                return norm(v.func) == "int"
            if isinstance(v, ast.BinOp):
                return num(v.left) and num(v.right)
            if isinstance(v, ast.IfExp):
                return num(v.body) and num(v.orelse)
            return isinstance(v, ast.Name) and v.id == nm
        return bool(vals) and all(num(v) for v in vals)

    def label(v: ast.AST) -> bool:
        return isinstance(v, ast.BinOp) and isinstance(v.op, ast.Mod) and isinstance(v.left, ast.Constant) and isinstance(v.left.value, str) \
            and v.left.value[:1].isalpha() and v.left.value.replace("%s", "").replace("%d", "").isalnum() and isinstance(v.right, ast.Name) and int_name(v.right.id)

    for r in rets:
        v = r.value
        if isinstance(v, ast.Name):
            guard = [p for p in mod.parents(r) if isinstance(p, ast.If) and isinstance(p.test, ast.Call) and norm(p.test.func) == "is_ncname" and p.test.args and norm(p.test.args[0]) == v.id
                     and any(r is x for s_ in p.body for x in ast.walk(s_))]
            if not guard:
                return False
        elif isinstance(v, ast.Subscript) and isinstance(v.value, ast.Name):
            stores = [a.value for a in own_nodes(fn) if isinstance(a, ast.Assign) and isinstance(a.targets[0], ast.Subscript) and norm(a.targets[0].value) == v.value.id]
            if not stores or not all(label(x) for x in stores):
                return False
        elif isinstance(v, ast.Call):
            callee = _resolve_local(mod, fn, v)
            if callee is None or not _ncname_producing(mod, callee, depth + 1):
                return False
        else:
            return False
    return True


def _resolve_local(mod, ctx_fn: ast.AST, call: ast.Call):
    """the FunctionDef in this module that a call `f(...)` / `self.m(...)` / `self.__m(...)` denotes"""
    fn = call.func
    if isinstance(fn, ast.Name):
        d = mod.defs.get(fn.id)
        return d if isinstance(d, ast.FunctionDef) else None
    if isinstance(fn, ast.Attribute) and isinstance(fn.value, ast.Name) and fn.value.id == "self":
        for q, d in mod.defs.items():
            if isinstance(d, ast.FunctionDef) and "." in q and q.rsplit(".", 1)[1] == fn.attr and any(ctx_fn is x for x in ast.walk(mod.defs.get(q.rsplit(".", 1)[0], ast.Module(body=[], type_ignores=[])))):
                return d
    return None


def run(repo: Repo, rep: Report) -> None:
    rep.extra["explanation"] = EXPLANATION
    # ------------------------------------------------------------------ (a)
    rep.rule("C05.a-nt-literal-escapes",
             "nt._quoteLiteral builds every literal from _quote_encode(l_); _quote_encode doubles the backslash first and escapes \", LF and CR; "
             "the N-Quads row writer reuses the same functions", floor=5)
    nt = repo.mod("rdflib.plugins.serializers.nt")
    qe = nt.func("_quote_encode")
    best = []
    for n in ast.walk(qe):
        _, ch = _replace_chain(n)
        if len(ch) > len(best):
            best = ch
    srcs = [a for a, _ in best]
    ok = bool(best) and srcs[0] == "\\" and {"\\", "\n", "\r", '"'} <= set(srcs)
    rep.ob("C05.a-nt-literal-escapes", nt, "_quote_encode", "replace chain %s" % srcs, ok,
           "backslash first; \", \\n, \\r covered" if ok else "the chain %s does not start with the backslash or misses one of \" \\\\ LF CR: the output is not a valid STRING_LITERAL_QUOTE" % srcs, node=qe)
    for a, b in best:
        okp = (a == "\\" and b == "\\\\") or (len(a) == 1 and len(b) == 2 and b[0] == "\\" and b[1] in 'tbnrf"\'\\')
        rep.ob("C05.a-nt-literal-escapes", nt, "_quote_encode", "%r -> %r" % (a, b), okp, "an ECHAR of the grammar" if okp else "%r is not an ECHAR escape" % b, node=qe)
    ql = nt.func("_quoteLiteral")
    enc_names = {norm(n.targets[0]) for n in own_nodes(ql) if isinstance(n, ast.Assign) and isinstance(n.value, ast.Call) and norm(n.value.func) == "_quote_encode"}
    rets = [r for r in own_nodes(ql) if isinstance(r, ast.Return)]
    ok = bool(rets) and all(any(isinstance(x, ast.Name) and x.id in enc_names for x in ast.walk(r)) or "_quote_encode(" in norm(r) for r in rets)
    rep.ob("C05.a-nt-literal-escapes", nt, "_quoteLiteral", "every return uses the _quote_encode result", ok, "" if ok else "a return of _quoteLiteral bypasses _quote_encode", node=ql)
    row = nt.func("_nt_row")
    ok = any(isinstance(c, ast.Call) and norm(c.func) == "_quoteLiteral" for c in ast.walk(row))
    rep.ob("C05.a-nt-literal-escapes", nt, "_nt_row", "literals go through _quoteLiteral", ok, "" if ok else "_nt_row no longer quotes literals with _quoteLiteral", node=row)
    nq = repo.mod("rdflib.plugins.serializers.nquads")
    rowq = nq.func("_nq_row")
    ok = any(isinstance(c, ast.Call) and norm(c.func) in ("_quoteLiteral", "_nt_row") for c in ast.walk(rowq))
    rep.ob("C05.a-nt-literal-escapes", nq, "_nq_row", "literals go through the N-Triples quoting", ok, "" if ok else "_nq_row no longer quotes literals with the N-Triples functions", node=rowq)
    rep.analysed("rdflib/plugins/serializers/nt.py:_quote_encode", "rdflib/plugins/serializers/nt.py:_quoteLiteral", "rdflib/plugins/serializers/nt.py:_nt_row", "rdflib/plugins/serializers/nquads.py:_nq_row")

    # (a2) rows are assembled once, from a constant template
    rep.rule("C05.a2-rows-from-constant-templates",
             "in the N-Triples / N-Quads serializers every %-format template is a string constant (data never becomes part of a format string), "
             "and serialised text is never post-edited with str.replace() outside the literal escape chain _quote_encode", floor=4)
    for mod in (nt, nq):
        for q, f in mod.functions():
            if "." in q and isinstance(mod.defs.get(q.rsplit(".", 1)[0]), ast.FunctionDef):
                continue
            for n in own_nodes(f, include_nested=True):
                if isinstance(n, ast.BinOp) and isinstance(n.op, ast.Mod):
                    tf = None
                    is_str_fmt = isinstance(n.left, (ast.Constant, ast.JoinedStr, ast.BinOp, ast.Name, ast.Attribute, ast.Call))
                    if isinstance(n.left, ast.Constant) and not isinstance(n.left.value, str):
                        continue
                    ok = isinstance(n.left, ast.Constant) and isinstance(n.left.value, str)
                    if not ok and isinstance(n.left, ast.Name):
                        # a name bound only to string constants (or a conditional choice between constants)
                        vals = [x.value for x in own_nodes(f, include_nested=True) if isinstance(x, ast.Assign) and any(isinstance(t, ast.Name) and t.id == n.left.id for t in x.targets)]
                        def _const(v):
                            return (isinstance(v, ast.Constant) and isinstance(v.value, str)) or (isinstance(v, ast.IfExp) and _const(v.body) and _const(v.orelse))
                        ok = bool(vals) and all(_const(v) for v in vals)
                    # a non-constant left operand of % is string formatting only if it is str-typed; arithmetic % does not occur in these modules
                    rep.ob("C05.a2-rows-from-constant-templates", mod, q, "%s %% (...)" % norm(n.left)[:50], ok,
                           "constant template" if ok else "the format template %s is built from data: a `%%` inside an IRI (percent-encoding) or literal is read as a conversion specifier" % norm(n.left)[:60], node=n)
                if isinstance(n, ast.Call) and isinstance(n.func, ast.Attribute) and n.func.attr == "replace" and q != "_quote_encode":
                    rep.ob("C05.a2-rows-from-constant-templates", mod, q, n, False,
                           "serialised text is edited with .replace(): the pattern also matches inside literals / IRIs of the row", node=n)

    # ------------------------------------------------------------------ (b)
    rep.rule("C05.b-xml-escape-discipline",
             "every non-constant operand interpolated into text passed to write()/stream.write() in xmlwriter.XMLWriter and rdfxml.XMLSerializer is "
             "escape()/quoteattr()-sanitised, a computed qname, indentation, or a table-listed safe value; raw (non-interpolated) variable writes are table-listed", floor=20)
    for modname, classes in (("rdflib.plugins.serializers.xmlwriter", ("XMLWriter",)), ("rdflib.plugins.serializers.rdfxml", ("XMLSerializer", "PrettyXMLSerializer"))):
        mod = repo.mod(modname)
        for cls in classes:
            for m, f in mod.methods(cls).items():
                q = "%s.%s" % (cls, m)
                rep.analysed("%s:%s" % (mod.rel, q))
                # local facts
                safe_names: dict[str, str] = {}
                for n in own_nodes(f):
                    if isinstance(n, ast.Assign) and len(n.targets) == 1 and isinstance(n.targets[0], ast.Name):
                        nm, v = n.targets[0].id, n.value
                        if isinstance(v, ast.Constant):
                            safe_names[nm] = "constant"
                        elif isinstance(v, ast.Call) and norm(v.func) in SANITISERS:
                            safe_names[nm] = "sanitised by %s" % norm(v.func)
                        elif isinstance(v, ast.Call) and (norm(v.func) in QNAME_CALLS or norm(v.func).endswith("qname_strict") or norm(v.func).endswith(".qname")):
                            safe_names[nm] = "computed qname"
                        elif isinstance(v, ast.BinOp) and isinstance(v.op, ast.Mult) and isinstance(v.left, ast.Constant):
                            safe_names[nm] = "indentation"
                        elif isinstance(v, (ast.Name, ast.Attribute)) and norm(v).endswith("write"):
                            pass

                site: list = []
                busy: set = set()

                def classify(e: ast.AST) -> str | None:
                    """reason if safe, None if unsanitised"""
                    if isinstance(e, ast.Constant):
                        return "constant"
                    if isinstance(e, ast.Call):
                        fn = norm(e.func)
                        if fn in SANITISERS:
                            return "sanitised by %s" % fn
                        if fn in QNAME_CALLS or fn.endswith("qname_strict") or fn.endswith(".qname") or fn == "self.qname":
                            return "computed qname"
                        if fn == "str" and e.args:
                            return classify(e.args[0])
                    if isinstance(e, ast.Name) and e.id in safe_names:
                        return safe_names[e.id]
                    if isinstance(e, ast.Call):
                        callee = _resolve_local(mod, f, e)
                        if callee is not None and _ncname_producing(mod, callee):
                            return "NCName by construction (%s)" % callee.name
                    if isinstance(e, ast.Subscript) and isinstance(e.value, ast.Call) and norm(e.value.func).endswith("compute_qname_strict") \
                            and isinstance(e.slice, ast.Constant) and e.slice.value == 0:
                        return "prefix part of a computed qname"
                    if isinstance(e, ast.Attribute) and isinstance(e.value, ast.Name) and e.value.id == "self" and e.attr.startswith("__") and e.attr not in busy:
                        # a private attribute of the serializer: safe if everything the class stores in it is
                        busy.add(e.attr)
                        try:
                            stores = [a.value for mm in mod.methods(cls).values() for a in own_nodes(mm) if isinstance(a, ast.Assign) and norm(a.targets[0]) == norm(e)]
                            if stores and all(piece_ok(v) for v in stores):
                                return "private attribute holding only constants / computed prefixes"
                        finally:
                            busy.discard(e.attr)
                    if isinstance(e, ast.Name) and e.id not in busy:
                        # a local built from safe pieces ("%s:Description" % rdf)
                        busy.add(e.id)
                        try:
                            vals = [a.value for a in own_nodes(f) if isinstance(a, ast.Assign) and len(a.targets) == 1 and norm(a.targets[0]) == e.id]
                            if vals and all(piece_ok(v) for v in vals):
                                return "built from safe pieces"
                        finally:
                            busy.discard(e.id)
                    if isinstance(e, ast.Attribute) and norm(e) in ("self.indent",):
                        return "indentation"
                    if isinstance(e, ast.BinOp) and isinstance(e.op, ast.Mult):
                        return "indentation"
                    if isinstance(e, ast.Name) and e.id == "attributes":
                        # accumulated attribute text: every += piece must itself be safe
                        pieces = [n.value for n in own_nodes(f) if isinstance(n, ast.AugAssign) and norm(n.target) == "attributes"] + \
                                 [n.value for n in own_nodes(f) if isinstance(n, ast.Assign) and norm(n.targets[0]) == "attributes"]
                        bad = [p for p in pieces if not piece_ok(p)]
                        return "attribute text built from safe pieces" if not bad else None
                    why = {(x, canon(y)): r for (x, y), r in TABLE_SAFE.items()}.get((q, canon(e)))
                    if why:
                        return "table: " + why
                    # structural forms of the table rows
                    if isinstance(e, ast.Attribute) and e.attr == "language":
                        tf = repo.typed.type_of(mod.name, e.value) if False else None
                        return "language tag of a Literal: validated against _lang_tag_regex at construction"
                    if isinstance(e, ast.Name) and site:
                        # xmlns:PREFIX=<quoteattr(namespace)>: PREFIX is the first target of the enclosing `for prefix, namespace in ...`
                        for par_ in mod.parents(site[0]):
                            if isinstance(par_, ast.For) and isinstance(par_.target, ast.Tuple) and len(par_.target.elts) == 2 and norm(par_.target.elts[0]) == e.id:
                                other = norm(par_.target.elts[1])
                                if any(isinstance(x, ast.Call) and norm(x.func) == "quoteattr" and x.args and norm(x.args[0]) == other for x in ast.walk(site[0])):
                                    return "namespace prefix paired with a quoteattr()-sanitised namespace: must be an NCName, escaping cannot repair it"
                    return None

                def operands(e: ast.AST) -> list[ast.AST]:
                    if isinstance(e, ast.BinOp) and isinstance(e.op, ast.Mod):
                        r = e.right
                        return list(r.elts) if isinstance(r, ast.Tuple) else [r]
                    if isinstance(e, ast.JoinedStr):
                        return [v.value for v in e.values if isinstance(v, ast.FormattedValue)]
                    if isinstance(e, ast.BinOp) and isinstance(e.op, ast.Add):
                        return operands_or_self(e.left) + operands_or_self(e.right)
                    if isinstance(e, ast.Call) and isinstance(e.func, ast.Attribute) and e.func.attr == "format":
                        return list(e.args) + [k.value for k in e.keywords]
                    return []

                def operands_or_self(e: ast.AST) -> list[ast.AST]:
                    ops = operands(e)
                    if ops or isinstance(e, (ast.BinOp, ast.JoinedStr)) and not isinstance(getattr(e, "op", None), ast.Mult):
                        return ops
                    return [e]

                def piece_ok(p: ast.AST) -> bool:
                    if isinstance(p, ast.Constant):
                        return True
                    ops = operands(p)
                    if ops:
                        return all(classify(o) is not None for o in ops)
                    return classify(p) is not None

                # local aliases of a stream's write method: w = self.stream.write / w = self.write / lambda wrapping .write
                write_aliases = {"write"}
                for n in own_nodes(f):
                    if isinstance(n, ast.Assign):
                        v = n.value
                        is_w = (isinstance(v, ast.Attribute) and v.attr == "write") or (
                            isinstance(v, ast.Lambda) and any(isinstance(x, ast.Attribute) and x.attr == "write" for x in ast.walk(v.body)))
                        if is_w:
                            for t in n.targets:
                                if isinstance(t, ast.Name):
                                    write_aliases.add(t.id)
                for c in own_nodes(f):
                    if not (isinstance(c, ast.Call) and c.args):
                        continue
                    fn = norm(c.func)
                    if not (fn in write_aliases or fn.endswith(".write")):
                        continue
                    a = c.args[0]
                    if isinstance(a, ast.Constant):
                        continue
                    if isinstance(a, ast.Call) and isinstance(a.func, ast.Attribute) and a.func.attr == "encode":
                        a = a.func.value
                        if isinstance(a, ast.Constant):
                            continue
                    site[:] = [c]
                    ops = operands(a)
                    if ops:
                        for o in ops:
                            why = classify(o)
                            rep.ob("C05.b-xml-escape-discipline", mod, q, "%s  in  %s" % (norm(o), norm(c)[:70]), why is not None,
                                   why or "the value %s is interpolated into XML markup without escape()/quoteattr(): a value containing & < or a quote yields malformed XML" % norm(o), node=c)
                    else:
                        why = classify(a)
                        if why is None:
                            # a raw write is acceptable only inside a CDATA section: the statement is directly between the writes of the
                            # constants "<![CDATA[" and "]]>" in its block, and the enclosing test excludes "]]>" from the text
                            st_ = mod.parent.get(id(c))
                            blk_owner = mod.parent.get(id(st_))
                            for field in ("body", "orelse"):
                                blk = getattr(blk_owner, field, None)
                                if isinstance(blk, list) and st_ in blk:
                                    i = blk.index(st_)
                                    prev_ok = i > 0 and "<![CDATA[" in norm(blk[i - 1])
                                    next_ok = i + 1 < len(blk) and "]]>" in norm(blk[i + 1])
                                    guard_ok = isinstance(blk_owner, ast.If) and "']]>' not in" in norm(blk_owner.test)
                                    if prev_ok and next_ok and guard_ok:
                                        why = "inside a CDATA section entered only when ']]>' not in the text"
                        if why is None:
                            why = {(x, canon(y)): r for (x, y), r in RAW_WRITES_OK.items()}.get((q, canon(c)))
                        rep.ob("C05.b-xml-escape-discipline", mod, q, norm(c)[:90], why is not None,
                               why if why else "raw write of %s: not sanitised and not table-listed" % norm(a), node=c)

    xmlns_agreement(repo, rep, "C05.b2-xmlns-declared-as-used")

    # ------------------------------------------------------------------ (c)
    rep.rule("C05.c-json-by-dumps", "JSON text written by the JSON-LD, HexTuples and SPARQL-JSON serializers comes from json.dumps / orjson.dumps", floor=5)
    for modname, qual in (("rdflib.plugins.serializers.jsonld", "JsonLDSerializer.serialize"), ("rdflib.plugins.sparql.results.jsonresults", "JSONResultSerializer.serialize"),
                          ("rdflib.plugins.serializers.hext", "HextuplesSerializer.serialize")):
        mod = repo.mod(modname)
        f = mod.func(qual)
        rep.analysed("%s:%s" % (mod.rel, qual))
        dump_names = set()
        helper_dumps = set()
        # methods of the class that return dumps(...) results
        cls = qual.split(".")[0]
        for m, mf in mod.methods(cls).items():
            rets = [r for r in own_nodes(mf) if isinstance(r, ast.Return) and r.value is not None]
            names = {norm(n.targets[0]) for n in own_nodes(mf) if isinstance(n, ast.Assign) and any(isinstance(x, ast.Call) and norm(x.func).endswith("dumps") for x in ast.walk(n.value))}
            rets = [r for r in rets if not (isinstance(r.value, ast.Constant) and r.value.value is None)]
            if rets and all(any(isinstance(x, ast.Call) and norm(x.func).endswith("dumps") for x in ast.walk(r.value)) or (isinstance(r.value, ast.Name) and r.value.id in names) for r in rets):
                helper_dumps.add("self." + m)
        for n in own_nodes(f):
            if isinstance(n, ast.Assign) and isinstance(n.targets[0], ast.Name):
                if any(isinstance(x, ast.Call) and (norm(x.func).endswith("dumps") or norm(x.func) in helper_dumps) for x in ast.walk(n.value)):
                    dump_names.add(n.targets[0].id)
        nw = 0
        for c in own_nodes(f):
            if isinstance(c, ast.Call) and norm(c.func).endswith("stream.write") and c.args:
                nw += 1
                a = c.args[0]
                roots = {x.id for x in ast.walk(a) if isinstance(x, ast.Name)}
                ok = bool(roots & dump_names) or any(isinstance(x, ast.Call) and norm(x.func).endswith("dumps") for x in ast.walk(a))
                rep.ob("C05.c-json-by-dumps", mod, qual, c, ok, "text from dumps()" if ok else "JSON output text %s is not the result of json.dumps/orjson.dumps" % norm(a)[:60], node=c)
        if nw == 0:
            raise AnalysisError("%s: no stream.write found" % qual)
    # (c2) non-finite floats never reach json.dumps as numbers
    rep.rule("C05.c2-no-nan-in-json",
             "a JSON serializer either calls json.dumps(..., allow_nan=False), or converts literals to native Python numbers (toPython()) only under "
             "a finiteness test (math.isfinite / isnan / isinf): json.dumps would write NaN / Infinity, which is not JSON", floor=2)
    for modname in ("rdflib.plugins.serializers.jsonld", "rdflib.plugins.sparql.results.jsonresults", "rdflib.plugins.serializers.hext"):
        mod = repo.mod(modname)
        dumps = [c for c in ast.walk(mod.tree) if isinstance(c, ast.Call) and norm(c.func) == "json.dumps"]
        strict = bool(dumps) and all(any(k.arg == "allow_nan" and isinstance(k.value, ast.Constant) and k.value.value is False for k in c.keywords) for c in dumps)
        natives = []
        for q, f in mod.functions():
            for c in own_nodes(f):
                if isinstance(c, ast.Call) and isinstance(c.func, ast.Attribute) and c.func.attr == "toPython":
                    guarded = any(isinstance(x, ast.Call) and norm(x.func).split(".")[-1] in ("isfinite", "isnan", "isinf") for x in ast.walk(f))
                    natives.append((q, c, guarded))
        if strict or not natives:
            rep.ob("C05.c2-no-nan-in-json", mod, "<module>", "json.dumps(allow_nan=False) / no native numbers", True,
                   "allow_nan=False" if strict else "no literal is converted to a native Python number in this module", node=mod.tree)
        for q, c, guarded in ([] if strict else natives):
            rep.ob("C05.c2-no-nan-in-json", mod, q, c, guarded,
                   "native conversion guarded by a finiteness test" if guarded else
                   "a literal's Python value (possibly float('nan') / inf) enters the JSON tree and json.dumps is not called with allow_nan=False: the output contains bare NaN / Infinity", node=c)

    iri_resolution_rule(repo, rep)


def xmlns_agreement(repo: Repo, rep: Report, RULE: str) -> None:
    """every prefix used in an element name is declared: the function that collects the xmlns declarations splits
    IRIs with the same (strict) qname computation as the functions that write element names"""
    rep.rule(RULE,
             "rdfxml.XMLSerializer: the xmlns declarations (__bindings) and the element names (predicate) are computed with qname functions "
             "of the same strictness (compute_qname_strict / qname_strict); otherwise an element can use a generated prefix that was never declared", floor=2)
    mod = repo.mod("rdflib.plugins.serializers.rdfxml")
    strict = {}
    for q in ("XMLSerializer.__bindings", "XMLSerializer.predicate"):
        f = mod.func(q)
        calls = [norm(c.func).rsplit(".", 1)[-1] for c in ast.walk(f) if isinstance(c, ast.Call) and isinstance(c.func, ast.Attribute)
                 and c.func.attr in ("compute_qname", "compute_qname_strict", "qname", "qname_strict")]
        if not calls:
            raise AnalysisError("%s: no qname computation found" % q)
        strict[q] = {c.endswith("_strict") for c in calls}
        rep.ob(RULE, mod, q, "uses %s" % sorted(set(calls)), len(strict[q]) == 1, "" if len(strict[q]) == 1 else "%s mixes strict and non-strict qname computation" % q, node=f)
    ok = strict["XMLSerializer.__bindings"] == strict["XMLSerializer.predicate"] == {True}
    rep.ob(RULE, mod, "XMLSerializer", "declarations and element names both use the strict split", ok,
           "every used prefix is declared" if ok else "xmlns declarations and element names are computed with different qname functions: for a predicate whose local part is not an NCName the element uses a prefix that is never declared (unbound prefix, not namespace-well-formed)", node=mod.func("XMLSerializer.predicate"))


# where IRI references read from a document are resolved against the base: (module, function) per syntax family
IRI_RESOLVERS = [
    ("rdflib.plugins.parsers.notation3", "join", "Turtle / TriG / N3"),
    ("rdflib.plugins.parsers.rdfxml", "RDFXMLHandler.absolutize", "RDF/XML"),
    ("rdflib.plugins.shared.jsonld.util", "norm_url", "JSON-LD"),
]


def iri_resolution_rule(repo: Repo, rep: Report) -> None:
    """(d) sibling agreement of relative-IRI resolution"""
    rep.rule("C05.d-iri-resolution-keeps-empty-components",
             "the resolvers of IRI references of the parsers agree on RFC 3986 section 5.2: the reference's query and path are kept as written. A resolver that "
             "delegates to urllib.parse.urljoin does not: urljoin re-assembles the result with urlunsplit, which drops an empty query ('a?') and empty path "
             "parameters ('o;') (a fact of the standard library on every interpreter rdflib supports); the Turtle-family resolver works on the strings "
             "and keeps them. (URIRef(ref, base=...), used for SPARQL BASE, shares the flaw but SPARQL text is outside this property.)", floor=3)
    for modname, q, what in IRI_RESOLVERS:
        mod = repo.mod(modname)
        f = mod.func(q)
        rep.analysed("%s:%s" % (mod.rel, q))
        calls = [c for c in own_nodes(f) if isinstance(c, ast.Call) and norm(c.func).split(".")[-1] == "urljoin"]
        # a urljoin whose result only feeds the *path* of a hand-assembled result is not a whole-reference resolution
        whole = []
        for c in calls:
            second = c.args[1] if len(c.args) > 1 else None
            if second is not None and isinstance(second, ast.Attribute) and second.attr == "path":
                continue
            whole.append(c)
        if not whole:
            rep.ob("C05.d-iri-resolution-keeps-empty-components", mod, q, "%s: no whole-reference urljoin" % what, True, "resolves on the strings", node=f)
        for c in whole:
            rep.ob("C05.d-iri-resolution-keeps-empty-components", mod, q, c, False,
                   "%s: the reference is resolved with urljoin: with base <http://example/> the legal references <a?> and <o;> (and, for a base of the same scheme, "
                   "the absolute <http://example/a?>) become <http://example/a> and <http://example/o>, where the Turtle parser reads <http://example/a?> and "
                   "<http://example/o;> from the same spelling" % what, node=c)


_run_base = run


def run(repo: Repo, rep: Report) -> None:  # noqa: F811
    _run_base(repo, rep)
    from vlib import memo

    rep.rule("C05.e-parser-memos-key-complete",
             "every memo of a parser class (a dict attribute that a method both looks a key up in and fills under that key: blank-node label maps, resolved-reference "
             "caches ...) is keyed by everything its value is computed from: an instance attribute the value reads and that a later method re-binds (the base IRI after "
             "@base / BASE, the current graph ...) is part of the key, or re-binding it invalidates the memo", floor=6)
    mods = [m for m in repo.modules if m.startswith("rdflib.plugins.parsers.") or m.startswith("rdflib.plugins.shared.jsonld.")]
    memo.scan(repo, rep, "C05.e-parser-memos-key-complete", sorted(mods))

    # (f) xml:lang="" is a value
    from vlib import truthy as _tr

    rep.rule("C05.f-empty-xml-lang-is-a-value",
             "RDF/XML parser: the in-scope language (xml:lang, inherited down the element stack) is compared with None by identity; xml:lang=\"\" switches the "
             "inherited language off, so the empty string must not be treated like an absent attribute", floor=1)
    rx = repo.mod("rdflib.plugins.parsers.rdfxml")
    for q, f in rx.functions():
        # the expressions that hold the in-scope language: the `.language` attribute of the element handlers and every local that is
        # assigned from it, from the xml:lang attribute lookup (`<attrs>.get(LANG, ...)`), or from another such local
        lang_names: set[str] = set()
        for _ in range(3):
            for a in own_nodes(f):
                if isinstance(a, ast.Assign) and len(a.targets) == 1 and isinstance(a.targets[0], ast.Name):
                    v = a.value
                    src = (isinstance(v, ast.Attribute) and v.attr == "language") or (isinstance(v, ast.Name) and v.id in lang_names) or (
                        isinstance(v, ast.Call) and isinstance(v.func, ast.Attribute) and v.func.attr == "get" and v.args and norm(v.args[0]) == "LANG")
                    if src:
                        lang_names.add(a.targets[0].id)

        def is_lang(e: ast.AST) -> bool:
            return (isinstance(e, ast.Attribute) and e.attr == "language") or (isinstance(e, ast.Name) and e.id in lang_names)

        for n in own_nodes(f):
            if isinstance(n, ast.Compare) and isinstance(n.ops[0], (ast.Is, ast.IsNot)) and isinstance(n.comparators[0], ast.Constant) and n.comparators[0].value is None \
                    and is_lang(n.left):
                rep.ob("C05.f-empty-xml-lang-is-a-value", rx, q, n, True, "by identity", node=n)
        for e, owner, kind in _tr.bool_contexts(f):
            if is_lang(e):
                rep.ob("C05.f-empty-xml-lang-is-a-value", rx, q, "%s [in %s: %s]" % (norm(e), kind, norm(getattr(owner, "test", owner))[:60]), False,
                       "%s is None or a string; xml:lang=\"\" (empty string, falsy) is an explicit `no language` and must not take the `attribute absent` path: literals below would inherit the ancestor's language tag" % norm(e), node=e)


_run_base2 = run


def run(repo: Repo, rep: Report) -> None:  # noqa: F811
    _run_base2(repo, rep)
    rx = repo.mod("rdflib.plugins.serializers.rdfxml")
    rep.rule("C05.g-prettyxml-declares-the-prefix-it-writes",
             "PrettyXMLSerializer writes the names of the RDF vocabulary (rdf:RDF, rdf:Description, rdf:about ...) through XMLWriter.qname, i.e. with the prefix the graph's namespace "
             "manager has or generates for the RDF namespace (or an extra_ns entry given to the writer). The xmlns declaration for that namespace must use the same source; a "
             "declaration under the hard-coded prefix `rdf` is only right while the graph binds `rdf` to the RDF namespace (Graph(bind_namespaces='none') writes <ns2:RDF xmlns:rdf=...>: unbound prefix)", floor=1)
    sf = rx.func("PrettyXMLSerializer.serialize")
    xw = [c for c in own_nodes(sf) if isinstance(c, ast.Call) and norm(c.func) == "XMLWriter"]
    extra = any(k.arg == "extra_ns" and isinstance(k.value, ast.Dict) and any(isinstance(x, ast.Constant) and x.value == "rdf" for x in k.value.keys) for c in xw for k in c.keywords)
    hard = [st for st in own_nodes(sf) if isinstance(st, ast.Assign) and isinstance(st.targets[0], ast.Subscript) and isinstance(st.targets[0].slice, ast.Constant) and st.targets[0].slice.value == "rdf"]
    computed = [st for st in own_nodes(sf) if isinstance(st, ast.Assign) and isinstance(st.value, ast.Call) and norm(st.value.func).endswith("compute_qname_strict") and st.value.args and "RDFVOC" in norm(st.value.args[0])]
    if hard:
        for st in hard:
            rep.ob("C05.g-prettyxml-declares-the-prefix-it-writes", rx, "PrettyXMLSerializer.serialize", st, extra,
                   "the writer is told to use `rdf` for that namespace (extra_ns)" if extra else
                   "the RDF namespace is declared as xmlns:rdf whatever prefix the writer will put on rdf:RDF / rdf:about: a graph that does not bind `rdf` to it gets element names with an undeclared prefix (not namespace-well-formed XML)", node=st)
    else:
        ok = bool(computed) or extra
        rep.ob("C05.g-prettyxml-declares-the-prefix-it-writes", rx, "PrettyXMLSerializer.serialize", computed[0] if computed else "declaration of the RDF namespace", ok,
               "declared under the prefix the namespace manager gives it" if ok else "no declaration of the RDF namespace found", node=computed[0] if computed else sf)


_run_base3 = run


def run(repo: Repo, rep: Report) -> None:  # noqa: F811
    _run_base3(repo, rep)
    rep.rule("C05.h-inherited-containers-are-copied-before-they-are-extended",
             "in the parser modules, a function that sets an attribute of one object from the same-named attribute of ANOTHER object (`current.declared = parent.declared`: per-element "
             "state inherited down the element stack) and then extends it in place (subscript store, update/append/add) takes a copy: without it the entries made for one element "
             "leak into the parent and thereby into the following siblings (the in-scope xmlns map of an XMLLiteral: a later sibling loses its declaration)", floor=1)
    n_sites = 0
    for modname in sorted(m for m in repo.modules if m.startswith("rdflib.plugins.parsers.")):
        mod = repo.mod(modname)
        for q, f in mod.functions():
            for a in own_nodes(f):
                if not (isinstance(a, ast.Assign) and len(a.targets) == 1 and isinstance(a.targets[0], ast.Attribute)):
                    continue
                t, v = a.targets[0], a.value
                src = v.func.value if isinstance(v, ast.Call) and isinstance(v.func, ast.Attribute) and v.func.attr == "copy" and not v.args else v
                copied = src is not v or (isinstance(v, ast.Call) and norm(v.func) in ("dict", "list", "set") and v.args and isinstance(v.args[0], ast.Attribute))
                if isinstance(v, ast.Call) and norm(v.func) in ("dict", "list", "set") and v.args:
                    src = v.args[0]
                if not (isinstance(src, ast.Attribute) and src.attr == t.attr and norm(src.value) != norm(t.value)):
                    continue
                owner = norm(t)
                muts = [n for n in own_nodes(f) if getattr(n, "lineno", 0) > a.lineno and (
                    (isinstance(n, ast.Assign) and any(isinstance(x, ast.Subscript) and norm(x.value) == owner for x in n.targets)) or
                    (isinstance(n, ast.Call) and isinstance(n.func, ast.Attribute) and n.func.attr in ("update", "append", "add", "extend", "setdefault", "pop") and norm(n.func.value) == owner))]
                if not muts:
                    continue
                n_sites += 1
                rep.ob("C05.h-inherited-containers-are-copied-before-they-are-extended", mod, q, a, copied,
                       "copied, then extended" if copied else "%s aliases %s and is then extended in place (%s): the change is visible through the other object as well" % (owner, norm(src), norm(muts[0])[:50]), node=a)
    if n_sites == 0:
        raise AnalysisError("no inherited-and-extended container found in the parser modules (rdfxml literal_element_start was one)")


_run_before_borrow = run


def run(repo: Repo, rep: Report) -> None:  # noqa: F811
    _run_before_borrow(repo, rep)
    from vlib.core import borrow

    borrow(repo, rep, "C05", "C12", ('C12.b2',))
