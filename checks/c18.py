"""C18 - AuditableStore undo-log discipline (DESIGN.md §2 C18)."""
from __future__ import annotations

import ast

from vlib import truthy
from vlib.cfg import CFG
from vlib.core import AnalysisError, Repo, Report, norm, own_nodes

EXPLANATION = (
    "CFG/path rules over rdflib/plugins/stores/auditable.py: every mutation of the wrapped store is logged with "
    "the cancel-or-append shape (so the log holds at most one entry per quad and replay order is irrelevant), "
    "no-op guards precede logging, tags logged by add/remove are dispatched by rollback to the inverse wrapped "
    "operation with the same quad layout, commit/rollback clear the log on every normal exit, wildcard removes "
    "log concrete quads, and no other method mutates the wrapped store. Does not decide two-wrapper schedules."
)

MUTATORS = {"add", "addN", "remove", "add_graph", "remove_graph", "update", "destroy", "create", "gc"}
INVERSE = {"add": "remove", "remove": "add"}


def _log_attr(cls_methods: dict[str, ast.FunctionDef]) -> str:
    """The undo log: the list attribute of __init__ that rollback iterates."""
    rb = cls_methods.get("rollback")
    init = cls_methods.get("__init__")
    if rb is None or init is None:
        raise AnalysisError("AuditableStore.rollback/__init__ vanished")
    lists = set()
    for n in own_nodes(init):
        if isinstance(n, (ast.Assign, ast.AnnAssign)):
            tg = n.targets if isinstance(n, ast.Assign) else [n.target]
            for t in tg:
                if isinstance(t, ast.Attribute) and isinstance(t.value, ast.Name) and t.value.id == "self" and isinstance(n.value, ast.List):
                    lists.add(t.attr)
    for n in own_nodes(rb):
        if isinstance(n, ast.For):
            for a in ast.walk(n.iter):
                if isinstance(a, ast.Attribute) and isinstance(a.value, ast.Name) and a.value.id == "self" and a.attr in lists:
                    return a.attr
    # rollback iterates a local alias of the log (`ops, self.log = self.log, []`): the log is the list attribute that add()/remove() append to
    for m in ("add", "remove"):
        f = cls_methods.get(m)
        if f is None:
            continue
        for n in own_nodes(f):
            if isinstance(n, ast.Call) and isinstance(n.func, ast.Attribute) and n.func.attr in ("append", "remove") and isinstance(n.func.value, ast.Attribute) \
                    and isinstance(n.func.value.value, ast.Name) and n.func.value.value.id == "self" and n.func.value.attr in lists:
                return n.func.value.attr
    raise AnalysisError("undo log attribute not found (list attribute of __init__ iterated by rollback / appended to by add and remove)")


def _is_log_call(c: ast.AST, log: str, meth: str | None = None) -> bool:
    return (
        isinstance(c, ast.Call)
        and isinstance(c.func, ast.Attribute)
        and (meth is None or c.func.attr == meth)
        and c.func.attr in ("append", "remove", "insert", "extend")
        and isinstance(c.func.value, ast.Attribute)
        and isinstance(c.func.value.value, ast.Name)
        and c.func.value.value.id == "self"
        and c.func.value.attr == log
    )


def _wrapped_call(c: ast.AST, wrapped: str) -> str | None:
    """name of the method called on self.<wrapped> (the wrapped store)."""
    if (
        isinstance(c, ast.Call)
        and isinstance(c.func, ast.Attribute)
        and isinstance(c.func.value, ast.Attribute)
        and isinstance(c.func.value.value, ast.Name)
        and c.func.value.value.id == "self"
        and c.func.value.attr == wrapped
    ):
        return c.func.attr
    return None


def _tuple_tag(t: ast.AST) -> tuple[list[str], str | None]:
    if isinstance(t, ast.Tuple) and t.elts and isinstance(t.elts[-1], ast.Constant) and isinstance(t.elts[-1].value, str):
        return [norm(e) for e in t.elts[:-1]], t.elts[-1].value
    return [], None


def run(repo: Repo, rep: Report) -> None:
    rep.extra["explanation"] = EXPLANATION
    mod = repo.mod("rdflib.plugins.stores.auditable")
    CLS = "AuditableStore"
    methods = mod.methods(CLS)
    for m in methods:
        rep.analysed("rdflib/plugins/stores/auditable.py:%s.%s" % (CLS, m))
    log = _log_attr(methods)
    # wrapped store attribute: the attribute assigned from the ctor parameter
    init = methods["__init__"]
    wrapped = None
    for n in own_nodes(init):
        if isinstance(n, ast.Assign) and isinstance(n.value, ast.Name) and n.value.id == init.args.args[1].arg:
            t = n.targets[0]
            if isinstance(t, ast.Attribute) and isinstance(t.value, ast.Name) and t.value.id == "self":
                wrapped = t.attr
    if wrapped is None:
        raise AnalysisError("wrapped store attribute not found in AuditableStore.__init__")
    rep.info["undo_log_attribute"] = log
    rep.info["wrapped_store_attribute"] = wrapped

    # ------------------------------------------------------------------ (f)
    rep.rule(
        "C18.f-only-logged-methods-mutate",
        "the wrapped store's mutators are called only from add/remove (which log), rollback (which replays) and "
        "destroy; any other method that mutates the wrapped store bypasses the undo log",
        floor=4,
    )
    allowed = {"add": {"add"}, "remove": {"remove"}, "rollback": {"add", "remove"}, "destroy": {"destroy"}}
    for mname, m in methods.items():
        for n in own_nodes(m, include_nested=True):
            w = _wrapped_call(n, wrapped)
            if w in MUTATORS:
                ok = w in allowed.get(mname, set())
                rep.ob("C18.f-only-logged-methods-mutate", mod, "%s.%s" % (CLS, mname), n, ok,
                       "sanctioned" if ok else "%s mutates the wrapped store through %s without the undo log" % (mname, w), node=n)
    # a subclass-inherited mutator must reduce to self.add/self.remove: addN is inherited from Store
    store_mod = repo.mod("rdflib.store")
    for inherited in ("addN",):
        if inherited not in methods:
            base = store_mod.func("Store." + inherited)
            calls = [n for n in own_nodes(base) if isinstance(n, ast.Call) and norm(n.func) == "self.add"]
            rep.ob("C18.f-only-logged-methods-mutate", store_mod, "Store." + inherited, "inherited %s reduces to self.add" % inherited,
                   bool(calls), "Store.%s calls self.add per quad" % inherited if calls else "Store.%s no longer reduces to self.add: AuditableStore inherits an unlogged bulk add" % inherited,
                   node=base)

    # ------------------------------------------------------------------ (a)(b)(e)(h)
    rep.rule(
        "C18.a-mutation-is-logged",
        "in add/remove every path from entry to the wrapped store's mutator passes a log update (or an expansion "
        "loop whose every iteration logs), and the no-op presence guard returns before any log update",
        floor=4,
    )
    rep.rule(
        "C18.b-cancel-or-append",
        "each undo entry is appended only where removing the inverse entry for the same quad failed "
        "(try: log.remove(inv) except ValueError: log.append(undo)): the log never holds two entries for one quad",
        floor=4,
    )
    rep.rule(
        "C18.e-wildcards-expanded",
        "log entries written on the wildcard branch of remove use the components enumerated from the wrapped "
        "store (concrete quads), never the pattern parameters; entries on the concrete branch follow a presence guard",
        floor=3,
    )
    rep.rule(
        "C18.h-logged-quad-is-mutated-quad",
        "the triple passed to the wrapped mutator and the context whose identifier is logged are the ones of the log entry",
        floor=2,
    )
    logged_tags: dict[str, set[str]] = {"add": set(), "remove": set()}
    for mname in ("add", "remove"):
        m = methods.get(mname)
        if m is None:
            raise AnalysisError("AuditableStore.%s vanished" % mname)
        g = CFG(m)
        params = [a.arg for a in m.args.args[1:]]
        # pattern component names: unpacked from the first parameter
        comps: list[str] = []
        for n in own_nodes(m):
            if isinstance(n, ast.Assign) and isinstance(n.value, ast.Name) and n.value.id == params[0] and isinstance(n.targets[0], ast.Tuple):
                comps = [norm(e) for e in n.targets[0].elts]
        if len(comps) != 3:
            raise AnalysisError("AuditableStore.%s: triple parameter is not unpacked into 3 components" % mname)
        mut_calls = [n for n in own_nodes(m) if _wrapped_call(n, wrapped) == mname]
        if not mut_calls:
            rep.ob("C18.a-mutation-is-logged", mod, "%s.%s" % (CLS, mname), "self.%s.%s(...)" % (wrapped, mname), False,
                   "%s no longer forwards to the wrapped store" % mname, node=m)
            continue
        appends = [n for n in own_nodes(m) if _is_log_call(n, log, "append")]
        removes = [n for n in own_nodes(m) if _is_log_call(n, log, "remove")]
        others = [n for n in own_nodes(m) if _is_log_call(n, log) and n not in appends and n not in removes]
        for o in others:
            rep.ob("C18.b-cancel-or-append", mod, "%s.%s" % (CLS, mname), o, False, "unmodelled log update form", node=o)
        # log regions: try statements containing a log call; their CFG nodes
        log_nodes = set()
        for c in appends + removes:
            log_nodes.add(g.node_of(c, mod))
        # for-loops every iteration of which logs: head counts as a pass-through region
        for n in own_nodes(m):
            if isinstance(n, ast.For):
                h = g.by_ast[id(n)]
                body_first = n.body[0]
                # from head's true-successors, can we get back to head avoiding log nodes?
                back = False
                for s in g.succ[h]:
                    if g.edge_label.get((h, s)) == "true":
                        r = g.reach(s, avoid=log_nodes, include_src=False) | ({s} if s not in log_nodes else set())
                        if h in r and s not in log_nodes:
                            back = True
                        elif s not in log_nodes and h in g.reach(s, avoid=log_nodes):
                            back = True
                if not back and any(g.node_of(c, mod) in g.reach(h) for c in appends):
                    # only loops that contain log calls
                    if any(any(c is x for x in ast.walk(n)) for c in appends):
                        log_nodes.add(h)
        for mc in mut_calls:
            mn = g.node_of(mc, mod)
            ok = g.must_pass_before(mn, log_nodes)
            rep.ob("C18.a-mutation-is-logged", mod, "%s.%s" % (CLS, mname), mc, ok,
                   "every path to the wrapped %s passes a log update" % mname if ok else
                   "a path reaches the wrapped %s without any log update: rollback cannot undo it" % mname, node=mc)
            # (h) same quad
            targ = mc.args[0] if mc.args else None
            tcomps = [norm(e) for e in targ.elts] if isinstance(targ, ast.Tuple) else ([norm(targ)] if targ is not None else [])
            okh = tcomps == comps or tcomps == [params[0]]
            rep.ob("C18.h-logged-quad-is-mutated-quad", mod, "%s.%s" % (CLS, mname), mc, okh,
                   "mutates the unpacked triple %s" % comps if okh else "wrapped %s receives %s, not the logged triple %s" % (mname, tcomps, comps), node=mc)
        # presence guards
        guards = []
        for n in own_nodes(m):
            if isinstance(n, ast.If) and len(n.body) == 1 and isinstance(n.body[0], ast.Return):
                if any(isinstance(c, ast.Call) and isinstance(c.func, ast.Attribute) and c.func.attr == "triples" for c in ast.walk(n.test)):
                    guards.append(n)
        # wildcard test (remove only)
        wild = None
        for n in own_nodes(m):
            if isinstance(n, ast.If) and isinstance(n.test, ast.Compare) and isinstance(n.test.left, ast.Constant) and n.test.left.value is None \
                    and isinstance(n.test.ops[0], ast.In):
                wild = n
        # (b) shape of every append
        for ap in appends:
            entry, tag = _tuple_tag(ap.args[0]) if ap.args else ([], None)
            where = "%s.%s" % (CLS, mname)
            if tag is None or len(entry) != 4:
                rep.ob("C18.b-cancel-or-append", mod, where, ap, False, "log entry is not a 5-tuple ending in a constant tag", node=ap)
                continue
            logged_tags[mname].add(tag)
            okb = False
            why = "append is not in the `except ValueError` arm of a try whose body removes the inverse entry"
            par = mod.parent.get(id(mod.parent.get(id(ap))))  # Expr -> handler/if
            h = None
            for p in mod.parents(ap):
                if isinstance(p, ast.ExceptHandler):
                    h = p
                    break
                if isinstance(p, (ast.For, ast.While, ast.FunctionDef)):
                    break
            if h is not None:
                tr = mod.parent.get(id(h))
                exc_ok = h.type is not None and norm(h.type) in ("ValueError",)
                body_calls = [s for s in tr.body] if isinstance(tr, ast.Try) else []
                if exc_ok and len(body_calls) == 1 and isinstance(body_calls[0], ast.Expr) and _is_log_call(body_calls[0].value, log, "remove"):
                    inv_entry, inv_tag = _tuple_tag(body_calls[0].value.args[0])
                    if inv_entry == entry and inv_tag == INVERSE.get(tag):
                        okb = True
                        why = "cancel %r entry for the same quad, else append %r" % (inv_tag, tag)
                    else:
                        why = "cancelled entry %s/%r does not match appended entry %s/%r" % (inv_entry, inv_tag, entry, tag)
                # nothing else may touch the log in the handler
                if okb and len(h.body) != 1:
                    okb = False
                    why = "handler does more than append the undo entry"
            else:
                # alternative idiom: if inv in log: log.remove(inv) else: log.append(undo)
                for p in mod.parents(ap):
                    if isinstance(p, ast.If) and any(ap is x for s in p.orelse for x in ast.walk(s)):
                        t = p.test
                        if isinstance(t, ast.Compare) and isinstance(t.ops[0], ast.In) and norm(t.comparators[0]) == "self." + log:
                            inv_entry, inv_tag = _tuple_tag(t.left)
                            if inv_entry == entry and inv_tag == INVERSE.get(tag) and any(
                                _is_log_call(x, log, "remove") for s in p.body for x in ast.walk(s)
                            ):
                                okb = True
                                why = "if inverse in log: cancel, else append"
                    if isinstance(p, ast.FunctionDef):
                        break
            rep.ob("C18.b-cancel-or-append", mod, where, ap, okb, why, node=ap)
            # the undo tag must be the inverse of the operation performed
            rep.ob("C18.b-cancel-or-append", mod, where, "undo tag of %s is %r" % (mname, tag), tag == INVERSE[mname],
                   "undo of %s is %s" % (mname, INVERSE[mname]) if tag == INVERSE[mname] else "%s logs undo tag %r instead of %r" % (mname, tag, INVERSE[mname]), node=ap)
            # (e)/(guard) provenance of the entry's components
            in_wild = wild is not None and any(ap is x for s in wild.body for x in ast.walk(s))
            if in_wild:
                loop = None
                for p in mod.parents(ap):
                    if isinstance(p, ast.For):
                        loop = p
                        break
                oke = False
                whye = "wildcard-branch log entry is not inside an expansion loop"
                if loop is not None:
                    tg = [norm(e) for e in loop.target.elts] if isinstance(loop.target, ast.Tuple) else []
                    if isinstance(loop.target, ast.Tuple) and loop.target.elts and isinstance(loop.target.elts[0], ast.Tuple):
                        # the store interface: ((s, p, o), contexts)
                        tg = [norm(e) for e in loop.target.elts[0].elts]
                    enumer = any(isinstance(c, ast.Call) and isinstance(c.func, ast.Attribute) and c.func.attr in ("triples", "quads") for c in ast.walk(loop.iter))
                    pat_ok = all(cmp_ in norm(loop.iter) for cmp_ in comps)
                    oke = enumer and pat_ok and entry[:3] == tg[:3]
                    whye = ("entry components %s are the enumerated quads of %s" % (entry[:3], norm(loop.iter)[:60])) if oke else (
                        "entry %s is not the loop target %s of an enumeration of the removal pattern" % (entry[:3], tg))
                rep.ob("C18.e-wildcards-expanded", mod, where, ap, oke, whye, node=ap)
                if loop is not None and oke:
                    # what is logged must be what will be removed: the enumeration is asked of the object that does the removing, for the same context.
                    # (`context.triples(...)` of a ConjunctiveGraph context is the union of all graphs, the store removes from the one named graph)
                    rm = [c for c in own_nodes(m) if isinstance(c, ast.Call) and isinstance(c.func, ast.Attribute) and c.func.attr == "remove" and norm(c.func.value).startswith("self.") and norm(c.func.value) != "self." + log]
                    en = [c for c in ast.walk(loop.iter) if isinstance(c, ast.Call) and isinstance(c.func, ast.Attribute) and c.func.attr in ("triples", "quads")]
                    if rm and en:
                        recv = en[0].func.value
                        same_obj = norm(recv) == norm(rm[0].func.value)
                        if isinstance(recv, ast.Call) and norm(recv.func) in ("ConjunctiveGraph", "Dataset") and len(recv.args) == 1 and norm(recv.args[0]) == norm(rm[0].func.value) and len(en[0].args) == 1:
                            same_obj = True  # the all-contexts view of that store, for a removal from all contexts
                        same_ctx = len(en[0].args) > 1 and len(rm[0].args) > 1 and norm(en[0].args[1]) == norm(rm[0].args[1])
                        # an enumeration without a context argument is accepted only where the removal is guarded to have none as well
                        if len(en[0].args) == 1 and same_obj:
                            same_ctx = True
                        oks = same_obj and same_ctx
                        rep.ob("C18.e-wildcards-expanded", mod, where, "enumeration %s vs removal %s" % (norm(en[0])[:60], norm(rm[0])[:50]), oks,
                               "the triples logged are those the removing store reports for that context" if oks else
                               "the undo entries are enumerated from %s but the removal is done by %s: the two can differ (a ConjunctiveGraph context enumerates the union of all graphs), "
                               "rollback then re-adds triples that were never removed" % (norm(en[0])[:70], norm(rm[0])[:60]), node=en[0])
            else:
                an = g.node_of(ap, mod)
                gn = {g.by_ast[id(x)] for x in guards}
                okg = bool(gn) and g.must_pass_before(an, gn) and entry[:3] == comps
                rep.ob("C18.e-wildcards-expanded", mod, where, ap, okg,
                       "concrete entry %s follows the presence guard" % entry[:3] if okg else
                       "concrete-branch log entry %s is not dominated by a presence guard that returns on a no-op" % entry[:3], node=ap)
            # ctx id provenance (h): entry[3] is <ctx>.identifier guarded against None, or the loop's context .identifier
            ctx_expr = entry[3]
            okc = False
            if ctx_expr.endswith(".identifier"):
                okc = True
            else:
                for n in own_nodes(m):
                    if isinstance(n, ast.Assign) and isinstance(n.targets[0], ast.Name) and n.targets[0].id == ctx_expr:
                        if ".identifier" in norm(n.value) and "is not None" in norm(n.value):
                            okc = True
            rep.ob("C18.h-logged-quad-is-mutated-quad", mod, where, "logged context id %s" % ctx_expr, okc,
                   "derived from the context's identifier" if okc else "logged context id %s is not the identifier of the context passed on" % ctx_expr, node=ap)
        # guard precedes all log updates on the concrete branch / in add
        for gd in guards:
            gn = g.by_ast[id(gd)]
            rep.ob("C18.a-mutation-is-logged", mod, "%s.%s" % (CLS, mname), gd.test, True, "no-op guard returns before logging", node=gd)
        if not guards:
            rep.ob("C18.a-mutation-is-logged", mod, "%s.%s" % (CLS, mname), "presence guard", False,
                   "no presence guard: a no-op %s leaves a log entry that rollback replays" % mname, node=m)

    # ------------------------------------------------------------------ (c)
    rep.rule(
        "C18.c-rollback-dispatch",
        "rollback iterates the log, unpacks entries with the layout add/remove wrote (s,p,o,ctx-id,tag) and sends "
        "tag T to the wrapped operation named T with the same triple and a graph over the logged context id",
        floor=3,
    )
    rb = methods["rollback"]
    loop = None
    # local aliases of the log (`ops = self.log`, `ops, self.log = self.log, []`)
    log_alias = set()
    for n in own_nodes(rb):
        if isinstance(n, ast.Assign) and len(n.targets) == 1:
            t, v = n.targets[0], n.value
            pairs = list(zip(t.elts, v.elts)) if isinstance(t, ast.Tuple) and isinstance(v, ast.Tuple) and len(t.elts) == len(v.elts) else [(t, v)]
            for tt, vv in pairs:
                if isinstance(tt, ast.Name) and norm(vv) in ("self." + log, "list(self.%s)" % log, "self.%s[:]" % log, "self.%s.copy()" % log):
                    log_alias.add(tt.id)
    for n in own_nodes(rb):
        if isinstance(n, ast.For) and (("self." + log) in norm(n.iter) or norm(n.iter) in log_alias):
            loop = n
    if loop is None:
        raise AnalysisError("rollback loop over the undo log not found")
    order_ok = norm(loop.iter) == "self." + log or norm(loop.iter) in ("reversed(self.%s)" % log, "self.%s[::-1]" % log, "list(self.%s)" % log) or norm(loop.iter) in log_alias
    rep.ob("C18.c-rollback-dispatch", mod, CLS + ".rollback", loop.iter, order_ok,
           "replays every entry of the log" if order_ok else "rollback iterates %s, not the whole log" % norm(loop.iter), node=loop)
    tg = [norm(e) for e in loop.target.elts] if isinstance(loop.target, ast.Tuple) else []
    rep.ob("C18.c-rollback-dispatch", mod, CLS + ".rollback", "for %s in ..." % norm(loop.target), len(tg) == 5,
           "5-component unpack matches the logged layout" if len(tg) == 5 else "rollback unpacks %d components, entries have 5" % len(tg), node=loop)
    if len(tg) == 5:
        opvar = tg[4]

        def dispatch(stmts: list[ast.stmt], tag: str) -> list[ast.Call]:
            out: list[ast.Call] = []
            for s in stmts:
                if isinstance(s, ast.If):
                    t = s.test
                    if isinstance(t, ast.Compare) and norm(t.left) == opvar and isinstance(t.ops[0], (ast.Eq, ast.NotEq)) \
                            and isinstance(t.comparators[0], ast.Constant):
                        eq = (t.comparators[0].value == tag) == isinstance(t.ops[0], ast.Eq)
                        out += dispatch(s.body if eq else s.orelse, tag)
                    else:
                        # a test that is not on the tag: both arms are possible
                        out += dispatch(s.body, tag) + dispatch(s.orelse, tag)
                else:
                    out += [c for c in ast.walk(s) if _wrapped_call(c, wrapped) in MUTATORS]
            return out

        for op, tags in logged_tags.items():
            for tag in sorted(tags):
                calls = dispatch(loop.body, tag)
                names_ = [_wrapped_call(c, wrapped) for c in calls]
                ok = names_ == [tag]
                detail = "tag %r (logged by %s) -> wrapped %s" % (tag, op, names_)
                if ok:
                    c = calls[0]
                    a0 = [norm(e) for e in c.args[0].elts] if c.args and isinstance(c.args[0], ast.Tuple) else []
                    ctxarg = norm(c.args[1]) if len(c.args) > 1 else ""
                    # one local alias assigned unconditionally per entry: g = Graph(self.store, context)
                    for st in loop.body:
                        if isinstance(st, ast.Assign) and len(st.targets) == 1 and norm(st.targets[0]) == ctxarg:
                            ctxarg = norm(st.value)
                    ok = a0 == tg[:3] and tg[3] in ctxarg
                    if not ok:
                        detail += "; but arguments %s / %s do not carry the logged quad %s" % (a0, ctxarg, tg[:4])
                rep.ob("C18.c-rollback-dispatch", mod, CLS + ".rollback", "dispatch of tag %r" % tag, ok, detail, node=loop)

    # ------------------------------------------------------------------ (d)
    rep.rule(
        "C18.d-log-cleared",
        "commit and rollback clear the undo log on every normal exit (rollback: after the replay loop)",
        floor=2,
    )
    for mname in ("commit", "rollback"):
        m = methods.get(mname)
        if m is None:
            raise AnalysisError("AuditableStore.%s vanished" % mname)
        g = CFG(m)
        clears = set()
        for nd in g.nodes:
            st = nd.ast
            if nd.kind != "stmt" or st is None:
                continue
            if isinstance(st, (ast.Assign, ast.AnnAssign)):
                tgs = st.targets if isinstance(st, ast.Assign) else [st.target]
                if any(norm(t) == "self." + log for t in tgs) and isinstance(st.value, ast.List) and not st.value.elts:
                    clears.add(nd.id)
            if isinstance(st, ast.Expr) and isinstance(st.value, ast.Call) and norm(st.value.func) == "self.%s.clear" % log:
                clears.add(nd.id)
            if isinstance(st, ast.Delete) and any(norm(t) == "self.%s[:]" % log for t in st.targets):
                clears.add(nd.id)
        ok = bool(clears) and g.exit not in g.reach(g.entry, avoid=clears)
        if ok and mname == "rollback":
            h = g.by_ast[id(loop)]
            ok = g.must_pass_after(h, clears) and not any(h in g.reach(c) for c in clears)
        rep.ob("C18.d-log-cleared", mod, "%s.%s" % (CLS, mname), "self.%s cleared" % log, ok,
               "log cleared on every normal exit" if ok else "%s can return with entries left in the undo log (a second rollback would replay them)" % mname, node=m)

    # ------------------------------------------------------------------ E1
    rep.rule("C18.g-identity-tests", "contexts/terms are compared with None by identity in AuditableStore", floor=3)
    for mname, m in methods.items():
        truthy.scan(repo, rep, "C18.g-identity-tests", mod, m, "%s.%s" % (CLS, mname))

    # ------------------------------------------------------------------ (i) no other transaction state
    rep.rule("C18.i-no-unsynchronised-state",
             "any attribute of AuditableStore (other than the undo log) that add/remove/addN write to - a presence memo, a counter of pending "
             "operations - is reset by rollback() on every normal path; otherwise it describes a state that rollback has undone", floor=1)
    base_attrs = set()
    for n in own_nodes(init):
        if isinstance(n, (ast.Assign, ast.AnnAssign)):
            t = n.targets[0] if isinstance(n, ast.Assign) else n.target
            if isinstance(t, ast.Attribute) and isinstance(t.value, ast.Name) and t.value.id == "self":
                base_attrs.add(t.attr)
    written: dict[str, list] = {}
    for mname in ("add", "remove", "addN"):
        m = methods.get(mname)
        if m is None:
            continue
        for n in own_nodes(m, include_nested=True):
            a = None
            if isinstance(n, (ast.Assign, ast.AugAssign)):
                for t in (n.targets if isinstance(n, ast.Assign) else [n.target]):
                    r = t
                    while isinstance(r, ast.Subscript):
                        r = r.value
                    if isinstance(r, ast.Attribute) and isinstance(r.value, ast.Name) and r.value.id == "self":
                        a = r.attr
            if isinstance(n, ast.Call) and isinstance(n.func, ast.Attribute) and n.func.attr in ("add", "discard", "remove", "append", "update", "clear", "pop", "setdefault", "extend"):
                r = n.func.value
                while isinstance(r, ast.Subscript):
                    r = r.value
                if isinstance(r, ast.Attribute) and isinstance(r.value, ast.Name) and r.value.id == "self":
                    a = r.attr
            if a and a not in (log, wrapped):
                written.setdefault(a, []).append((mname, n))
    if not written:
        rep.ob("C18.i-no-unsynchronised-state", mod, CLS, "add/remove write no attribute besides the undo log", True, "the log is the only transaction state", node=mod.cls(CLS))
    for a, sites in written.items():
        for mname in ("rollback",):  # after commit() such state still describes the store; after rollback() it does not
            m = methods[mname]
            g = CFG(m)
            resets = set()
            for nd in g.nodes:
                st = nd.ast
                if nd.kind != "stmt" or st is None:
                    continue
                if isinstance(st, (ast.Assign, ast.AnnAssign)) and any(norm(t) == "self." + a for t in (st.targets if isinstance(st, ast.Assign) else [st.target])):
                    resets.add(nd.id)
                if isinstance(st, ast.Expr) and isinstance(st.value, ast.Call) and norm(st.value.func) == "self.%s.clear" % a:
                    resets.add(nd.id)
            ok = bool(resets) and g.exit not in g.reach(g.entry, avoid=resets)
            rep.ob("C18.i-no-unsynchronised-state", mod, "%s.%s" % (CLS, mname), "self.%s reset by %s" % (a, mname), ok,
                   "" if ok else "self.%s is written by %s but %s() does not reset it: after the transaction ends it still describes the undone/committed state (e.g. a stale `already present` memo drops a later add)" % (a, sorted({x for x, _ in sites}), mname),
                   node=sites[0][1])


_run_base = run


def run(repo: Repo, rep: Report) -> None:  # noqa: F811
    _run_base(repo, rep)
    mod = repo.mod("rdflib.plugins.stores.auditable")
    methods = mod.methods("AuditableStore")
    # ------------------------------------------------------------------ (j)
    rep.rule("C18.j-guards-and-branch-tests-see-the-context",
             "the presence guards of add/remove ask the wrapped store about the triple IN THE GIVEN CONTEXT (the triples() call of the guard passes the context), and the test "
             "that sends remove() down the concrete single-quad branch also requires the context to be given (context None means `every graph`, i.e. a wildcard): otherwise a triple "
             "present in another graph makes add() a no-op, and remove((s,p,o), None) logs one entry with context None that rollback replays into a fresh blank-node graph", floor=3)
    for mname in ("add", "remove"):
        f = methods[mname]
        ctx = f.args.args[2].arg
        for n in own_nodes(f):
            if isinstance(n, ast.If) and any(isinstance(r, ast.Return) for r in n.body) and len(n.body) == 1:
                calls = [c for c in ast.walk(n.test) if isinstance(c, ast.Call) and isinstance(c.func, ast.Attribute) and c.func.attr == "triples"]
                for c in calls:
                    passes = any(norm(a) == ctx for a in c.args[1:]) or any(norm(k.value) == ctx for k in c.keywords)
                    rep.ob("C18.j-guards-and-branch-tests-see-the-context", mod, "AuditableStore." + mname, c, passes,
                           "asks about the given context" if passes else "the presence guard ignores the context: the triple being in ANY graph decides whether the operation on %s is a no-op" % ctx, node=c)
    f = methods["remove"]
    ctx = f.args.args[2].arg
    wild = [n for n in own_nodes(f) if isinstance(n, ast.If) and isinstance(n.test, ast.Compare) and isinstance(n.test.left, ast.Constant) and n.test.left.value is None and isinstance(n.test.ops[0], ast.In) and n.orelse]
    if not wild:
        raise AnalysisError("AuditableStore.remove: wildcard branch test not found")
    for n in wild:
        names_ = {x.id for x in ast.walk(n.test.comparators[0]) if isinstance(x, ast.Name)}
        ok = ctx in names_
        rep.ob("C18.j-guards-and-branch-tests-see-the-context", mod, "AuditableStore.remove", n.test, ok,
               "the context counts as a wildcard position" if ok else "a fully specified triple removed with context None takes the single-quad branch: one undo entry with context None instead of one per graph", node=n)
