"""C18 - AuditableStore undo-log discipline (DESIGN.md §2 C18)."""
from __future__ import annotations

import ast

from vlib import h_c18 as _h
from vlib import truthy
from vlib.cfg import CFG
from vlib.core import AnalysisError, Repo, Report, norm, own_nodes

EXPLANATION = (
    "CFG/path rules over rdflib/plugins/stores/auditable.py: every mutation of the wrapped store is logged with "
    "the cancel-or-append shape (so the log holds at most one entry per quad and replay order is irrelevant), "
    "no-op guards precede logging, tags logged by add/remove are dispatched by rollback to the inverse wrapped "
    "operation with the same quad layout, commit/rollback clear the log on every normal exit, wildcard removes "
    "log concrete quads, and no other method mutates the wrapped store; the context component of a log key collapses "
    "for a wrapped store that is not context aware, no graph is built from an identifier that may be None, and graphs "
    "obtained from the wrapped store are re-bound to the wrapper before they are handed out. Does not decide two-wrapper schedules."
)

MUTATORS = {"add", "addN", "remove", "add_graph", "remove_graph", "update", "destroy", "create", "gc"}
INVERSE = {"add": "remove", "remove": "add"}


def _log_attr(cls_methods: dict[str, ast.FunctionDef]) -> str:
    """The undo log: the list attribute of __init__ that rollback iterates."""
    rb = cls_methods.get("rollback")
    init = cls_methods.get("__init__")
    if rb is None or init is None:
        raise AnalysisError("AuditableStore.rollback/__init__ vanished")
    lists = set()
    for n in own_nodes(init):
        if isinstance(n, (ast.Assign, ast.AnnAssign)):
            tg = n.targets if isinstance(n, ast.Assign) else [n.target]
            for t in tg:
                if isinstance(t, ast.Attribute) and isinstance(t.value, ast.Name) and t.value.id == "self" and isinstance(n.value, ast.List):
                    lists.add(t.attr)
    for n in own_nodes(rb):
        if isinstance(n, ast.For):
            for a in ast.walk(n.iter):
                if isinstance(a, ast.Attribute) and isinstance(a.value, ast.Name) and a.value.id == "self" and a.attr in lists:
                    return a.attr
    # rollback iterates a local alias of the log (`ops, self.log = self.log, []`): the log is the list attribute that add()/remove() append to
    for m in ("add", "remove"):
        f = cls_methods.get(m)
        if f is None:
            continue
        for n in own_nodes(f):
            if isinstance(n, ast.Call) and isinstance(n.func, ast.Attribute) and n.func.attr in ("append", "remove") and isinstance(n.func.value, ast.Attribute) \
                    and isinstance(n.func.value.value, ast.Name) and n.func.value.value.id == "self" and n.func.value.attr in lists:
                return n.func.value.attr
    raise AnalysisError("undo log attribute not found (list attribute of __init__ iterated by rollback / appended to by add and remove)")


def _anchors(methods: dict[str, ast.FunctionDef]) -> tuple[str, str]:
    """(undo log attribute, wrapped store attribute) - every layer finds them itself: on an equivalent view the engine runs only the layers that have something to show"""
    log = _log_attr(methods)
    # wrapped store attribute: the attribute assigned from the ctor parameter
    init = methods["__init__"]
    wrapped = None
    for n in own_nodes(init):
        if isinstance(n, ast.Assign) and isinstance(n.value, ast.Name) and n.value.id == init.args.args[1].arg:
            t = n.targets[0]
            if isinstance(t, ast.Attribute) and isinstance(t.value, ast.Name) and t.value.id == "self":
                wrapped = t.attr
    if wrapped is None:
        raise AnalysisError("wrapped store attribute not found in AuditableStore.__init__")
    return log, wrapped


def _is_log_call(c: ast.AST, log: str, meth: str | None = None) -> bool:
    return (
        isinstance(c, ast.Call)
        and isinstance(c.func, ast.Attribute)
        and (meth is None or c.func.attr == meth)
        and c.func.attr in ("append", "remove", "insert", "extend")
        and isinstance(c.func.value, ast.Attribute)
        and isinstance(c.func.value.value, ast.Name)
        and c.func.value.value.id == "self"
        and c.func.value.attr == log
    )


def _wrapped_call(c: ast.AST, wrapped: str) -> str | None:
    """name of the method called on self.<wrapped> (the wrapped store)."""
    if (
        isinstance(c, ast.Call)
        and isinstance(c.func, ast.Attribute)
        and isinstance(c.func.value, ast.Attribute)
        and isinstance(c.func.value.value, ast.Name)
        and c.func.value.value.id == "self"
        and c.func.value.attr == wrapped
    ):
        return c.func.attr
    return None


def _tuple_tag(t: ast.AST) -> tuple[list[str], str | None]:
    if isinstance(t, ast.Tuple) and t.elts and isinstance(t.elts[-1], ast.Constant) and isinstance(t.elts[-1].value, str):
        return [norm(e) for e in t.elts[:-1]], t.elts[-1].value
    return [], None


def _class_lookup(repo: Repo, mod):
    """expression -> (module, class definition) for a class the module imports from the package (a row class kept in a private module)."""
    def class_of(e: ast.AST):
        try:
            ref = repo.typed.ref(mod.name, e)
        except Exception:
            return None
        if not ref or "." not in ref:
            return None
        mname, cname = ref.rsplit(".", 1)
        try:
            m2 = repo.mod(mname)
        except Exception:
            return None
        c = m2.defs.get(cname)
        return (m2, c) if isinstance(c, ast.ClassDef) else None
    return class_of


def run(repo: Repo, rep: Report) -> None:
    rep.extra["explanation"] = EXPLANATION
    mod = repo.mod("rdflib.plugins.stores.auditable")
    CLS = "AuditableStore"
    methods = mod.methods(CLS)
    for m in methods:
        rep.analysed("rdflib/plugins/stores/auditable.py:%s.%s" % (CLS, m))
    log, wrapped = _anchors(methods)
    init = methods["__init__"]
    rep.info["undo_log_attribute"] = log
    rep.info["wrapped_store_attribute"] = wrapped

    # ------------------------------------------------------------------ (f)
    rep.rule(
        "C18.f-only-logged-methods-mutate",
        "the wrapped store's mutators are called only from add/remove (which log), rollback (which replays) and "
        "destroy; any other method that mutates the wrapped store bypasses the undo log",
        floor=4,
    )
    allowed = {"add": {"add"}, "remove": {"remove"}, "rollback": {"add", "remove"}, "destroy": {"destroy"}}
    for mname, m in methods.items():
        for n in own_nodes(m, include_nested=True):
            w = _wrapped_call(n, wrapped)
            if w in MUTATORS:
                ok = w in allowed.get(mname, set())
                rep.ob("C18.f-only-logged-methods-mutate", mod, "%s.%s" % (CLS, mname), n, ok,
                       "sanctioned" if ok else "%s mutates the wrapped store through %s without the undo log" % (mname, w), node=n)
    # a subclass-inherited mutator must reduce to self.add/self.remove: addN is inherited from Store
    store_mod = repo.mod("rdflib.store")
    for inherited in ("addN",):
        if inherited not in methods:
            base = store_mod.func("Store." + inherited)
            calls = [n for n in own_nodes(base) if isinstance(n, ast.Call) and norm(n.func) == "self.add"]
            rep.ob("C18.f-only-logged-methods-mutate", store_mod, "Store." + inherited, "inherited %s reduces to self.add" % inherited,
                   bool(calls), "Store.%s calls self.add per quad" % inherited if calls else "Store.%s no longer reduces to self.add: AuditableStore inherits an unlogged bulk add" % inherited,
                   node=base)

    # ------------------------------------------------------------------ (a)(b)(e)(h)
    rep.rule(
        "C18.a-mutation-is-logged",
        "in add/remove every path from entry to the wrapped store's mutator passes a log update (or an expansion "
        "loop whose every iteration logs), and the no-op presence guard returns before any log update",
        floor=4,
    )
    rep.rule(
        "C18.b-cancel-or-append",
        "each undo entry is appended only where removing the inverse entry for the same quad failed "
        "(try: log.remove(inv) except ValueError: log.append(undo)): the log never holds two entries for one quad",
        floor=4,
    )
    rep.rule(
        "C18.e-wildcards-expanded",
        "log entries written on the wildcard branch of remove use the components enumerated from the wrapped "
        "store (concrete quads), never the pattern parameters; entries on the concrete branch follow a presence guard",
        floor=3,
    )
    rep.rule(
        "C18.h-logged-quad-is-mutated-quad",
        "the triple passed to the wrapped mutator and the context whose identifier is logged are the ones of the log entry",
        floor=2,
    )
    logged_tags: dict[str, set[str]] = {"add": set(), "remove": set()}
    class_of = _class_lookup(repo, mod)
    for mname in ("add", "remove"):
        m = methods.get(mname)
        if m is None:
            raise AnalysisError("AuditableStore.%s vanished" % mname)
        g = CFG(m)
        params = [a.arg for a in m.args.args[1:]]
        where = "%s.%s" % (CLS, mname)
        # pattern component names: unpacked from the first parameter
        comps: list[str] = []
        for n in own_nodes(m):
            if isinstance(n, ast.Assign) and isinstance(n.value, ast.Name) and n.value.id == params[0] and isinstance(n.targets[0], ast.Tuple):
                comps = [norm(e) for e in n.targets[0].elts]
        if len(comps) != 3:
            raise AnalysisError("AuditableStore.%s: triple parameter is not unpacked into 3 components" % mname)
        mut_calls = [n for n in own_nodes(m) if _wrapped_call(n, wrapped) == mname]
        if not mut_calls:
            rep.ob("C18.a-mutation-is-logged", mod, where, "self.%s.%s(...)" % (wrapped, mname), False,
                   "%s no longer forwards to the wrapped store" % mname, node=m)
            continue
        # the updates of the log, each with the entry it writes as a sequence of component expressions (however the sequence is spelt, vlib/h_c18.Entry)
        sites = _h.log_sites(mod, m, log, _h.Entries(mod, m, class_of))
        appends = [s for s in sites if s.kind == "append"]
        removes = [s for s in sites if s.kind == "remove"]
        for o in sites:
            if o.kind not in ("append", "remove"):
                rep.ob("C18.b-cancel-or-append", mod, where, o.call, False, "unmodelled log update form", node=o.call)
        # log regions: try statements containing a log call; their CFG nodes
        log_nodes = set()
        for c in appends + removes:
            log_nodes.add(g.node_of(c.call, mod))
        # for-loops every iteration of which logs: head counts as a pass-through region
        for n in own_nodes(m):
            if isinstance(n, ast.For):
                h = g.by_ast[id(n)]
                # from head's true-successors, can we get back to head avoiding log nodes?
                back = False
                for s in g.succ[h]:
                    if g.edge_label.get((h, s)) == "true":
                        r = g.reach(s, avoid=log_nodes, include_src=False) | ({s} if s not in log_nodes else set())
                        if h in r and s not in log_nodes:
                            back = True
                        elif s not in log_nodes and h in g.reach(s, avoid=log_nodes):
                            back = True
                if not back and any(g.node_of(c.call, mod) in g.reach(h) for c in appends):
                    # only loops that contain log calls
                    if any(any(c.call is x for x in ast.walk(n)) for c in appends):
                        log_nodes.add(h)
        for mc in mut_calls:
            mn = g.node_of(mc, mod)
            ok = g.must_pass_before(mn, log_nodes)
            rep.ob("C18.a-mutation-is-logged", mod, where, mc, ok,
                   "every path to the wrapped %s passes a log update" % mname if ok else
                   "a path reaches the wrapped %s without any log update: rollback cannot undo it" % mname, node=mc)
            # (h) same quad: what the wrapped mutator receives is the triple parameter, or the tuple of the names it was unpacked into, whichever local holds it
            targ = mc.args[0] if mc.args else None
            tcomps = [norm(e) for e in targ.elts] if isinstance(targ, ast.Tuple) else ([norm(targ)] if targ is not None else [])
            okh = _h.denotes_triple(m, targ, comps, params[0])
            rep.ob("C18.h-logged-quad-is-mutated-quad", mod, where, mc, okh,
                   "mutates the unpacked triple %s" % comps if okh else "wrapped %s receives %s, not the logged triple %s" % (mname, tcomps, comps), node=mc)

        # presence guards: tests that tell whether the wrapped store reports the triple of this call; a log update is `guarded` when it is only reached over edges on which
        # such a test says `nothing reported` (`if present: return`, `if not present: <log, mutate>`, a flag variable, and/or combinations: the edges count, not the shape)
        ptests = [t for t in _h.presence_tests(m) if isinstance(t[0], ast.If)]

        def asks_about_the_triple(calls: list[ast.Call]) -> bool:
            return bool(calls) and all(c.args and _h.denotes_triple(m, c.args[0], comps, params[0]) for c in calls)

        def guarded(at: ast.AST) -> bool:
            return bool(ptests) and _h.holds_at(mod, m, g, at, None, implies=lambda t, o: _h.absence_implied(m, t, o, asks_about_the_triple))

        # wildcard test (remove only)
        wild = None
        for n in own_nodes(m):
            if isinstance(n, ast.If) and isinstance(n.test, ast.Compare) and isinstance(n.test.left, ast.Constant) and n.test.left.value is None \
                    and isinstance(n.test.ops[0], ast.In):
                wild = n

        def expansion_of(alt: list[ast.expr]):
            """the loop / comprehension generator whose row holds the subject, predicate and object of the entry at the positions of a triple, however they are taken out of
            the row - names of the loop target, `row[i]`, locals unpacked from a part of the row (None: they are not the triple of one loop row)"""
            return _h.enumerated_triple(mod, m, alt)

        def loop_bound(alt: list[ast.expr]) -> bool:
            return any(_h.row_source(mod, m, x) is not None for x in alt[:3])

        unguarded_appends = []
        # (b) shape of every append
        for site in appends:
            ap = site.call
            tag = site.tag
            if site.entry is None or tag is None or len(site.entry.elts) != 5:
                rep.ob("C18.b-cancel-or-append", mod, where, ap, False, "log entry is not a 5-tuple ending in a constant tag", node=ap)
                continue
            entry = site.entry.text()[:4]
            logged_tags[mname].add(tag)
            okb = False
            why = "append is not in the `except ValueError` arm of a try whose body removes the inverse entry"
            h = None
            for p in mod.parents(ap):
                if isinstance(p, ast.ExceptHandler):
                    h = p
                    break
                if isinstance(p, (ast.For, ast.While, ast.FunctionDef)):
                    break
            if h is not None:
                tr = mod.parent.get(id(h))
                exc_ok = h.type is not None and norm(h.type) in ("ValueError",)
                body_calls = [s for s in tr.body] if isinstance(tr, ast.Try) else []
                inv = next((r for r in removes if len(body_calls) == 1 and isinstance(body_calls[0], ast.Expr) and r.call is body_calls[0].value), None)
                if exc_ok and inv is not None:
                    inv_entry, inv_tag = (inv.entry.text()[:-1], inv.tag) if inv.entry is not None else ([], None)
                    if inv_entry == entry and inv_tag == INVERSE.get(tag):
                        okb = True
                        why = "cancel %r entry for the same quad, else append %r" % (inv_tag, tag)
                    else:
                        why = "cancelled entry %s/%r does not match appended entry %s/%r" % (inv_entry, inv_tag, entry, tag)
                # nothing else may touch the log in the handler
                if okb and len(h.body) != 1:
                    okb = False
                    why = "handler does more than append the undo entry"
            else:
                # alternative idiom: if inv in log: log.remove(inv) else: log.append(undo)
                ents = _h.Entries(mod, m, class_of)
                for p in mod.parents(ap):
                    if isinstance(p, ast.If) and any(ap is x for s in p.orelse for x in ast.walk(s)):
                        t = p.test
                        if isinstance(t, ast.Compare) and isinstance(t.ops[0], ast.In) and norm(t.comparators[0]) == "self." + log:
                            inv_e = ents.resolve(t.left)
                            inv_entry = inv_e.text()[:-1] if inv_e is not None else []
                            inv_tag = inv_e.elts[-1].value if inv_e is not None and inv_e.elts and isinstance(inv_e.elts[-1], ast.Constant) else None
                            if inv_entry == entry and inv_tag == INVERSE.get(tag) and any(
                                r.call is x and r.entry is not None and r.entry.text() == inv_e.text() for r in removes for s in p.body for x in ast.walk(s)
                            ):
                                okb = True
                                why = "if inverse in log: cancel, else append"
                    if isinstance(p, ast.FunctionDef):
                        break
            rep.ob("C18.b-cancel-or-append", mod, where, ap, okb, why, node=ap)
            # the undo tag must be the inverse of the operation performed
            rep.ob("C18.b-cancel-or-append", mod, where, "undo tag of %s is %r" % (mname, tag), tag == INVERSE[mname],
                   "undo of %s is %s" % (mname, INVERSE[mname]) if tag == INVERSE[mname] else "%s logs undo tag %r instead of %r" % (mname, tag, INVERSE[mname]), node=ap)
            # (e)/(guard) provenance of the entry's components, for every row the entry can stand for
            in_wild_branch = wild is not None and any(ap is x for s in wild.body for x in ast.walk(s))
            for alt in site.alts:
                trip = [norm(x) for x in alt[:3]]
                if in_wild_branch or loop_bound(alt):
                    loop = expansion_of(alt)
                    oke = False
                    whye = "wildcard-branch log entry is not inside an expansion loop"
                    en: list[ast.Call] = []
                    if loop is not None:
                        tg = _h.target_triple(loop)
                        en = _h.enumeration_calls(loop.iter)
                        # the enumeration is asked for the pattern of this call
                        pat_ok = bool(en) and all(c.args and (_h.denotes_triple(m, c.args[0], comps, params[0]) or all(cmp_ in norm(c.args[0]) for cmp_ in comps)) for c in en)
                        oke = bool(en) and pat_ok  # (that the three components sit at the triple positions of the row is what expansion_of established)
                        whye = ("entry components %s are the enumerated quads of %s" % (trip, norm(loop.iter)[:60])) if oke else (
                            "entry %s is not the loop target %s of an enumeration of the removal pattern" % (trip, tg))
                    rep.ob("C18.e-wildcards-expanded", mod, where, ap if len(site.alts) == 1 else "%s for %s" % (norm(ap)[:80], norm(loop.iter if loop is not None else alt[0])[:60]),
                           oke, whye, node=ap)
                    if loop is not None and oke:
                        # what is logged must be what will be removed: the enumeration is asked of the object that does the removing, for the same context.
                        # (`context.triples(...)` of a ConjunctiveGraph context is the union of all graphs, the store removes from the one named graph)
                        rm = [c for c in own_nodes(m) if isinstance(c, ast.Call) and isinstance(c.func, ast.Attribute) and c.func.attr == "remove" and norm(c.func.value).startswith("self.") and norm(c.func.value) != "self." + log]
                        if rm and en:
                            recv = en[0].func.value
                            same_obj = norm(recv) == norm(rm[0].func.value)
                            if isinstance(recv, ast.Call) and norm(recv.func) in ("ConjunctiveGraph", "Dataset") and len(recv.args) == 1 and norm(recv.args[0]) == norm(rm[0].func.value) and len(en[0].args) == 1:
                                same_obj = True  # the all-contexts view of that store, for a removal from all contexts
                            same_ctx = len(en[0].args) > 1 and len(rm[0].args) > 1 and norm(en[0].args[1]) == norm(rm[0].args[1])
                            # an enumeration without a context argument is accepted only where the removal is guarded to have none as well
                            if len(en[0].args) == 1 and same_obj:
                                same_ctx = True
                            oks = same_obj and same_ctx
                            rep.ob("C18.e-wildcards-expanded", mod, where, "enumeration %s vs removal %s" % (norm(en[0])[:60], norm(rm[0])[:50]), oks,
                                   "the triples logged are those the removing store reports for that context" if oks else
                                   "the undo entries are enumerated from %s but the removal is done by %s: the two can differ (a ConjunctiveGraph context enumerates the union of all graphs), "
                                   "rollback then re-adds triples that were never removed" % (norm(en[0])[:70], norm(rm[0])[:60]), node=en[0])
                    if not (loop is not None and _h.enumeration_calls(loop.iter)):
                        unguarded_appends.append(ap)
                else:
                    okg = guarded(ap) and trip == comps
                    if not guarded(ap):
                        unguarded_appends.append(ap)
                    rep.ob("C18.e-wildcards-expanded", mod, where, ap, okg,
                           "concrete entry %s follows the presence guard" % trip if okg else
                           "concrete-branch log entry %s is not dominated by a presence guard that returns on a no-op" % trip, node=ap)
                # ctx id provenance (h): the fourth component is the identifier of a context: <ctx>.identifier of the context the enumeration reports, or the identifier
                # of the context passed on, read where that context is known not to be None.  A local stands for what is assigned to it (every assignment, transitively;
                # `if T: x = A else: x = B` is the value `A if T else B`).
                ctx_node = alt[3]
                ctx_expr = norm(ctx_node)
                leaves = _h.leaf_definitions(m, ctx_node)
                badl = []
                for lf in leaves:
                    if isinstance(lf, ast.Attribute) and lf.attr == "identifier":
                        continue
                    good, total = _h.guarded_identifier_reads(lf)
                    if not (total and good == total):
                        badl.append(norm(lf)[:60])
                okc = not badl
                rep.ob("C18.h-logged-quad-is-mutated-quad", mod, where, "logged context id %s" % ctx_expr, okc,
                       "derived from the context's identifier" if okc else "logged context id %s is not the identifier of the context passed on%s" % (
                           ctx_expr, "" if badl == [ctx_expr] else " (it can be %s)" % "; ".join(badl)), node=ap)
        if not appends:
            # the obligations above are per undo entry: a method in which no entry is written has none, and must not pass for that reason
            rep.ob("C18.h-logged-quad-is-mutated-quad", mod, where, "undo entries of %s" % mname, False,
                   "no undo entry is written in %s itself: the quad that is logged cannot be related to the quad that is mutated" % mname, node=m)
        # a no-op must not be logged: every log entry is written either behind a presence guard (the edge on which the wrapped store reports the triple does not reach it), or
        # for a quad that an enumeration of the wrapped store has just reported (an absent triple is not enumerated, so nothing is logged for it)
        seen_guards = set()
        for site in appends:
            for st_, atom, pol, calls in ptests:
                if id(st_) not in seen_guards and asks_about_the_triple(calls) and guarded(site.call):
                    seen_guards.add(id(st_))
                    rep.ob("C18.a-mutation-is-logged", mod, where, st_.test, True, "no-op guard: a triple the wrapped store reports is not logged", node=st_)
        if not seen_guards:
            all_enum = bool(appends) and all(s.entry is not None for s in appends) and not unguarded_appends
            rep.ob("C18.a-mutation-is-logged", mod, where, "presence guard", all_enum,
                   "every log entry is written for a quad the wrapped store has just reported: a no-op leaves none" if all_enum else
                   "no presence guard: a no-op %s leaves a log entry that rollback replays" % mname, node=m)

    # ------------------------------------------------------------------ (c)
    rep.rule(
        "C18.c-rollback-dispatch",
        "rollback iterates the log, unpacks entries with the layout add/remove wrote (s,p,o,ctx-id,tag) and sends "
        "tag T to the wrapped operation named T with the same triple and a graph over the logged context id",
        floor=3,
    )
    rb = methods["rollback"]
    loop = None
    # local aliases of the log (`ops = self.log`, `ops, self.log = self.log, []`)
    log_alias = set()
    for n in own_nodes(rb):
        if isinstance(n, ast.Assign) and len(n.targets) == 1:
            t, v = n.targets[0], n.value
            pairs = list(zip(t.elts, v.elts)) if isinstance(t, ast.Tuple) and isinstance(v, ast.Tuple) and len(t.elts) == len(v.elts) else [(t, v)]
            for tt, vv in pairs:
                if isinstance(tt, ast.Name) and norm(vv) in ("self." + log, "list(self.%s)" % log, "self.%s[:]" % log, "self.%s.copy()" % log):
                    log_alias.add(tt.id)
    # the replay loop, by what it does: the loop of rollback in which one entry of the log per iteration is taken apart into its components - `for <components> in <log>`, or
    # a loop over the positions of the log (`while i < len(<log>)` with `i` starting at 0 and stepped once, unconditionally, per iteration) whose body unpacks `<log>[i]`
    replay = _h.replay_loop(mod, rb, log, log_alias)
    if replay is None:
        raise AnalysisError("rollback loop over the undo log not found")
    loop, tg, loop_body, order_ok, over, tgt_text = replay
    rep.ob("C18.c-rollback-dispatch", mod, CLS + ".rollback", over, order_ok,
           "replays every entry of the log" if order_ok else "rollback iterates %s, not the whole log" % (over if isinstance(over, str) else norm(over)), node=loop)
    rep.ob("C18.c-rollback-dispatch", mod, CLS + ".rollback", "for %s in ..." % tgt_text, len(tg) == 5,
           "5-component unpack matches the logged layout" if len(tg) == 5 else "rollback unpacks %d components, entries have 5" % len(tg), node=loop)
    if len(tg) == 5:
        opvar = tg[4]
        # the wrapped-store attribute is bound once (in __init__): a local that only ever holds self.<wrapped> denotes the wrapped store
        stable = not any(
            isinstance(n, (ast.Assign, ast.AnnAssign, ast.AugAssign, ast.Delete, ast.For, ast.With, ast.NamedExpr)) and any(
                _h.self_attr(x, wrapped) and isinstance(x.ctx, (ast.Store, ast.Del)) for x in ast.walk(n))
            for mn_, m_ in methods.items() if mn_ != "__init__" for n in own_nodes(m_, include_nested=True))
        callees = _h.Callees(mod, rb, wrapped, opvar, stable)

        def mutator_calls(s: ast.AST, tag: str) -> list[tuple[ast.Call, str]]:
            """calls in s that, for an entry with this tag, are calls of a mutator of the wrapped store: by what the called expression can evaluate to
            (a method of the wrapped store or of a local alias of it, the arm of a conditional expression that the tag selects, a local holding one of these,
            a row of a literal table, getattr(wrapped, tag)), not by how the call is spelt"""
            out: list[tuple[ast.Call, str]] = []
            for c in ast.walk(s):
                if not isinstance(c, ast.Call) or _h.excluded_by_path(mod, s, c, opvar, tag):
                    continue
                for nm in callees.of(c.func, tag):
                    if nm in MUTATORS:
                        out.append((c, nm))
            out.sort(key=lambda cn: (cn[0].lineno, cn[0].col_offset))
            return out

        def dispatch(stmts: list[ast.stmt], tag: str) -> tuple[list[tuple[ast.Call, str]], bool]:
            """(the mutator calls an iteration executes for an entry with this tag, in order; does the statement list end the iteration - continue / break / return / raise on
            the path the tag selects).  A test that is not on the tag leaves both arms possible: their calls all count, the iteration ends only if it ends in both."""
            out: list[tuple[ast.Call, str]] = []
            for s in stmts:
                if isinstance(s, ast.If):
                    out += mutator_calls(s.test, tag)
                    d = _h.decide(s.test, opvar, tag)
                    if d is not None:
                        sub, ends = dispatch(s.body if d else s.orelse, tag)
                        out += sub
                    else:
                        s1, e1 = dispatch(s.body, tag)
                        s2, e2 = dispatch(s.orelse, tag)
                        out += s1 + s2
                        ends = e1 and e2
                    if ends:
                        return out, True
                elif isinstance(s, (ast.Continue, ast.Break, ast.Return, ast.Raise)):
                    out += mutator_calls(s, tag)
                    return out, True
                else:
                    out += mutator_calls(s, tag)
            return out, False

        def carries(e: ast.AST | None, want: list[str]) -> tuple[bool, list[str]]:
            """every value the argument can stand for (a local stands for all its definitions) is the tuple of exactly these entry components"""
            if e is None:
                return False, []
            leaves = _h.leaf_definitions(rb, e)
            shown = [norm(x) for x in leaves[0].elts] if leaves and isinstance(leaves[0], ast.Tuple) else []
            return bool(leaves) and all(isinstance(lf, ast.Tuple) and [norm(x) for x in lf.elts] == want for lf in leaves), shown

        for op, tags in logged_tags.items():
            for tag in sorted(tags):
                calls, _ends = dispatch(loop_body, tag)
                names_ = [nm for _, nm in calls]
                ok = names_ == [tag]
                detail = "tag %r (logged by %s) -> wrapped %s" % (tag, op, names_)
                if ok:
                    c = calls[0][0]
                    oka, a0 = carries(c.args[0] if c.args else None, tg[:3])
                    # the graph argument: every definition of it is built from the logged context id
                    cleaves = _h.leaf_definitions(rb, c.args[1]) if len(c.args) > 1 else []
                    ctxarg = " / ".join(norm(x) for x in cleaves)
                    okc = bool(cleaves) and all(any(isinstance(x, ast.Name) and x.id == tg[3] for x in ast.walk(lf)) for lf in cleaves)
                    ok = oka and okc
                    if not ok:
                        detail += "; but arguments %s / %s do not carry the logged quad %s" % (a0, ctxarg, tg[:4])
                rep.ob("C18.c-rollback-dispatch", mod, CLS + ".rollback", "dispatch of tag %r" % tag, ok, detail, node=loop)

    # ------------------------------------------------------------------ (d)
    rep.rule(
        "C18.d-log-cleared",
        "commit and rollback clear the undo log on every normal exit (rollback: after the replay loop)",
        floor=2,
    )
    for mname in ("commit", "rollback"):
        m = methods.get(mname)
        if m is None:
            raise AnalysisError("AuditableStore.%s vanished" % mname)
        g = CFG(m)
        clears = set()
        for nd in g.nodes:
            st = nd.ast
            if nd.kind != "stmt" or st is None:
                continue
            if isinstance(st, (ast.Assign, ast.AnnAssign)):
                tgs = st.targets if isinstance(st, ast.Assign) else [st.target]
                if any(norm(t) == "self." + log for t in tgs) and isinstance(st.value, ast.List) and not st.value.elts:
                    clears.add(nd.id)
            if isinstance(st, ast.Expr) and isinstance(st.value, ast.Call) and norm(st.value.func) == "self.%s.clear" % log:
                clears.add(nd.id)
            if isinstance(st, ast.Delete) and any(norm(t) == "self.%s[:]" % log for t in st.targets):
                clears.add(nd.id)
        ok = bool(clears) and g.exit not in g.reach(g.entry, avoid=clears)
        if ok and mname == "rollback":
            h = g.by_ast[id(loop)]
            ok = g.must_pass_after(h, clears) and not any(h in g.reach(c) for c in clears)
        rep.ob("C18.d-log-cleared", mod, "%s.%s" % (CLS, mname), "self.%s cleared" % log, ok,
               "log cleared on every normal exit" if ok else "%s can return with entries left in the undo log (a second rollback would replay them)" % mname, node=m)

    # ------------------------------------------------------------------ E1
    rep.rule("C18.g-identity-tests", "contexts/terms are compared with None by identity in AuditableStore", floor=3)
    for mname, m in methods.items():
        truthy.scan(repo, rep, "C18.g-identity-tests", mod, m, "%s.%s" % (CLS, mname))

    # ------------------------------------------------------------------ (i) no other transaction state
    rep.rule("C18.i-no-unsynchronised-state",
             "any attribute of AuditableStore (other than the undo log) that add/remove/addN write to - a presence memo, a counter of pending "
             "operations - is reset by rollback() on every normal path; otherwise it describes a state that rollback has undone", floor=1)
    base_attrs = set()
    for n in own_nodes(init):
        if isinstance(n, (ast.Assign, ast.AnnAssign)):
            t = n.targets[0] if isinstance(n, ast.Assign) else n.target
            if isinstance(t, ast.Attribute) and isinstance(t.value, ast.Name) and t.value.id == "self":
                base_attrs.add(t.attr)
    written: dict[str, list] = {}
    for mname in ("add", "remove", "addN"):
        m = methods.get(mname)
        if m is None:
            continue
        for n in own_nodes(m, include_nested=True):
            a = None
            if isinstance(n, (ast.Assign, ast.AugAssign)):
                for t in (n.targets if isinstance(n, ast.Assign) else [n.target]):
                    r = t
                    while isinstance(r, ast.Subscript):
                        r = r.value
                    if isinstance(r, ast.Attribute) and isinstance(r.value, ast.Name) and r.value.id == "self":
                        a = r.attr
            if isinstance(n, ast.Call) and isinstance(n.func, ast.Attribute) and n.func.attr in ("add", "discard", "remove", "append", "update", "clear", "pop", "setdefault", "extend"):
                r = n.func.value
                while isinstance(r, ast.Subscript):
                    r = r.value
                if isinstance(r, ast.Attribute) and isinstance(r.value, ast.Name) and r.value.id == "self":
                    a = r.attr
            if a and a not in (log, wrapped):
                written.setdefault(a, []).append((mname, n))
    if not written:
        rep.ob("C18.i-no-unsynchronised-state", mod, CLS, "add/remove write no attribute besides the undo log", True, "the log is the only transaction state", node=mod.cls(CLS))
    for a, sites in written.items():
        for mname in ("rollback",):  # after commit() such state still describes the store; after rollback() it does not
            m = methods[mname]
            g = CFG(m)
            resets = set()
            for nd in g.nodes:
                st = nd.ast
                if nd.kind != "stmt" or st is None:
                    continue
                if isinstance(st, (ast.Assign, ast.AnnAssign)) and any(norm(t) == "self." + a for t in (st.targets if isinstance(st, ast.Assign) else [st.target])):
                    resets.add(nd.id)
                if isinstance(st, ast.Expr) and isinstance(st.value, ast.Call) and norm(st.value.func) == "self.%s.clear" % a:
                    resets.add(nd.id)
            ok = bool(resets) and g.exit not in g.reach(g.entry, avoid=resets)
            rep.ob("C18.i-no-unsynchronised-state", mod, "%s.%s" % (CLS, mname), "self.%s reset by %s" % (a, mname), ok,
                   "" if ok else "self.%s is written by %s but %s() does not reset it: after the transaction ends it still describes the undone/committed state (e.g. a stale `already present` memo drops a later add)" % (a, sorted({x for x, _ in sites}), mname),
                   node=sites[0][1])


from vlib.core import layer as _layer  # noqa: E402

_run_base = run


def run(repo: Repo, rep: Report) -> None:  # noqa: F811
    _layer(rep, _run_base, repo)
    mod = repo.mod("rdflib.plugins.stores.auditable")
    methods = mod.methods("AuditableStore")
    # ------------------------------------------------------------------ (j)
    rep.rule("C18.j-guards-and-branch-tests-see-the-context",
             "the presence guards of add/remove ask the wrapped store about the triple IN THE GIVEN CONTEXT (the triples() call of the guard passes the context), and the test "
             "that sends remove() down the concrete single-quad branch also requires the context to be given (context None means `every graph`, i.e. a wildcard): otherwise a triple "
             "present in another graph makes add() a no-op, and remove((s,p,o), None) logs one entry with context None that rollback replays into a fresh blank-node graph", floor=2)
    log, wrapped = _anchors(methods)
    class_of = _class_lookup(repo, mod)
    for mname in ("add", "remove"):
        f = methods[mname]
        ctx = f.args.args[2].arg
        # every test of the method whose truth tells whether the store reports the triple (`if list(..triples(..))`, `if not ..`, a flag variable, next(.., None) is None, ...)
        for n, atom, pol, calls in _h.presence_tests(f):
            for c in calls:
                passes = any(norm(a) == ctx for a in c.args[1:]) or any(norm(k.value) == ctx for k in c.keywords)
                rep.ob("C18.j-guards-and-branch-tests-see-the-context", mod, "AuditableStore." + mname, c, passes,
                       "asks about the given context" if passes else "the presence guard ignores the context: the triple being in ANY graph decides whether the operation on %s is a no-op" % ctx, node=c)
    f = methods["remove"]
    ctx = f.args.args[2].arg
    wild = [n for n in own_nodes(f) if isinstance(n, ast.If) and isinstance(n.test, ast.Compare) and isinstance(n.test.left, ast.Constant) and n.test.left.value is None and isinstance(n.test.ops[0], ast.In) and n.orelse]
    if not wild:
        # no single-quad shortcut at all: every removal is logged from an enumeration of the wrapped store (checked by C18.e), there is no branch test to get wrong
        sites = [s_ for s_ in _h.log_sites(mod, f, log, _h.Entries(mod, f, class_of)) if s_.kind == "append"]
        fed = [_h.row_source(mod, f, x) for s_ in sites for alt in s_.alts for x in alt[:3]]
        if not any(b is not None and _h.enumeration_calls(b[0].iter) for b in fed):
            raise AnalysisError("AuditableStore.remove: neither a wildcard branch test nor an enumeration of the wrapped store that feeds the undo log found")
        rep.ob("C18.j-guards-and-branch-tests-see-the-context", mod, "AuditableStore.remove", "no single-quad branch", True,
               "every removal, fully specified or not, is logged from what the wrapped store reports for the pattern and the context", node=f)
    for n in wild:
        names_ = {x.id for x in ast.walk(n.test.comparators[0]) if isinstance(x, ast.Name)}
        ok = ctx in names_
        rep.ob("C18.j-guards-and-branch-tests-see-the-context", mod, "AuditableStore.remove", n.test, ok,
               "the context counts as a wildcard position" if ok else "a fully specified triple removed with context None takes the single-quad branch: one undo entry with context None instead of one per graph", node=n)


# ---------------------------------------------------------------------------------------------------------------------
# third layer: the identity of a logged quad (k), graphs made from logged identifiers (l), graphs handed out (m)

import re as _re


def _self_attr(n: ast.AST, attr: str | None = None) -> bool:
    return isinstance(n, ast.Attribute) and isinstance(n.value, ast.Name) and n.value.id == "self" and (attr is None or n.attr == attr)


def _defs_of(fn: ast.AST, name: str) -> list[ast.expr]:
    """values assigned to the local `name` anywhere in fn (plain / annotated assignments)."""
    out = []
    for n in own_nodes(fn):
        if isinstance(n, ast.Assign) and any(isinstance(t, ast.Name) and t.id == name for t in n.targets):
            out.append(n.value)
        elif isinstance(n, ast.AnnAssign) and isinstance(n.target, ast.Name) and n.target.id == name and n.value is not None:
            out.append(n.value)
    return out


def _loop_binding(mod, fn: ast.AST, at: ast.AST, name: str) -> ast.For | None:
    """the enclosing for-loop of `at` whose target binds `name`."""
    for p in mod.parents(at):
        if isinstance(p, ast.For) and any(isinstance(x, ast.Name) and x.id == name for x in ast.walk(p.target)):
            return p
        if p is fn:
            break
    return None


_run_base2 = run


def run(repo: Repo, rep: Report) -> None:  # noqa: F811
    _layer(rep, _run_base2, repo)
    mod = repo.mod("rdflib.plugins.stores.auditable")
    CLS = "AuditableStore"
    methods = mod.methods(CLS)
    log, wrapped = _anchors(methods)
    init = methods["__init__"]
    store_param = init.args.args[1].arg
    typed = repo.typed
    gcls = set(typed.subclasses("rdflib.graph.Graph")) | {"rdflib.graph.Graph"}
    if len(gcls) < 3:
        raise AnalysisError("class hierarchy of rdflib.graph.Graph not found in the typed program")

    # ------------------------------------------------------------------ (k)
    # The log is a SET of (quad, undo-tag) keys (C18.b: cancel-or-append, replay order irrelevant).  That is only sound when two keys are equal exactly
    # when they denote the same stored quad of the WRAPPED store.  A store that is not context aware keeps one set of triples whatever graph an
    # operation comes through, so there the context component of the key has to be one constant.
    rep.rule("C18.k-log-key-is-the-wrapped-stores-quad",
             "the context component of every undo-log key written by add/remove is either enumerated from the wrapped store itself, or derived by a definition that "
             "consults the wrapped store's context_aware flag and has a None arm (one key per triple when the store keeps one set of triples); otherwise, over a store "
             "that is not context aware, g1.add(t); g2.remove(t) through two graphs leaves the entries (t,g1,'remove') and (t,g2,'add') which do not cancel, and "
             "rollback replays them into a t that was never there", floor=3)

    def flag_is_wrapped_stores(e: ast.AST) -> bool:
        """e reads `context_aware` of the wrapped store: self.<wrapped>.context_aware, or self.context_aware which __init__ copies from the wrapped store."""
        for a in ast.walk(e):
            if isinstance(a, ast.Attribute) and a.attr == "context_aware":
                if _self_attr(a.value, wrapped):
                    return True
                if _self_attr(a):
                    for n in own_nodes(init):
                        if isinstance(n, ast.Assign) and any(_self_attr(t, "context_aware") for t in n.targets):
                            v = n.value
                            if isinstance(v, ast.Attribute) and v.attr == "context_aware" and (
                                    (isinstance(v.value, ast.Name) and v.value.id == store_param) or _self_attr(v.value, wrapped)):
                                return True
        return False

    def has_none_arm(e: ast.AST) -> bool:
        return any(isinstance(x, ast.IfExp) and any(isinstance(arm, ast.Constant) and arm.value is None for arm in (x.body, x.orelse)) for x in ast.walk(e)) \
            or (isinstance(e, ast.Constant) and e.value is None)

    # a constructor that refuses stores that are not context aware discharges the obligation as well
    ctor_refuses = False
    for n in own_nodes(init):
        if isinstance(n, ast.If) and any(isinstance(x, ast.Attribute) and x.attr == "context_aware" for x in ast.walk(n.test)) \
                and any(isinstance(s, ast.Raise) for s in n.body + n.orelse):
            ctor_refuses = True
        if isinstance(n, ast.Assert) and any(isinstance(x, ast.Attribute) and x.attr == "context_aware" for x in ast.walk(n.test)):
            ctor_refuses = True
    class_of = _class_lookup(repo, mod)
    for mname in ("add", "remove"):
        f = methods[mname]
        seen_keys: set[str] = set()
        # the entries of every log update, component by component, however the entry is spelt; where the components come out of a loop over rows that comprehensions
        # build, one alternative per comprehension (vlib/h_c18.LogSite): one obligation per (method, distinct context component of an alternative)
        for site in _h.log_sites(mod, f, log, _h.Entries(mod, f, class_of)):
            if site.entry is None or len(site.entry.elts) != 5:
                continue
            c = site.call
            for alt in site.alts:
                comp = alt[3]
                if norm(comp) in seen_keys:
                    continue
                seen_keys.add(norm(comp))
                ok, why = False, ""
                # a local stands for what is assigned to it (every assignment, transitively): `cid = ctx.identifier` in the enumeration loop and the entry (.., cid, ..)
                # is the same key as the entry (.., ctx.identifier, ..)
                leaves = _h.leaf_definitions(f, comp)
                derived: list[ast.expr] = []
                reported: list[str] = []
                for lf in leaves:
                    # the object whose attribute chain the leaf reads (`ctx` of ctx.identifier, `quad[3]` of quad[3].identifier): a part of the row of an enumeration?
                    base_e = lf
                    while isinstance(base_e, ast.Attribute):
                        base_e = base_e.value
                    src_ = _h.row_source(mod, f, base_e)
                    lp = src_[0] if src_ is not None else None
                    if lp is not None and any(_self_attr(x, wrapped) for x in ast.walk(lp.iter)):
                        reported.append(norm(lp.iter)[:60])
                    else:
                        derived.append(lf)
                if not derived:
                    ok, why = True, "the context the wrapped store itself reports for the quad (%s)" % "; ".join(sorted(set(reported)))
                elif ctor_refuses:
                    ok, why = True, "__init__ refuses a store that is not context aware"
                else:
                    # the tests a definition sits under count as consulted by it (`if ... and self.context_aware: key = ctx.identifier`)
                    tests = [p.test for v in derived if v is not comp for p in mod.parents(v) if isinstance(p, ast.If)]
                    reads = any(flag_is_wrapped_stores(v) for v in derived + tests)
                    none_arm = any(has_none_arm(v) for v in derived)
                    ok = reads and none_arm
                    why = "collapses to None when the wrapped store is not context aware" if ok else (
                        "the key's context component %s is the identifier of whatever graph the call came through, whether or not the wrapped store distinguishes graphs: "
                        "over a store with context_aware=False an add through one graph and a remove of the same triple through another leave two contradictory undo entries" % norm(comp))
                rep.ob("C18.k-log-key-is-the-wrapped-stores-quad", mod, "%s.%s" % (CLS, mname), "context component %s of the log key" % norm(comp), ok, why, node=c)

    # ------------------------------------------------------------------ (l)
    # Graph(store, None) is not `no context`: Graph.__init__ mints a fresh blank-node name for it.  add/remove write None into the log (operation without a context,
    # store that is not context aware), so nothing in this class may build a graph from an identifier that can be None.  mypy's narrowing decides `can be None`
    # (any guard form: ternary, if, early continue); an identifier mypy cannot type needs a syntactic `is not None` guard.
    rep.rule("C18.l-no-graph-from-a-none-identifier",
             "every construction of a graph with an explicit identifier in AuditableStore (Graph(store, id), ctx.__class__(store, id)) gets an identifier that cannot be "
             "None at that point; Graph(store, None) is a graph with a freshly minted blank-node name, which matches nothing: st = AuditableStore(Memory()); "
             "st.add(t, None) logs (t, None, 'remove'), and a rollback() that replays it as remove(t, Graph(store, None)) leaves t in the store "
             "(every entry of a store that is not context aware is logged with context None as well)", floor=6)

    def is_graph_ctor(c: ast.Call) -> bool:
        fn_ = c.func
        if isinstance(fn_, ast.Name):
            return typed.ref(mod.name, fn_) in gcls or fn_.id in {g.rsplit(".", 1)[-1] for g in gcls}
        if isinstance(fn_, ast.Attribute) and fn_.attr == "__class__":
            tf = typed.type_of(mod.name, c)
            return tf is None or tf.any or bool(set(tf.items) & gcls)
        return False

    def syntactic_guard(call: ast.AST, e: ast.expr) -> bool:
        want = norm(e)

        def conj(t: ast.expr, positive: bool) -> bool:
            if isinstance(t, ast.BoolOp) and isinstance(t.op, ast.And) and positive:
                return any(conj(v, True) for v in t.values)
            if isinstance(t, ast.UnaryOp) and isinstance(t.op, ast.Not):
                return conj(t.operand, not positive)
            if isinstance(t, ast.Compare) and len(t.ops) == 1 and isinstance(t.comparators[0], ast.Constant) and t.comparators[0].value is None and norm(t.left) == want:
                return isinstance(t.ops[0], ast.IsNot if positive else ast.Is)
            return False

        child = call
        for p in mod.parents(call):
            if isinstance(p, (ast.If, ast.IfExp)):
                body = p.body if isinstance(p.body, list) else [p.body]
                orelse = p.orelse if isinstance(p.orelse, list) else [p.orelse]
                if any(child is s for s in body) and conj(p.test, True):
                    return True
                if any(child is s for s in orelse) and conj(p.test, False):
                    return True
            if isinstance(p, (ast.FunctionDef, ast.AsyncFunctionDef, ast.Lambda)):
                break
            child = p
        return False

    for mname, f in methods.items():
        for c in own_nodes(f, include_nested=True):
            if not (isinstance(c, ast.Call) and is_graph_ctor(c)):
                continue
            ident = c.args[1] if len(c.args) > 1 else next((k.value for k in c.keywords if k.arg == "identifier"), None)
            if ident is None or (isinstance(ident, ast.Constant) and ident.value is not None):
                continue  # the all-contexts / default view over a store: no identifier involved
            bad = []
            for e in [ident] + [x for x in ast.walk(ident) if isinstance(x, ast.Name) and x is not ident]:
                tf = typed.type_of(mod.name, e)
                if isinstance(e, ast.Constant):
                    if e.value is None:
                        bad.append("None")
                    continue
                if tf is not None and not tf.any and not tf.optional:
                    continue
                if syntactic_guard(c, e):
                    continue
                bad.append("%s : %s" % (norm(e), tf.text if tf is not None else "untyped"))
            rep.ob("C18.l-no-graph-from-a-none-identifier", mod, "%s.%s" % (CLS, mname), c, not bad,
                   "identifier cannot be None here" if not bad else
                   "%s may be None where the graph is constructed: the result is a graph named by a fresh blank node, not `no context` - an undo entry logged "
                   "with context None is replayed against a graph that matches nothing" % "; ".join(bad), node=c)

    # ------------------------------------------------------------------ (m)
    # add/remove/triples/__len__ translate the graphs they are GIVEN to graphs over the wrapped store.  The graphs the class HANDS OUT must make the inverse trip:
    # a graph obtained from the wrapped store is bound to the wrapped store, whatever is done through it is neither logged nor undone.
    rep.rule("C18.m-graphs-handed-out-are-bound-to-the-wrapper",
             "every graph-typed value that a method of AuditableStore obtains from the wrapped store and yields/returns (contexts(), the context column of triples()) "
             "passes through a construction <cls>(self, identifier) first; a graph bound to the wrapped store bypasses the undo log: "
             "for g in ConjunctiveGraph(AuditableStore(m)).contexts(): g.add(t) - and SPARQL CLEAR/DROP, get_graph(), quads() graphs - is not undone by rollback()", floor=2)
    store_mod = repo.mod("rdflib.store")
    graph_txt = _re.compile(r"rdflib\.graph\.(\w+)")

    def graphish(e: ast.AST) -> bool | None:
        tf = typed.type_of(mod.name, e)
        if tf is None:
            return None
        if tf.any and not tf.items:
            return None
        return any("rdflib.graph." + m_ in gcls for m_ in graph_txt.findall(tf.text))

    def store_method_hands_out_graphs(name: str) -> bool:
        if not store_mod.has("Store." + name):
            return False
        r = store_mod.func("Store." + name).returns
        return r is not None and bool(_re.search(r"_ContextType|Graph", norm(r)))

    def builds_over_self(c: ast.AST) -> bool:
        if not (isinstance(c, ast.Call) and is_graph_ctor(c)):
            return False
        st = c.args[0] if c.args else next((k.value for k in c.keywords if k.arg == "store"), None)
        return isinstance(st, ast.Name) and st.id == "self"

    rebinders = {mn for mn, f in methods.items()
                 if any(isinstance(r, ast.Return) and r.value is not None and any(builds_over_self(x) for x in ast.walk(r.value)) for r in own_nodes(f))}

    def is_rebind(c: ast.AST) -> bool:
        if isinstance(c, ast.Call) and isinstance(c.func, ast.Name) and c.func.id == "map" and c.args and _self_attr(c.args[0]) and c.args[0].attr in rebinders:
            return True  # map(self.<rebinder>, graphs)
        return builds_over_self(c) or (isinstance(c, ast.Call) and _self_attr(c.func) and c.func.attr in rebinders)

    for mname, f in methods.items():
        if mname in rebinders:
            continue
        # names bound (directly or through loops / comprehensions / assignments) from a call on the wrapped store
        tainted: set[str] = set()

        def dirty(e: ast.AST) -> bool:
            return any(_wrapped_call(x, wrapped) is not None or (isinstance(x, ast.Name) and x.id in tainted) for x in ast.walk(e))

        changed = True
        while changed:
            changed = False
            for n in own_nodes(f, include_nested=True):
                tg: list[ast.AST] = []
                if isinstance(n, (ast.For, ast.comprehension)) and dirty(n.iter):
                    tg = [n.target]
                elif isinstance(n, ast.Assign) and dirty(n.value):
                    tg = list(n.targets)
                elif isinstance(n, (ast.AnnAssign, ast.NamedExpr)) and n.value is not None and dirty(n.value):
                    tg = [n.target]
                for t in tg:
                    for x in ast.walk(t):
                        if isinstance(x, ast.Name) and x.id not in tainted and x.id != "self":
                            tainted.add(x.id)
                            changed = True

        def leaks(e: ast.AST) -> list[str]:
            if is_rebind(e):
                return []
            if isinstance(e, ast.Call):
                w = _wrapped_call(e, wrapped)
                if w is not None:
                    return [norm(e)[:70]] if store_method_hands_out_graphs(w) or graphish(e) else []
                out: list[str] = []
                for a in list(e.args) + [k.value for k in e.keywords]:
                    out += leaks(a)
                return out
            if isinstance(e, (ast.GeneratorExp, ast.ListComp, ast.SetComp)):
                return leaks(e.elt)
            if isinstance(e, ast.DictComp):
                return leaks(e.key) + leaks(e.value)
            if isinstance(e, (ast.Name, ast.Attribute, ast.Subscript)):
                if not dirty(e):
                    return []
                g_ = graphish(e)
                if g_ is None:
                    return ["%s (untyped: cannot be shown not to be a graph of the wrapped store)" % norm(e)]
                return [norm(e)] if g_ else []
            out = []
            for ch in ast.iter_child_nodes(e):
                if isinstance(ch, ast.expr):
                    out += leaks(ch)
            return out

        def mentions_graph_of_wrapped(e: ast.AST) -> bool:
            for x in ast.walk(e):
                if isinstance(x, ast.Name) and x.id in tainted and graphish(x) is not False:
                    return True
                w = _wrapped_call(x, wrapped)
                if w is not None and store_method_hands_out_graphs(w) and x is e:
                    return True
                # what a graph-yielding method of the wrapped store gives, fed straight into the re-binding (map(self.<rebinder>, wrapped.contexts(..)), <rebinder>(wrapped.m(..))):
                # the same hand-out as the loop over it that re-binds one by one
                if isinstance(x, ast.Call) and is_rebind(x) and any(
                        (_wrapped_call(a, wrapped) or "") and store_method_hands_out_graphs(_wrapped_call(a, wrapped)) for a in list(x.args) + [k.value for k in x.keywords]):
                    return True
            return False

        for n in own_nodes(f, include_nested=True):
            if isinstance(n, (ast.Yield, ast.YieldFrom, ast.Return)) and n.value is not None:
                lk = leaks(n.value)
                if not lk and not mentions_graph_of_wrapped(n.value):
                    continue
                rep.ob("C18.m-graphs-handed-out-are-bound-to-the-wrapper", mod, "%s.%s" % (CLS, mname), n, not lk,
                       "graphs of the wrapped store are re-bound to this store before they leave" if not lk else
                       "%s hands out %s as the wrapped store made it: a graph bound to self.%s, so add/remove through it (ConjunctiveGraph.contexts()/get_graph()/quads(), "
                       "SPARQL CLEAR/DROP) are not logged and rollback() does not undo them" % (mname, ", ".join(lk), wrapped), node=n)


# ---------------------------------------------------------------------------------------------------------------------
# fourth layer: views that need a context-aware store (n), the undo log holds what the wrapped store reports, never the pattern (o)

_run_base3 = run


def run(repo: Repo, rep: Report) -> None:  # noqa: F811
    _layer(rep, _run_base3, repo)
    mod = repo.mod("rdflib.plugins.stores.auditable")
    CLS = "AuditableStore"
    methods = mod.methods(CLS)
    log, wrapped = _anchors(methods)
    init = methods["__init__"]
    store_param = init.args.args[1].arg
    typed = repo.typed
    FLAG = "context_aware"

    # does __init__ copy the wrapped store's flag to the wrapper (self.context_aware = store.context_aware)?
    copies_flag = any(
        isinstance(n, ast.Assign) and any(_h.self_attr(t, FLAG) for t in n.targets) and isinstance(n.value, ast.Attribute) and n.value.attr == FLAG
        and ((isinstance(n.value.value, ast.Name) and n.value.value.id == store_param) or _h.self_attr(n.value.value, wrapped))
        for n in own_nodes(init))

    def flag_reader(fn: ast.AST):
        def is_flag(e: ast.AST, _depth: int = 0) -> bool:
            if isinstance(e, ast.Attribute) and e.attr == FLAG:
                return _h.self_attr(e.value, wrapped) or (copies_flag and _h.self_attr(e))
            if isinstance(e, ast.Name) and _depth < 3:
                ds = _defs_of(fn, e.id)
                return bool(ds) and all(is_flag(d, _depth + 1) for d in ds)
            return False
        return is_flag

    # ------------------------------------------------------------------ (n)
    # ConjunctiveGraph.__init__ asserts store.context_aware (Dataset inherits it).  The wrapper takes ANY store (Memory-like stores that keep one set of triples,
    # another AuditableStore over such a store), so an all-contexts view over the wrapped store may only be built where the flag is known to hold.
    graph_mod = repo.mod("rdflib.graph")
    need = {"rdflib.graph." + q for q in _h.classes_asserting(graph_mod, FLAG)}
    if not need:
        raise AnalysisError("no graph class whose __init__ asserts store.%s found in rdflib/graph.py (ConjunctiveGraph)" % FLAG)
    for b in list(need):
        need |= set(typed.subclasses(b))
    short = {q.rsplit(".", 1)[-1] for q in need}
    rep.rule("C18.n-all-contexts-view-only-over-a-context-aware-store",
             "every construction of a graph class whose __init__ asserts store.context_aware (ConjunctiveGraph, Dataset) over the wrapped store or over the wrapper itself, in "
             "any method of AuditableStore, is evaluated only where the wrapped store's context_aware flag is known to be true (an if/ternary/assert on the flag dominates "
             "it); the wrapper accepts stores that are not context aware: inner = AuditableStore(SimpleMemory()); outer = AuditableStore(inner); "
             "Graph(outer).add(t); outer.rollback() calls inner.remove(t, None), which without the guard builds ConjunctiveGraph(SimpleMemory) -> AssertionError, "
             "the transaction is neither rolled back nor cleared", floor=1)

    def over_wrapped(fn: ast.AST, e: ast.AST | None, _depth: int = 0) -> bool:
        if e is None:
            return False
        if _h.self_attr(e, wrapped) or (isinstance(e, ast.Name) and e.id == "self"):
            return True
        if isinstance(e, ast.Name) and _depth < 3:
            ds = _defs_of(fn, e.id)
            return bool(ds) and any(over_wrapped(fn, d, _depth + 1) for d in ds)
        return False

    for mname, f in methods.items():
        g = None
        is_flag = flag_reader(f)
        for c in own_nodes(f, include_nested=True):
            if not isinstance(c, ast.Call):
                continue
            fn_ = c.func
            if not ((isinstance(fn_, (ast.Name, ast.Attribute)) and typed.ref(mod.name, fn_) in need) or (isinstance(fn_, ast.Name) and fn_.id in short)
                    or (isinstance(fn_, ast.Attribute) and fn_.attr in short and typed.ref(mod.name, fn_) is None)):
                continue
            st = c.args[0] if c.args else next((k.value for k in c.keywords if k.arg == "store"), None)
            if not over_wrapped(f, st):
                continue
            if g is None:
                g = CFG(f)
            ok = _h.holds_at(mod, f, g, c, is_flag)
            rep.ob("C18.n-all-contexts-view-only-over-a-context-aware-store", mod, "%s.%s" % (CLS, mname), c, ok,
                   "reached only where the wrapped store is known to be context aware" if ok else
                   "%s is built on a path on which the wrapped store may not be context aware: its __init__ asserts store.%s, so %s() over a store that keeps one set of "
                   "triples (or over another AuditableStore over one - the call an outer rollback() issues) dies with AssertionError before anything is logged or removed"
                   % (norm(c)[:60], FLAG, mname), node=c)

    # ------------------------------------------------------------------ (o)
    # remove() takes a PATTERN.  What a position of the pattern means is the wrapped store's business: None is a wildcard for every store, a REGEXTerm is one for the
    # REGEXMatching store, ...  `None in [s, p, o]` therefore does not tell a pattern from a triple; the only description of what is about to be removed is what the wrapped
    # store enumerates for the pattern.  So no component of the pattern parameter may flow into the triple positions of an undo entry.
    rep.rule("C18.o-undo-entries-are-reported-triples-not-the-pattern",
             "in every method of AuditableStore that takes a triple pattern (remove), the subject/predicate/object of every undo-log entry (cancelled or appended) are names "
             "bound by a loop that enumerates the wrapped store, never the components of the pattern parameter: over REGEXMatching(Memory()), "
             "remove((REGEXTerm('.*alice'), knows, bob), ctx) contains no None, an entry built from the parameters logs (REGEXTerm('.*alice'), knows, bob, ctx, 'add'), and rollback() "
             "inserts the pattern itself as a triple while none of the triples the store removed comes back", floor=4)

    def takes_pattern(mname: str, f: ast.FunctionDef) -> bool:
        if len(f.args.args) < 2:
            return False
        if mname == "remove":
            return True
        a = f.args.args[1].annotation
        return a is not None and "Pattern" in norm(a)

    for mname, f in methods.items():
        if not takes_pattern(mname, f):
            continue
        if mname == "remove" and not any(_is_log_call(c, log) for c in own_nodes(f)):
            raise AnalysisError("AuditableStore.remove no longer updates the undo log self.%s" % log)
        tainted = _h.pattern_tainted(f, f.args.args[1].arg)
        for site in _h.log_sites(mod, f, log, _h.Entries(mod, f, _class_lookup(repo, mod))):
            c = site.call
            if site.entry is None or len(site.entry.elts) < 4:
                continue  # not the (s, p, o, ctx, tag) layout: C18.b reports it
            # one obligation per row the entry can stand for (a loop over rows built by comprehensions: the row expressions of each comprehension)
            for alt in site.alts:
                bad = []
                def enumerates_wrapped(lp) -> bool:
                    return any(_h.self_attr(y, wrapped) or (isinstance(y, ast.Call) and _h.self_attr(y.func) and y.func.attr in ("triples", "quads")) for y in ast.walk(lp.iter))

                for pos in alt[:3]:
                    # a part of the row of a loop that enumerates the wrapped store, however it is taken out of the row (loop target name, row[i], local unpacked from row[i])
                    src_ = _h.row_source(mod, f, pos)
                    if src_ is not None and enumerates_wrapped(src_[0]):
                        continue
                    names_ = [x for x in ast.walk(pos) if isinstance(x, ast.Name)]
                    if not names_:
                        bad.append("%s is not a value the wrapped store reported" % norm(pos))
                        continue
                    for x in names_:
                        lp = _h.binder_of(mod, f, x)
                        if lp is not None and any(_h.self_attr(y, wrapped) or (isinstance(y, ast.Call) and _h.self_attr(y.func) and y.func.attr in ("triples", "quads"))
                                                  for y in ast.walk(lp.iter)):
                            continue
                        if x.id in tainted:
                            bad.append("%s is a component of the pattern parameter %s" % (x.id, f.args.args[1].arg))
                        else:
                            bad.append("%s is not bound by an enumeration of the wrapped store" % x.id)
                rep.ob("C18.o-undo-entries-are-reported-triples-not-the-pattern", mod, "%s.%s" % (CLS, mname),
                       c if len(site.alts) == 1 else "%s for %s" % (norm(c)[:80], "/".join(norm(x) for x in alt[:4])[:60]), not bad,
                       "the entry's triple is one the wrapped store enumerated for the pattern" if not bad else
                       "%s: the undo entry describes the pattern, not what the wrapped store removes for it - a term the wrapped store interprets itself (REGEXTerm of the "
                       "REGEXMatching store) is logged as if it were the one triple removed, rollback() adds the pattern as a triple and restores nothing" % "; ".join(bad), node=c)
