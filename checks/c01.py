"""C01 - a Graph is the set its history implies: structural part (DESIGN.md §2 C01)."""
from __future__ import annotations

import ast

from vlib import roles, truthy
from vlib.core import AnalysisError, Repo, Report, norm, own_nodes

EXPLANATION = (
    "Abstract interpretation of the in-memory stores (vlib/h_c01.py, value flow through aliases, get/setdefault and the private methods of the "
    "class): the three triple indexes are discovered by role from add(); their declared key orders must be permutations of S,P,O; remove() must delete the same paths; "
    "triples() is interpreted once for each of the 8 bound/unbound pattern shapes and every yield must be justified "
    "by a complete membership chain in one index, carry the pattern term in every bound position, enumerate every "
    "unbound position from an index level, and (context-aware store) pass the per-triple context filter. Also: "
    "boundness is decided by identity; on the default store every loop that yields iterates a snapshot and no inner "
    "index level is pruned; the shared default-context dict is copy-on-write; Graph's binary operators build the "
    "Venn regions they name into a fresh graph; Graph.add/remove/triples/__len__/__contains__ forward the pattern "
    "unchanged with context=self. The contextTriples/tripleContexts invariant over all histories is not decided."
)


def _rules_abd(repo: Repo, rep: Report) -> None:
    from vlib import h_c01 as H

    mem = repo.mod("rdflib.plugins.stores.memory")
    # ------------------------------------------------------------------ (a)
    rep.rule("C01.a-index-orders",
             "each of the three indexes is written by add() through a permutation of (S,P,O), all three on the path "
             "where the triple is new, and remove() deletes exactly those paths for a triple obtained from self.triples()", floor=12)
    rep.rule("C01.b-pattern-shapes",
             "for each of the 8 bound/unbound shapes, triples() yields only triples justified by a complete membership "
             "chain of one index, with the pattern term in each bound position, each unbound position enumerated from an "
             "index level, and the per-triple context filter applied; every shape reaches at least one yield; no "
             "unmodelled condition, loop or statement lies on the way to a yield", floor=30)
    rep.rule("C01.d-snapshot-before-yield",
             "on the default store every loop of triples() that (transitively) yields iterates a snapshot "
             "(list/tuple/sorted(...) or .copy()), and remove() never deletes an inner index level (only depth-3 entries)", floor=10)
    for cls, ctx_aware in (("Memory", True), ("SimpleMemory", False)):
        # which attribute is keyed by which components at which level is a fact about the values that reach the subscripts, whatever the
        # spelling (try/except ladder, setdefault chain, a helper that returns the next level, local aliases): vlib/h_c01.StoreFlow
        orders, conflicts = H.index_orders(mem, cls)
        rep.analysed("rdflib/plugins/stores/memory.py:%s.add" % cls, "rdflib/plugins/stores/memory.py:%s.remove" % cls, "rdflib/plugins/stores/memory.py:%s.triples" % cls)
        if len(orders) != 3:
            raise AnalysisError("%s: expected 3 indexes discovered from add(), found %s" % (cls, orders))
        rep.info["%s_index_orders" % cls] = {k: "".join(v) for k, v in orders.items()}
        firsts = sorted(o[0] for o in orders.values())
        rep.ob("C01.a-index-orders", mem, cls + ".add", "indexes %s" % {k: "".join(v) for k, v in orders.items()}, firsts == ["O", "P", "S"],
               "one index per leading position S, P, O" if firsts == ["O", "P", "S"] else "indexes do not lead with S, P and O each: %s" % firsts, node=mem.func(cls + ".add"))
        addf = mem.func(cls + ".add")
        for attr, order in orders.items():
            other = [c[2] for c in conflicts if c[0] == attr]
            rep.ob("C01.a-index-orders", mem, cls + ".add", "write %s[%s]" % (attr, "][".join(order)), not other,
                   "declared order " + "".join(order) if not other else "add() writes %s through the keys %s as well: the pattern shapes that read it by %s miss those entries" % (attr, other, "".join(order)), node=addf)
        # remove: what it deletes, for a triple it obtained from self.triples(), itself or through the methods of the class it hands the triple to
        rmf = mem.func(cls + ".remove")
        fl = H.StoreFlow(mem, cls, H.context_key_methods(mem, cls))
        fl.enter("remove", {})
        src_ok = any(e.kind == "enumerate" for e in fl.events) and fl.unpacked == set(H.ROLES)
        rep.ob("C01.a-index-orders", mem, cls + ".remove", "removes the triples enumerated by self.triples(pattern)", src_ok,
               "wildcards expanded through triples()" if src_ok else "remove() does not iterate self.triples(pattern) and unpack (s,p,o)", node=rmf)
        dels: dict[str, set] = {}
        shallow = []
        del_stmts = []
        for e in fl.events:
            if e.attr not in orders:
                continue
            if e.kind in ("del", "pop"):
                del_stmts.append(e.stmt)
                if len(e.keys) == 3:
                    dels.setdefault(e.attr, set()).add(e.keys)
                else:
                    shallow.append((e.node, e.attr, e.keys))
            elif e.kind in ("popitem", "clear"):
                shallow.append((e.node, e.attr, ("depth", len(e.keys))))
        for attr, order in orders.items():
            ok = dels.get(attr) == {order}
            rep.ob("C01.a-index-orders", mem, cls + ".remove", "del %s[%s]" % (attr, "][".join(order)), ok,
                   "deletes the declared path" if ok else "remove() deletes %s with keys %s but add() writes %s: the index keeps a stale entry that the pattern shapes reading it still see" % (attr, sorted(dels.get(attr, ())) or None, order), node=rmf)
        # --- bulk clears: an index is never emptied alone
        clears: dict[int, set] = {}
        cnode: dict[int, ast.AST] = {}
        for e in fl.events:
            if e.attr in orders and not e.keys and e.kind in ("clear", "rebind"):
                blk = id(mem.parent.get(id(e.stmt)))
                clears.setdefault(blk, set()).add(e.attr)
                cnode.setdefault(blk, e.node)
        for blk, got in clears.items():
            okc = got == set(orders)
            rep.ob("C01.a-index-orders", mem, cls + ".remove", cnode[blk], okc,
                   "all three indexes emptied together" if okc else "only %s are emptied, %s keeps its entries: the pattern shapes reading it still return the removed triples" % (sorted(got), sorted(set(orders) - got)), node=cnode[blk])
        # --- all deletes of the three indexes sit in one block
        blocks = {id(mem.parent.get(id(st))) for st in del_stmts}
        rep.ob("C01.a-index-orders", mem, cls + ".remove", "the three index deletes are in one block", len(blocks) == 1,
               "indexes updated together" if len(blocks) == 1 else "index deletes are spread over %d blocks: a path can update some indexes and not others" % len(blocks), node=rmf)
        if cls == "Memory":
            for n, a, rr in shallow:
                rep.ob("C01.d-snapshot-before-yield", mem, cls + ".remove", n, False,
                       "removes an inner level of index %s (%s): an open triples() iterator that snapshotted the outer keys then subscripts a pruned key (KeyError) " % (a, rr), node=n)
            if not shallow:
                rep.ob("C01.d-snapshot-before-yield", mem, cls + ".remove", "no inner index level is pruned", True, "only depth-3 entries are deleted, outer key snapshots stay valid keys", node=rmf)

        # ------------------------------------------------------------ shapes
        ti = H.PatternInterp(mem, cls, orders, ctx_aware, repo)
        per_shape = {}
        for b in H.shapes():
            before = len(ti.yields)
            ti.run_shape(b)
            shape = "".join(r if b[r] else "-" for r in H.ROLES)
            per_shape[shape] = len(ti.yields) - before
        for shape, n in sorted(per_shape.items()):
            rep.ob("C01.b-pattern-shapes", mem, cls + ".triples", "shape %s reaches %d yield(s)" % (shape, n), n > 0,
                   "reachable" if n else "no yield is reachable for pattern shape %s: matching triples are never returned" % shape, node=ti.fn)
        seen = set()
        for y in ti.yields:
            key = (y.shape, id(y.node), y.via)  # one obligation per way a shape reaches the yield (through which yield of a generator it consumes)
            if key in seen:
                continue
            seen.add(key)
            rep.ob("C01.b-pattern-shapes", ti.mod_of(y.node), cls + ".triples", "shape %s: yield %s" % (y.shape, norm(y.node.value)[:60]), not y.problems,
                   "justified by index %s" % y.index if not y.problems else "; ".join(y.problems), node=y.node)
            if cls == "Memory":
                for loop, snap in y.loops:
                    lk = ("loop", id(loop))
                    if lk in seen:
                        continue
                    seen.add(lk)
                    rep.ob("C01.d-snapshot-before-yield", ti.mod_of(loop), cls + ".triples", "for %s in %s" % (norm(loop.target), norm(loop.iter)), snap,
                           "iterates a snapshot" if snap else "yields while iterating live store state: a mutation during iteration raises `dictionary changed size during iteration`", node=loop)
        useen = set()
        for node, why in ti.unmodelled:
            k = (id(node), why)
            if k in useen:
                continue
            useen.add(k)
            rep.ob("C01.b-pattern-shapes", ti.mod_of(node), cls + ".triples", node if not isinstance(node, (ast.If, ast.For, ast.Try)) else norm(node).split(":")[0], False,
                   "unjustified construct on the way to a yield: " + why, node=node)
        for t in ti.truthy_tests:
            rep.ob("C01.b-pattern-shapes", mem, cls + ".triples", t, False,
                   "boundness of a pattern position decided by truthiness: a bound falsy term (Literal(0), Literal('')) is treated as a wildcard", node=t)


def _rules_c(repo: Repo, rep: Report) -> None:
    mem = repo.mod("rdflib.plugins.stores.memory")
    gm = repo.mod("rdflib.graph")
    # ------------------------------------------------------------------ (c)
    rep.rule("C01.c-boundness-by-identity",
             "in the in-memory stores and the Graph add/remove/pattern methods, None-ness of terms and contexts is decided by identity", floor=15)
    for cls in ("Memory", "SimpleMemory"):
        for m, f in mem.methods(cls).items():
            truthy.scan(repo, rep, "C01.c-boundness-by-identity", mem, f, "%s.%s" % (cls, m), require_optional=False)
    for q in ("Graph.add", "Graph.addN", "Graph.remove", "Graph.triples", "Graph.__contains__", "Graph.__len__", "Graph.__iter__", "Graph.set",
              "Graph.__iadd__", "Graph.__isub__", "Graph.__add__", "Graph.__sub__", "Graph.__mul__", "Graph.__xor__", "Graph.__getitem__",
              "Graph.subjects", "Graph.predicates", "Graph.objects", "Graph.subject_objects", "Graph.subject_predicates", "Graph.predicate_objects", "Graph.value"):
        truthy.scan(repo, rep, "C01.c-boundness-by-identity", gm, gm.func(q), q)
        rep.analysed("rdflib/graph.py:" + q)


def _rules_e(repo: Repo, rep: Report) -> None:
    mem = repo.mod("rdflib.plugins.stores.memory")
    # ------------------------------------------------------------------ (e)
    rep.rule("C01.e-default-contexts-copy-on-write",
             "the per-triple context map only ever stores dict displays or .copy() results, and no statement mutates "
             "in place a dict that may be the shared default-context dict (subscript store / del on a value obtained "
             "from the default-context attribute without .copy())", floor=4)
    # the two attributes by what add() does with them, not by what they are called (vlib/h_c01.context_state): the per-triple map is where add()
    # stores an entry under the triple; the default-context attribute is the one add() binds to such an entry
    from vlib import h_c01 as H

    tc, dflts = H.context_state(mem, "Memory")
    if tc is None or len(dflts) != 1:
        raise AnalysisError("Memory.add: the per-triple context map / the shared default-context attribute are not recognised (map %s, default %s)" % (tc, sorted(dflts)))
    dflt = next(iter(dflts))
    rep.info["Memory_context_state"] = {"per_triple_map": tc, "default_contexts": dflt}
    for m, f in mem.methods("Memory").items():
        may_alias: set[str] = set()
        for n in own_nodes(f):
            if isinstance(n, ast.Assign):
                v = n.value
                # x = self.__tripleContexts.get(t, self.__defaultContexts)  /  x = self.__defaultContexts
                src = norm(v)
                names = [t.id for t in n.targets if isinstance(t, ast.Name)]
                if ("self." + dflt) in src and not (isinstance(v, ast.Call) and isinstance(v.func, ast.Attribute) and v.func.attr == "copy"):
                    may_alias.update(names)
        for n in own_nodes(f):
            # stores into the per-triple map
            if isinstance(n, ast.Assign):
                for t in n.targets:
                    if isinstance(t, ast.Subscript) and roles.self_attr(t.value) == tc:
                        v = n.value
                        ok = isinstance(v, ast.Dict) or (isinstance(v, ast.Call) and isinstance(v.func, ast.Attribute) and v.func.attr == "copy") \
                            or (isinstance(v, ast.Name) and v.id not in may_alias)
                        rep.ob("C01.e-default-contexts-copy-on-write", mem, "Memory." + m, n, ok,
                               "stores a fresh dict / a copy" if ok else "stores a dict that may be the shared default-context dict itself", node=n)
            # in-place edits of possibly-shared dict
            tgt = None
            if isinstance(n, ast.Assign):
                for t in n.targets:
                    if isinstance(t, ast.Subscript) and isinstance(t.value, ast.Name) and t.value.id in may_alias:
                        tgt = n
            if isinstance(n, ast.Delete):
                for t in n.targets:
                    if isinstance(t, ast.Subscript) and isinstance(t.value, ast.Name) and t.value.id in may_alias:
                        tgt = n
            if tgt is not None:
                rep.ob("C01.e-default-contexts-copy-on-write", mem, "Memory." + m, tgt, False,
                       "edits in place a dict that may be the default-context dict shared by every triple without its own entry", node=tgt)
            if isinstance(n, ast.Assign) and any(isinstance(t, ast.Subscript) and roles.self_attr(t.value) == dflt for t in n.targets):
                rep.ob("C01.e-default-contexts-copy-on-write", mem, "Memory." + m, n, False, "writes into the shared default-context dict", node=n)


def _rules_h(repo: Repo, rep: Report) -> None:
    from vlib import h_c01 as H
    from vlib.cfg import CFG

    mem = repo.mod("rdflib.plugins.stores.memory")
    # ------------------------------------------------------------------ (h)
    rep.rule("C01.h-context-maps-updated-together",
             "the per-triple context map (read by the seven bound shapes through the context filter) and the per-context triple set (read by "
             "the all-unbound shape and len()) are updated together: every normal path of add() - through the methods of the store it calls - "
             "records the key of the requested context in the triple's map and adds the triple to that context's set; the method that takes "
             "the triple out of a context's set (the one remove() hands the triple to) removes the same key from the triple's map on every normal path", floor=4)
    cls = "Memory"
    meths = mem.methods(cls)
    keym = H.context_key_methods(mem, cls)
    if not keym:
        raise AnalysisError("Memory: the method that turns the `context` argument of triples()/remove()/__len__() into the key of the context is not recognised")
    addf = mem.func(cls + ".add")
    ps = [a.arg for a in addf.args.posonlyargs + addf.args.args]
    fl = H.StoreFlow(mem, cls, keym)
    fl.enter("add", {ps[1]: {H.TRIPLE}})
    index_attrs = {e.attr for e in fl.events if e.kind == "write" and len(e.keys) == 3 and all(k in H.ROLES for k in e.keys)}
    set_adds = [e for e in fl.events if e.kind == "mut" and e.how == "add" and H.TRIPLE in e.arg and len(e.keys) == 1]
    cts = {e.attr for e in set_adds}
    if len(cts) != 1:
        raise AnalysisError("Memory.add: the per-context triple set (the attribute add() files the triple in, by context key) is not recognised: %s" % sorted(cts))
    ct = cts.pop()
    map_writes = [e for e in fl.events if e.kind == "write" and e.attr != ct and e.attr not in index_attrs and e.keys == ("T", "K")]

    def on_every_path(entry: str, sites: list) -> bool:
        """every normal path through method `entry` executes one of the sites, in the method itself or in a method of the class that it calls on that path"""
        memo: dict = {}

        def surely(name: str) -> bool:
            if name in memo:
                return memo[name]
            memo[name] = False  # a cycle proves nothing
            f = meths[name]
            g = CFG(f)
            nodes = {g.node_of(e.node, mem) for e in sites if e.fn is f}
            for c in own_nodes(f):
                if isinstance(c, ast.Call):
                    r = H.class_callee(meths, cls, f, c)
                    if r is not None and r[0] != name and surely(r[0]):
                        nodes.add(g.node_of(c, mem))
            memo[name] = bool(nodes) and g.exit not in g.reach(g.entry, avoid=nodes)
            return memo[name]

        return surely(entry)

    where = sorted({e.qual for e in set_adds if e.keys == ("K",)}) or [cls + ".add"]
    ok = on_every_path("add", [e for e in set_adds if e.keys == ("K",)])
    rep.ob("C01.h-context-maps-updated-together", mem, where[0], "self.%s[<key of the context>].add(triple) on every path of add()" % ct, ok,
           "" if ok else "a path through add() returns without adding the triple to the requested context's triple set: len() and the all-unbound pattern miss it", node=meths[where[0].split(".", 1)[1]])
    where = sorted({e.qual for e in map_writes}) or where
    ok = on_every_path("add", map_writes)
    rep.ob("C01.h-context-maps-updated-together", mem, where[0], "the triple's context map gets <key of the context> on every path of add()", ok,
           "" if ok else "a path through add() returns without recording the context in the triple's context map: the bound pattern shapes filter the triple out of that graph", node=meths[where[0].split(".", 1)[1]])
    for e in set_adds + map_writes:
        rep.analysed("rdflib/plugins/stores/memory.py:" + e.qual)
    # remove side
    fr = H.StoreFlow(mem, cls, keym)
    fr.enter("remove", {})
    set_rems = [e for e in fr.events if e.kind == "mut" and e.how in ("remove", "discard") and e.attr == ct and H.TRIPLE in e.arg and len(e.keys) == 1]
    if not set_rems:
        rep.ob("C01.h-context-maps-updated-together", mem, cls + ".remove", "self.%s[ctx].remove(triple)" % ct, False,
               "remove() never takes the triple out of a context's triple set: len() and full iteration still report it", node=meths["remove"])
    for G in {id(e.fn): e.fn for e in set_rems}.values():
        evs = [e for e in set_rems if e.fn is G]
        qual = evs[0].qual
        rep.analysed("rdflib/plugins/stores/memory.py:" + qual)
        g = CFG(G)
        for kt in sorted({e.texts[-1] for e in evs}):
            rnodes = {g.node_of(e.node, mem) for e in evs if e.texts[-1] == kt}
            dnodes = {g.node_of(n, mem) for n in own_nodes(G) if isinstance(n, ast.Delete)
                      and any(isinstance(t, ast.Subscript) and norm(t.slice) == kt and roles.self_attr(_root(t)) != ct for t in n.targets)}
            if G is not meths["remove"]:
                # a method of its own: it is called for one (triple, context) and does both, whatever path it takes
                verdicts = [("del ctxs[%s]" % kt, dnodes, "the context stays in the triple's map"),
                            ("self.%s[%s].remove(triple)" % (ct, kt), rnodes, "the triple stays in the context's triple set (len() and full iteration still report it)")]
                for what, nodes, msg in verdicts:
                    ok = bool(nodes) and g.exit not in g.reach(g.entry, avoid=nodes)
                    rep.ob("C01.h-context-maps-updated-together", mem, qual, what + " on every path", ok, "" if ok else "a path returns although " + msg, node=G)
            else:
                # written out inside remove(), per context inside its loops: the two updates go together - no path reaches the one without the
                # other, and none leaves the iteration (or the method) between them
                for what, first, second, msg in (("del ctxs[%s]" % kt, dnodes, rnodes, "the context stays in the triple's map"),
                                                 ("self.%s[%s].remove(triple)" % (ct, kt), rnodes, dnodes, "the triple stays in the context's triple set (len() and full iteration still report it)")):
                    ok = bool(first) and bool(second) and all(_paired(g, mem, G, a, first) for a in second)
                    rep.ob("C01.h-context-maps-updated-together", mem, qual, what + " whenever the other is done", ok, "" if ok else "a path does one update and not the other: " + msg, node=G)
    # len() and the all-unbound shape read the same per-context set
    lf = mem.func("Memory.__len__")
    fle = H.StoreFlow(mem, cls, keym)
    fle.enter("__len__", {})
    ok = any(e.kind == "read" and e.attr == ct and e.keys == ("K",) for e in fle.events)
    rep.ob("C01.h-context-maps-updated-together", mem, "Memory.__len__", "len() counts self.%s[ctx]" % ct, ok, "" if ok else "__len__ no longer counts the per-context triple set", node=lf)


def _paired(g, mod, fn, a: int, partners: set) -> bool:
    """statement node a goes together with one of `partners`: one of them lies on every path to a and a on every path from it to the end of the
    iteration / of the method, or the other way round"""
    head = None
    if g.nodes[a].ast is not None:
        for p in mod.parents(g.nodes[a].ast):
            if isinstance(p, (ast.For, ast.AsyncFor, ast.While)) and id(p) in g.by_ast:
                head = g.by_ast[id(p)]
                break
            if p is fn:
                break
    ends = {g.exit} | ({head} if head is not None else set())
    for b in partners:
        if b == a:
            return True
        if a not in g.reach(g.entry, avoid={b}) and not (ends & g.reach(b, avoid={a})):
            return True
        if b not in g.reach(g.entry, avoid={a}) and not (ends & g.reach(a, avoid={b})):
            return True
    return False


def _rules_f(repo: Repo, rep: Report) -> None:
    from vlib import h_c01 as H
    from vlib.cfg import CFG

    gm = repo.mod("rdflib.graph")
    # ------------------------------------------------------------------ (f)
    rep.rule("C01.f-set-operators",
             "Graph.__add__/__mul__/__sub__/__xor__ build exactly union / intersection / difference / symmetric difference "
             "into a FRESH graph on every return; __iadd__/__isub__/set reduce to addN / remove / remove-then-add on self", floor=8)
    want = {"__add__": {"A", "B", "AB"}, "__mul__": {"AB"}, "__sub__": {"A"}, "__xor__": {"A", "B"}}
    venn_cache: dict[str, set] = {}
    gmeths = gm.methods("Graph")
    # what a name / dotted name used as a callable denotes, through the imports of the module (itertools.chain however it was imported)
    denotes_mod = H.Denotes(gm)

    def fresh_ctor(fn: ast.FunctionDef, e: ast.AST, depth: int = 0) -> bool:
        """e, evaluated in method fn, is a graph nobody else holds yet: a constructor call without arguments of the receiver's class
        (type(self)(), self.__class__()) or of Graph, or a call of a method of the class on the receiver every return of which is such a value"""
        if not isinstance(e, ast.Call):
            return False
        me = H.self_name(fn)
        if not e.args and not e.keywords and (norm(e.func) in ("type(%s)" % me, "%s.__class__" % me, "Graph")):
            return True
        r = H.class_callee(gmeths, "Graph", fn, e)
        if r is None or depth > 2:
            return False
        callee = r[1]
        rets = [n for n in own_nodes(callee) if isinstance(n, ast.Return)]
        if not rets:
            return False
        g = CFG(callee)
        if g.exit in g.reach(g.entry, avoid={g.node_of(x, gm) for x in rets}):
            return False  # a path falls off the end: None
        binds = H._bindings(callee)
        for x in rets:
            v = x.value
            if isinstance(v, ast.Name) and v.id not in H.param_names(callee) and binds.get(v.id) and all(how == "assign" and fresh_ctor(callee, b, depth + 1) for how, b in binds[v.id]):
                continue
            if v is None or not fresh_ctor(callee, v, depth + 1):
                return False
        return True

    def venn(name: str) -> set:
        if name in venn_cache:
            return venn_cache[name]
        f = gm.func("Graph." + name)
        rep.analysed("rdflib/graph.py:Graph." + name)
        params = [a.arg for a in f.args.args]
        A, B = params[0], params[1]
        fresh: set[str] = set()
        built: set[str] = set()
        regions: set[str] = set()

        def expr_regions(e) -> set | None:
            if isinstance(e, ast.BinOp):
                l, r = e.left, e.right
                opn = {ast.Add: "__add__", ast.Sub: "__sub__", ast.Mult: "__mul__", ast.BitXor: "__xor__", ast.BitOr: "__add__", ast.BitAnd: "__mul__"}.get(type(e.op))
                if opn is None:
                    return None
                lr, rr = expr_regions(l), expr_regions(r)
                if lr is None or rr is None:
                    return None
                if opn == "__add__":
                    return lr | rr
                if opn == "__mul__":
                    return lr & rr
                if opn == "__sub__":
                    return lr - rr
                return (lr | rr) - (lr & rr)
            if isinstance(e, ast.Name):
                if e.id == A:
                    return {"A", "AB"}
                if e.id == B:
                    return {"B", "AB"}
            return None

        preds: dict[str, tuple] = {}
        denotes = denotes_mod.within(gm, f)

        def pred_of(e: ast.AST, f=None) -> tuple | None:
            """(operand, True) when the callable e answers `x in operand` for its argument x, (operand, False) when it answers `x not in operand`:
            operand.__contains__, functools.partial(operator.contains, operand), a lambda whose body is that test, a local bound once to one of them"""
            if isinstance(e, ast.Name) and e.id in preds:
                return preds[e.id]
            if isinstance(e, ast.Attribute) and e.attr == "__contains__" and isinstance(e.value, ast.Name) and e.value.id in (A, B):
                return (e.value.id, True)
            if isinstance(e, ast.Call) and denotes(e.func) == "functools.partial" and len(e.args) == 2 and not e.keywords \
                    and denotes(e.args[0]) == "operator.contains" and isinstance(e.args[1], ast.Name) and e.args[1].id in (A, B):
                return (e.args[1].id, True)
            if isinstance(e, ast.Lambda) and len(e.args.args) == 1 and not (e.args.posonlyargs or e.args.kwonlyargs or e.args.vararg or e.args.kwarg or e.args.defaults):
                x, t = e.args.args[0].arg, e.body
                neg = False
                while isinstance(t, ast.UnaryOp) and isinstance(t.op, ast.Not):
                    neg, t = not neg, t.operand
                if x not in (A, B) and isinstance(t, ast.Compare) and len(t.ops) == 1 and isinstance(t.ops[0], (ast.In, ast.NotIn)) and isinstance(t.left, ast.Name) \
                        and t.left.id == x and isinstance(t.comparators[0], ast.Name) and t.comparators[0].id in (A, B):
                    return (t.comparators[0].id, isinstance(t.ops[0], ast.In) != neg)
            return None

        def keep(segs: list, pred: tuple) -> list:
            """the segments of a stream of triples after keeping those for which the membership predicate holds"""
            g_, positive = pred
            out = []
            for src_, base in segs:
                if g_ == src_:  # a triple enumerated from an operand is in that operand
                    out.append((src_, set(base) if positive else set()))
                else:
                    out.append((src_, (base & {"AB"}) if positive else (base - {"AB"})))
            return out

        def sources(it: ast.AST) -> list | None:
            """the stream of triples the iterable enumerates, as segments (operand they come from, Venn regions they lie in): an operand, a snapshot or
            iter() of a stream, itertools.chain of streams, a concatenation of lists, filter / itertools.filterfalse of a stream by a membership
            predicate (pred_of), a comprehension or generator expression that hands on the elements of a stream under membership tests"""
            it = H.unsnap(it)[0]
            if isinstance(it, ast.Call) and denotes(it.func) == "builtins.iter" and len(it.args) == 1 and not it.keywords:
                return sources(it.args[0])
            if isinstance(it, ast.Name) and it.id in (A, B):
                return [(it.id, {"A", "AB"} if it.id == A else {"B", "AB"})]
            if isinstance(it, ast.Call) and denotes(it.func) in ("builtins.filter", "itertools.filterfalse") and len(it.args) == 2 and not it.keywords:
                pr, inner = pred_of(it.args[0]), sources(it.args[1])
                if pr is None or inner is None:
                    return None
                return keep(inner, pr if denotes(it.func) == "builtins.filter" else (pr[0], not pr[1]))
            if isinstance(it, (ast.GeneratorExp, ast.ListComp)) and len(it.generators) == 1 and not it.generators[0].is_async \
                    and isinstance(it.generators[0].target, ast.Name) and isinstance(it.elt, ast.Name) and it.elt.id == it.generators[0].target.id \
                    and it.elt.id not in (A, B):
                inner = sources(it.generators[0].iter)
                for c in it.generators[0].ifs:
                    pr = pred_of(ast.Lambda(args=ast.arguments(posonlyargs=[], args=[ast.arg(arg=it.elt.id)], vararg=None, kwonlyargs=[], kw_defaults=[], kwarg=None, defaults=[]), body=c))
                    if pr is None or inner is None:
                        return None
                    inner = keep(inner, pr)
                return inner
            parts = None
            if isinstance(it, ast.Call) and denotes(it.func) == "itertools.chain" and not it.keywords:
                parts = list(it.args)
            elif isinstance(it, ast.Call) and denotes(it.func) == "itertools.chain.from_iterable" and not it.keywords \
                    and len(it.args) == 1 and isinstance(it.args[0], (ast.Tuple, ast.List)):
                parts = list(it.args[0].elts)
            elif isinstance(it, ast.BinOp) and isinstance(it.op, ast.Add):
                parts = [it.left, it.right]
            if not parts or any(isinstance(p, ast.Starred) for p in parts):
                return None
            out: list = []
            for p in parts:
                r = sources(p)
                if r is None:
                    return None
                out += r
            return out

        def walk(stmts, cond: set | None):
            for s in stmts:
                if isinstance(s, ast.Expr) and isinstance(s.value, ast.Constant):
                    continue
                if isinstance(s, ast.Try):
                    walk(s.body, cond)
                    for h in s.handlers:
                        walk(h.body, cond)
                    continue
                if isinstance(s, ast.Assign) and len(s.targets) == 1 and isinstance(s.targets[0], ast.Name) and s.targets[0].id not in (A, B) \
                        and len(binds_f.get(s.targets[0].id, ())) == 1 and pred_of(s.value) is not None:
                    preds[s.targets[0].id] = pred_of(s.value)  # a local bound (once) to a membership predicate
                    continue
                if isinstance(s, ast.Assign) and isinstance(s.targets[0], ast.Name) and isinstance(s.value, ast.Call):
                    if fresh_ctor(f, s.value):
                        fresh.add(s.targets[0].id)
                        continue
                    if H.class_callee(gmeths, "Graph", f, s.value) is not None:
                        # the result is obtained from a method of the class that does not, on every return, hand out a graph nobody else holds
                        built.add(s.targets[0].id)
                        continue
                if isinstance(s, ast.For):
                    src = norm(s.iter)
                    srcs = sources(s.iter)
                    if srcs is None:
                        if "namespaces()" in src:
                            continue
                        raise AnalysisError("Graph.%s: unmodelled loop over %s" % (name, src))
                    var = norm(s.target)
                    for one, base in srcs:
                        for b in s.body:
                            handle_body(b, var, one, set(base))
                    continue
                if isinstance(s, ast.Return):
                    v = s.value
                    if isinstance(v, ast.Name) and v.id in fresh:
                        rets.append(("fresh", s))
                    else:
                        r = expr_regions(v) if v is not None else None
                        if r is not None and isinstance(v, ast.BinOp):
                            regions.update(r)
                            rets.append(("fresh", s))  # a binary operator result is itself a fresh graph
                        else:
                            rets.append(("other", s))
                    continue
                if isinstance(s, ast.If):
                    # a conditional around returns/loops: both arms are possible
                    walk(s.body, cond)
                    walk(s.orelse, cond)
                    continue
                raise AnalysisError("Graph.%s: unmodelled statement %s" % (name, norm(s)[:60]))

        def handle_body(b, var, src, base):
            other = B if src == A else A
            if isinstance(b, ast.Expr) and isinstance(b.value, ast.Call) and isinstance(b.value.func, ast.Attribute) and b.value.func.attr == "add" \
                    and norm(b.value.func.value) in (fresh | built) and norm(b.value.args[0]) == var:
                regions.update(base)
                return
            if isinstance(b, ast.If) and isinstance(b.test, ast.Compare) and len(b.test.ops) == 1 and isinstance(b.test.ops[0], (ast.In, ast.NotIn)) \
                    and norm(b.test.left) == var and norm(b.test.comparators[0]) in (A, B) and not b.orelse:
                isin = isinstance(b.test.ops[0], ast.In)
                if norm(b.test.comparators[0]) == other:
                    sub = (base & {"AB"}) if isin else (base - {"AB"})
                else:  # a triple enumerated from an operand is in that operand
                    sub = set(base) if isin else set()
                for bb in b.body:
                    handle_body(bb, var, src, sub)
                return
            raise AnalysisError("Graph.%s: unmodelled loop body %s" % (name, norm(b)[:60]))

        rets: list = []
        binds_f = H._bindings(f)
        walk(f.body, None)
        venn_cache[name] = regions
        for kind, s in rets:
            rep.ob("C01.f-set-operators", gm, "Graph." + name, s, kind == "fresh",
                   "returns a fresh graph" if kind == "fresh" else "returns an object that is not a freshly built graph (an operand itself?): later mutations of the result and the operand are shared", node=s)
        if not rets:
            rep.ob("C01.f-set-operators", gm, "Graph." + name, "return", False, "no return found", node=f)
        return regions

    for name, exp in want.items():
        got = venn(name)
        rep.ob("C01.f-set-operators", gm, "Graph." + name, "Venn regions %s" % sorted(got), got == exp,
               "exactly the regions of the operator" if got == exp else "builds regions %s, the operator denotes %s" % (sorted(got), sorted(exp)), node=gm.func("Graph." + name))
    # in-place forms
    f = gm.func("Graph.__iadd__")
    ok = any(isinstance(c, ast.Call) and norm(c.func) == "self.addN" for c in ast.walk(f)) and any(isinstance(r, ast.Return) and norm(r.value) == "self" for r in ast.walk(f))
    rep.ob("C01.f-set-operators", gm, "Graph.__iadd__", "self.addN(... for s, p, o in other); return self", ok, "" if ok else "__iadd__ no longer adds every triple of other to self and returns self", node=f)
    f = gm.func("Graph.__isub__")
    ok = any(isinstance(l, ast.For) and norm(l.iter) == "other" and any(isinstance(c, ast.Call) and norm(c.func) == "self.remove" and norm(c.args[0]) == norm(l.target) for c in ast.walk(l)) for l in ast.walk(f))
    rep.ob("C01.f-set-operators", gm, "Graph.__isub__", "for t in other: self.remove(t)", ok, "" if ok else "__isub__ no longer removes every triple of other", node=f)
    f = gm.func("Graph.set")
    gset = CFG(f)
    for what in ("self.remove", "self.add"):
        nodes = {gset.node_of(c, gm) for c in ast.walk(f) if isinstance(c, ast.Call) and norm(c.func) == what}
        okp = bool(nodes) and gset.exit not in gset.reach(gset.entry, avoid=nodes)
        rep.ob("C01.f-set-operators", gm, "Graph.set", "%s(...) on every normal path" % what, okp,
               "" if okp else "a path through set() returns without %s: the other values of (s, p, *) survive / the new value is not added" % what, node=f)
    calls = [c for c in ast.walk(f) if isinstance(c, ast.Call) and norm(c.func) in ("self.remove", "self.add")]
    calls.sort(key=lambda c: c.lineno)
    ok = [norm(c.func) for c in calls] == ["self.remove", "self.add"] and isinstance(calls[0].args[0], ast.Tuple) and isinstance(calls[0].args[0].elts[2], ast.Constant) \
        and calls[0].args[0].elts[2].value is None and [norm(e) for e in calls[0].args[0].elts[:2]] == [norm(e) for e in calls[1].args[0].elts[:2]]
    rep.ob("C01.f-set-operators", gm, "Graph.set", "remove((s, p, None)) then add((s, p, o))", ok, "" if ok else "set() is no longer remove((s,p,None)) followed by add((s,p,o))", node=f)


def _rules_g(repo: Repo, rep: Report) -> None:
    from vlib import h_c01 as H

    gm = repo.mod("rdflib.graph")
    # ------------------------------------------------------------------ (g) pass-through
    rep.rule("C01.g-graph-forwards-pattern",
             "Graph.add/remove/triples/__len__/__contains__ hand the triple/pattern to the store unchanged, with context=self", floor=5)

    def store_calls(fn, meth):
        return [c for c in ast.walk(fn) if isinstance(c, ast.Call) and isinstance(c.func, ast.Attribute) and c.func.attr == meth and "store" in norm(c.func.value)]

    for q, meth, comps in (("Graph.add", "add", ("s", "p", "o")), ("Graph.remove", "remove", None), ("Graph.triples", "triples", None), ("Graph.__len__", "__len__", None)):
        f = gm.func(q)
        cs = store_calls(f, meth)
        ok = bool(cs)
        detail = ""
        for c in cs:
            ctx = [k.value for k in c.keywords if k.arg == "context"] + (list(c.args[1:2]) if len(c.args) > 1 else [])
            if not ctx or norm(ctx[0]) != "self":
                ok = False
                detail = "store.%s is not called with context=self" % meth
            if meth != "__len__" and c.args:
                a = c.args[0]
                params = [x.arg for x in f.args.args[1:]]
                unpacked = None
                for n in own_nodes(f):
                    if isinstance(n, ast.Assign) and isinstance(n.value, ast.Name) and n.value.id in params and isinstance(n.targets[0], ast.Tuple):
                        unpacked = [norm(e) for e in n.targets[0].elts]
                if isinstance(a, ast.Tuple):
                    if unpacked is None or [norm(e) for e in a.elts] != unpacked:
                        ok = False
                        detail = "store.%s receives %s, not the triple as given (%s)" % (meth, norm(a), unpacked)
                elif not (isinstance(a, ast.Name) and a.id in params):
                    ok = False
                    detail = "store.%s receives %s" % (meth, norm(a))
        rep.ob("C01.g-graph-forwards-pattern", gm, q, "self.store.%s(<pattern as given>, context=self)" % meth, ok, detail or "forwarded unchanged", node=f)
        rep.analysed("rdflib/graph.py:" + q)
    # membership: the graph's own triples(pattern) is what is consumed for its first element - by a loop that returns on the first hit, by a
    # comprehension / generator expression over it, or by any(...) / next(..., default) applied to it
    f = gm.func("Graph.__contains__")

    def asks(it: ast.AST) -> bool:
        it = H.unsnap(it)[0]
        while isinstance(it, ast.Call) and isinstance(it.func, ast.Name) and it.func.id == "iter" and len(it.args) == 1:
            it = it.args[0]
        return isinstance(it, ast.Call) and norm(it.func) == "self.triples"

    ok = any(isinstance(l, (ast.For, ast.comprehension)) and asks(l.iter) for l in ast.walk(f)) \
        or any(isinstance(c, ast.Call) and isinstance(c.func, ast.Name) and c.func.id in ("any", "next") and c.args and asks(c.args[0]) for c in ast.walk(f))
    rep.ob("C01.g-graph-forwards-pattern", gm, "Graph.__contains__", "membership = any(self.triples(triple))", ok, "" if ok else "__contains__ no longer asks triples()", node=f)


def run(repo: Repo, rep: Report) -> None:
    """the first layer of rules, each group a layer of its own: a rule that loses its anchor on one equivalent view of the tree (a helper that a
    view inlined away, say) does not take the other groups with it"""
    rep.extra["explanation"] = EXPLANATION
    for part in (_rules_abd, _rules_c, _rules_e, _rules_h, _rules_f, _rules_g):
        _layer(rep, part, repo)


def _root(e):
    while isinstance(e, ast.Subscript):
        e = e.value
    return e


from vlib.core import layer as _layer  # noqa: E402

_run_base = run


def run(repo: Repo, rep: Report) -> None:  # noqa: F811
    _layer(rep, _run_base, repo)
    gm = repo.mod("rdflib.graph")
    mem = repo.mod("rdflib.plugins.stores.memory")
    # ------------------------------------------------------------------ (i)
    rep.rule("C01.i-no-mutation-while-iterating-self",
             "no Graph method removes from / adds to `self` inside a loop that iterates `self` (or self.triples(...) / self.subjects() ...) lazily: whether that is tolerated depends on "
             "the store (Memory iterates snapshots, SimpleMemory and persistent stores iterate live structures and raise or skip). The loop iterates a materialised copy, or the "
             "mutation is delegated to the store in one call", floor=3)
    LAZY = ("triples", "subjects", "objects", "predicates", "subject_objects", "subject_predicates", "predicate_objects", "quads", "items")
    nloops = 0
    for q, f in gm.functions():
        if not q.startswith(("Graph.", "ConjunctiveGraph.", "Dataset.")):
            continue
        for l in own_nodes(f):
            if not isinstance(l, ast.For):
                continue
            it = l.iter
            lazy_self = norm(it) == "self" or (isinstance(it, ast.Call) and isinstance(it.func, ast.Attribute) and norm(it.func.value) == "self" and it.func.attr in LAZY)
            if not lazy_self:
                continue
            muts = [c for s in l.body for c in ast.walk(s) if isinstance(c, ast.Call) and isinstance(c.func, ast.Attribute) and norm(c.func.value) == "self" and c.func.attr in ("remove", "add", "addN", "set")]
            nloops += 1
            rep.ob("C01.i-no-mutation-while-iterating-self", gm, q, "for %s in %s" % (norm(l.target), norm(it)[:40]), not muts,
                   "read-only loop body" if not muts else
                   "%s is called while `%s` is being iterated lazily: on a store that iterates its live index (SimpleMemory) this raises `dictionary changed size during iteration` after the first change and leaves the graph half-updated" % (norm(muts[0])[:40], norm(it)[:30]), node=l)

    # ------------------------------------------------------------------ (j)
    rep.rule("C01.j-len-is-computed-from-the-index",
             "__len__ of the in-memory stores is computed from the index structures when it is called (iteration / len of an index level / len of a context's triple set). A separately "
             "maintained counter must be incremented only for triples that were not yet present - SimpleMemory.add has no such test (its index writes are idempotent) - so returning "
             "a counter attribute that add() bumps unconditionally makes len() exceed what iteration yields after a duplicate add", floor=2)
    for cls in ("SimpleMemory", "Memory"):
        f = mem.func(cls + ".__len__")
        rets = [r for r in own_nodes(f) if isinstance(r, ast.Return) and r.value is not None]
        for r in rets:
            v = r.value
            bare = isinstance(v, ast.Attribute) and isinstance(v.value, ast.Name) and v.value.id == "self"
            counter = False
            if bare:
                attr = v.attr
                counter = any(isinstance(a, ast.AugAssign) and isinstance(a.target, ast.Attribute) and a.target.attr.endswith(attr.lstrip("_")) or (isinstance(a, ast.AugAssign) and norm(a.target) == norm(v))
                              for m_ in ("add", "remove") for a in own_nodes(mem.func(cls + "." + m_)))
            rep.ob("C01.j-len-is-computed-from-the-index", mem, cls + ".__len__", r, not counter,
                   "derived from the index at call time" if not counter else
                   "len() returns the counter %s, which add()/remove() adjust with += / -= : adding a triple that is already present counts it again" % norm(v), node=r)


# ---------------------------------------------------------------------------------------------------------------------
# third layer: rules k, l, m (F83, F84, F85)


def _self_attr_root(e: ast.AST, defs: dict, seen: frozenset = frozenset()) -> set:
    """Store attributes of `self` that the value of e may be a LIVE view of (def-use, flow-insensitive): self.X, a subscript
    of / .keys() .values() .items() .get() .setdefault() on such a value, or a name assigned from one.  A copy (list(), .copy(), a display or
    comprehension) is not a live view."""
    a = roles.self_attr(e)
    if a is not None:
        return {a}
    if isinstance(e, ast.Subscript):
        return _self_attr_root(e.value, defs, seen)
    if isinstance(e, ast.Call) and isinstance(e.func, ast.Attribute) and e.func.attr in ("keys", "values", "items", "get", "setdefault"):
        return _self_attr_root(e.func.value, defs, seen)
    if isinstance(e, ast.Name) and e.id not in seen:
        out: set = set()
        for v in defs.get(e.id, ()):
            out |= _self_attr_root(v, defs, seen | {e.id})
        return out
    return set()


def _local_defs(fn: ast.AST) -> dict:
    """name -> expressions it is bound to in fn (assignments; `a = b[k] = {}` binds a to b[k] as well; the target of a loop over
    X.values() / X.items() is bound to X)"""
    defs: dict = {}
    loops: list = []
    for n in own_nodes(fn):
        if isinstance(n, ast.Assign):
            for t in n.targets:
                if isinstance(t, ast.Name):
                    defs.setdefault(t.id, []).append(n.value)
                    for t2 in n.targets:
                        if isinstance(t2, ast.Subscript):
                            defs[t.id].append(t2)
        elif isinstance(n, ast.AnnAssign) and isinstance(n.target, ast.Name) and n.value is not None:
            defs.setdefault(n.target.id, []).append(n.value)
        elif isinstance(n, (ast.For, ast.comprehension)):
            it = _unsnap(n.iter)[0]
            if isinstance(it, ast.Call) and isinstance(it.func, ast.Attribute) and it.func.attr in ("values", "items"):
                for t in ast.walk(n.target):
                    if isinstance(t, ast.Name):
                        defs.setdefault(t.id, []).append(it.func.value)
            else:
                loops.append((n.target, it))
    # a loop over a table written out as a display (here, or bound to a local name): the target names stand for the entries of its rows
    for target, it in loops:
        rows = _display_leaves(it, defs, frozenset())
        for t in ast.walk(target):
            if isinstance(t, ast.Name) and rows:
                defs.setdefault(t.id, []).extend(rows)
    return defs


def _display_leaves(e: ast.AST, defs: dict, seen: frozenset) -> list:
    """the expressions a tuple / list display (possibly nested, possibly reached through a local name) is made of; [] when e is not a display"""
    if isinstance(e, (ast.Tuple, ast.List)):
        out: list = []
        for x in e.elts:
            sub = _display_leaves(x, defs, seen)
            out += sub if sub else [x.value if isinstance(x, ast.Starred) else x]
        return out
    if isinstance(e, ast.Name) and e.id not in seen:
        out = []
        for v in defs.get(e.id, ()):
            out += _display_leaves(v, defs, seen | {e.id})
        return out
    return []


def _unsnap(it: ast.AST) -> tuple:
    """(inner expression, True) when `it` is a materialised copy of the inner expression"""
    if isinstance(it, ast.Call) and isinstance(it.func, ast.Name) and it.func.id in ("list", "tuple", "sorted", "set", "frozenset") and len(it.args) == 1:
        return _unsnap(it.args[0])[0], True
    if isinstance(it, ast.Call) and isinstance(it.func, ast.Attribute) and it.func.attr == "copy" and not it.args:
        return _unsnap(it.func.value)[0], True
    return it, False


_MUTATORS = ("add", "remove", "discard", "pop", "popitem", "clear", "update", "setdefault", "append", "extend", "insert")


def _triple_state(mod, cls: str) -> set:
    """the attributes of self whose contents add() / remove() change, directly or through the self-methods they call"""
    meths = mod.methods(cls)
    attrs: set = set()
    seen: set = set()
    todo = ["add", "remove"]
    while todo:
        m = todo.pop()
        if m in seen or m not in meths:
            continue
        seen.add(m)
        f = meths[m]
        defs = _local_defs(f)
        for n in own_nodes(f):
            if isinstance(n, (ast.Assign, ast.AugAssign, ast.Delete)):
                tg = n.targets if isinstance(n, (ast.Assign, ast.Delete)) else [n.target]
                for t in tg:
                    if isinstance(t, ast.Subscript):
                        attrs |= _self_attr_root(t.value, defs)
            if isinstance(n, ast.Call) and isinstance(n.func, ast.Attribute):
                if roles.self_attr(n.func) is not None:
                    todo.append(n.func.attr)
                elif n.func.attr in _MUTATORS:
                    attrs |= _self_attr_root(n.func.value, defs)
    return attrs


def _has_yield(stmts) -> bool:
    for s in stmts:
        stack = [s]
        while stack:
            x = stack.pop()
            if isinstance(x, (ast.Yield, ast.YieldFrom)):
                return True
            if isinstance(x, (ast.FunctionDef, ast.AsyncFunctionDef, ast.ClassDef, ast.Lambda)):
                continue
            stack.extend(ast.iter_child_nodes(x))
    return False


_run_base2 = run


def run(repo: Repo, rep: Report) -> None:  # noqa: F811
    _layer(rep, _run_base2, repo)
    from vlib import h_c01 as H

    gm = repo.mod("rdflib.graph")
    mem = repo.mod("rdflib.plugins.stores.memory")
    T = repo.typed

    # ------------------------------------------------------------------ (k)
    # F83: rule d looked at the default store only.  Every in-memory store hands out generators over its triple state, and Graph.__isub__ /
    # two graphs over one store mutate that state while such a generator is suspended.
    rep.rule("C01.k-every-store-iterates-snapshots",
             "in every in-memory store class (a class of stores/memory.py with add, remove and triples), every lazily consumed loop - a `for` that "
             "(transitively) yields, or a generator expression that is handed out - whose iterable is a live view of an attribute that add()/remove() "
             "change (the attribute, a nested level of it, its .keys()/.values()/.items(), through any local alias) iterates a materialised copy "
             "(list/tuple/sorted/set/frozenset(...) or .copy()). Otherwise g.remove(t) / g.add(t) issued while `for t in g.triples(pattern)` is suspended "
             "(g -= g on a Graph(store='SimpleMemory'), or a second graph over the same store) raises RuntimeError: dictionary changed size during "
             "iteration after the first change and leaves the graph half-updated", floor=20)
    store_classes = [q for q, d in mem.defs.items() if isinstance(d, ast.ClassDef) and "." not in q and {"add", "remove", "triples"} <= set(mem.methods(q))]
    if len(store_classes) < 2:
        raise AnalysisError("stores/memory.py: expected the two in-memory store classes, found %s" % store_classes)
    for cls in store_classes:
        state = _triple_state(mem, cls)
        if len(state) < 3:
            raise AnalysisError("%s: add()/remove() change fewer than three attributes (%s): index state not recognised" % (cls, sorted(state)))
        rep.info["%s_triple_state" % cls] = sorted(state)
        # the functions in which the state is iterated: the methods of the class, and the module-level functions of the package that a method
        # hands a live view of the state to (their parameter then stands for that view) - the index walk may live in a function of its own
        units = [(mem, "%s.%s" % (cls, m), f, _local_defs(f)) for m, f in mem.methods(cls).items()]
        done: set = set()
        k = 0
        while k < len(units):
            umod, uq, uf, udefs = units[k]
            k += 1
            for c in own_nodes(uf):
                r = H.package_function(repo, umod, uf, c) if isinstance(c, ast.Call) else None
                if r is None or any(isinstance(a, ast.Starred) for a in c.args):
                    continue
                gmod, g = r
                gps = [a.arg for a in g.args.posonlyargs + g.args.args]
                handed = [(p_, a) for p_, a in zip(gps, c.args)] + [(kw.arg, kw.value) for kw in c.keywords if kw.arg]
                gdefs = None
                for p_, a in handed:
                    roots = _self_attr_root(a, udefs) & state
                    if roots:
                        gdefs = gdefs if gdefs is not None else _local_defs(g)
                        gdefs.setdefault(p_, []).extend(ast.Attribute(value=ast.Name(id="self", ctx=ast.Load()), attr=r_, ctx=ast.Load()) for r_ in sorted(roots))
                key = (id(g), tuple(sorted((p_, tuple(sorted(_self_attr_root(a, udefs) & state))) for p_, a in handed)))
                if gdefs is not None and key not in done and len(units) < 200:
                    done.add(key)
                    units.append((gmod, "%s (called from %s)" % (g.name, uq), g, gdefs))
        for umod, uq, f, defs in units:
            sites = []
            for n in own_nodes(f):
                if isinstance(n, ast.For) and _has_yield(n.body):
                    sites.append((n, n.iter, "for %s in %s" % (norm(n.target), norm(n.iter))))
                elif isinstance(n, ast.GeneratorExp) and not isinstance(umod.parent.get(id(n)), ast.Call):
                    for g_ in n.generators:
                        sites.append((n, g_.iter, "(... for %s in %s)" % (norm(g_.target), norm(g_.iter))))
            for node, it, what in sites:
                inner, snap = _unsnap(it)
                live = _self_attr_root(inner, defs) & state
                if not live:
                    continue
                rep.ob("C01.k-every-store-iterates-snapshots", umod, uq, what[:120], snap,
                       "iterates a copy of self.%s state" % "/".join(sorted(live)) if snap else
                       "yields while iterating the live %s structure that add()/remove() resize: a mutation of the store while this generator is suspended "
                       "raises `RuntimeError: dictionary changed size during iteration` in the consumer (e.g. g -= g, or remove() from a second graph over the "
                       "same store inside `for t in g`)" % "/".join("self." + a for a in sorted(live)), node=node)
        rep.analysed("rdflib/plugins/stores/memory.py:%s.*" % cls)

    # ------------------------------------------------------------------ (l)
    # F84: between the key snapshot and the yield the triple may have been removed; the filter that decides "is this triple in the requested
    # context" is evaluated after that window, so it must answer False for a triple that is gone.  The shared default-context dict stands for
    # "every triple that has no entry of its own" - which includes every triple that is no longer in the store.
    rep.rule("C01.l-context-filter-does-not-fall-back-to-default",
             "the self-methods evaluated in a condition that guards a yield of a context-aware store's generator (the per-triple context filter of "
             "Memory.triples and everything it calls on self) never read the shared default-context attribute: a lookup `map.get(triple, default)` cannot "
             "tell a triple with the default context info from one that was removed after the iteration snapshotted its keys, so "
             "`for t in g1.triples((s, None, None)): g2.remove((s, p2, o2))` (g1, g2 over one store, both holding (s,p2,o2)) still yields the removed "
             "triple from g1's iterator as if it were present", floor=1)
    _tc, dflts = H.context_state(mem, "Memory")
    if len(dflts) != 1:
        raise AnalysisError("Memory.add: the shared default-context attribute (the attribute add() binds to the context dict of a triple) is not recognised: %s" % sorted(dflts))
    dflt = next(iter(dflts))
    for cls in store_classes:
        meths = mem.methods(cls)
        if not any(roles.self_attr(x) == dflt for f in meths.values() for x in own_nodes(f)):
            continue  # not a context-aware store: no default-context info
        filters: dict = {}
        for m, f in meths.items():
            if not _has_yield(f.body):
                continue
            for n in own_nodes(f):
                tests = []
                if isinstance(n, ast.If) and _has_yield(n.body + n.orelse):
                    tests.append(n.test)
                elif isinstance(n, ast.While) and _has_yield(n.body):
                    tests.append(n.test)
                for t in tests:
                    for c in ast.walk(t):
                        if isinstance(c, ast.Call) and roles.self_attr(c.func) is not None and c.func.attr in meths:
                            filters.setdefault(c.func.attr, m)
        # close over self-method calls
        todo = list(filters)
        while todo:
            m = todo.pop()
            for c in own_nodes(meths[m]):
                if isinstance(c, ast.Call) and roles.self_attr(c.func) is not None and c.func.attr in meths and c.func.attr not in filters:
                    filters[c.func.attr] = filters[m]
                    todo.append(c.func.attr)
        for m, gen in sorted(filters.items()):
            reads = [x for x in own_nodes(meths[m]) if roles.self_attr(x) == dflt and isinstance(x.ctx, ast.Load)]
            rep.ob("C01.l-context-filter-does-not-fall-back-to-default", mem, "%s.%s" % (cls, m), "filter of the yields of %s.%s reads self.%s" % (cls, gen, dflt) if reads else
                   "filter of the yields of %s.%s" % (cls, gen), not reads,
                   "decides from per-triple / per-context entries only" if not reads else
                   "the filter falls back to the shared default-context info (%s) for a triple without an entry of its own: a triple removed from the "
                   "store after %s snapshotted the index keys has no entry either and is reported as a member of the requested graph" % (norm(mem.parent.get(id(reads[0]), reads[0]))[:80], gen),
                   node=reads[0] if reads else meths[m])
            rep.analysed("rdflib/plugins/stores/memory.py:%s.%s" % (cls, m))

    # ------------------------------------------------------------------ (m)
    # F85: RDF terms are value objects (str subclasses with __eq__/__hash__ by value); two graphs over one store, a parsed quad, a graph
    # fetched with get_context() all carry EQUAL identifiers that are different Python objects.
    rep.rule("C01.m-terms-compared-by-value",
             "in rdflib/graph.py, rdflib/store.py and the in-memory stores no two expressions whose static types are RDF terms (subclasses of "
             "rdflib.term.Identifier) are compared with `is` / `is not`: terms are value objects and equal terms are routinely distinct Python objects, "
             "so g.addN([(s, p, o, Graph(store=g.store, identifier=URIRef(str(g.identifier))))]) - a quad naming this very graph - is silently dropped "
             "when the context test is `c.identifier is self.identifier`", floor=8)
    for mn in ("rdflib.graph", "rdflib.store", "rdflib.plugins.stores.memory"):
        m_ = repo.mod(mn)

        def is_term(e: ast.AST) -> bool:
            tf = T.type_of(mn, e)
            return tf is not None and any("rdflib.term.Identifier" in T.mro(c) for c in tf.items)

        for n in ast.walk(m_.tree):
            if not isinstance(n, ast.Compare):
                continue
            operands = [n.left] + list(n.comparators)
            for i, op in enumerate(n.ops):
                if not isinstance(op, (ast.Is, ast.IsNot, ast.Eq, ast.NotEq)):
                    continue
                l, r = operands[i], operands[i + 1]
                if not (is_term(l) and is_term(r)):
                    continue
                ident = isinstance(op, (ast.Is, ast.IsNot))
                rep.ob("C01.m-terms-compared-by-value", m_, m_.qual_of(n) or "<module>", n, not ident,
                       "compared by value" if not ident else
                       "two RDF terms (%s / %s) are compared by object identity: an equal term that is another Python object (a second Graph object for the same "
                       "name, a term that came out of a parser or the store) fails the test" % (T.type_of(mn, l), T.type_of(mn, r)), node=n)


# ---------------------------------------------------------------------------------------------------------------------
# fourth layer: rules n - s (F204 - F209): the Graph classes as a family (helpers in vlib/h_c01.py)

_run_base3 = run


def run(repo: Repo, rep: Report) -> None:  # noqa: F811
    _layer(rep, _run_base3, repo)
    from vlib import h_c01 as H

    T = repo.typed
    fam = H.graph_classes(repo)
    rep.info["graph_family"] = [f for f, _, _ in fam]

    # ------------------------------------------------------------------ (n) (o)
    # F207 / F204: add() and addN() (and += which is addN) are two spellings of one operation.  What add() hands to the store besides the
    # triple - the context object and the quoted flag - is what addN() must hand over for every quad it accepts.
    rep.rule("C01.n-addN-context-as-add",
             "for every Graph class that defines add or addN, the two (as resolved through the MRO) hand the store the same kind of context for a "
             "statement they accept - the receiving graph itself (`self`), or a graph resolved by a method of self (`self._graph(c)`) - and never an "
             "object taken as it is out of the caller's quad: g.addN([(s, p, o, Graph(store=other, identifier=g.identifier))]) would register a "
             "Graph bound to ANOTHER store as the context of g's store, and g.store.contexts() / ConjunctiveGraph(g.store) then read the other "
             "store's triples", floor=3)
    rep.rule("C01.o-addN-quoted-as-add",
             "for every Graph class that defines add or addN, every statement addN adds reaches Store.add with the quoted flag that the class's add() "
             "passes; Store.addN has no quoted parameter and adds with the default (asserted), so a class whose add() passes quoted=True cannot "
             "delegate addN / += to Store.addN: QuotedGraph(store, f).addN([(s, p, o, f)]) would assert s p o in a formula-aware store while "
             ".add((s, p, o)) quotes it", floor=3)
    for full, m, q in fam:
        if H.own_method(m, q, "add", repo) is None and H.own_method(m, q, "addN", repo) is None:
            continue
        ra, rn = H.resolve(repo, full, "add"), H.resolve(repo, full, "addN")
        if ra is None or rn is None:
            raise AnalysisError("%s: add / addN not resolvable through the MRO" % full)
        wa, wn = H.store_writes(repo, ra[0], ra[2]), H.store_writes(repo, rn[0], rn[2])
        rep.analysed("%s:%s" % (ra[0].rel, ra[1]), "%s:%s" % (rn[0].rel, rn[1]))
        if not wa and not wn:
            continue  # neither writes (ReadOnlyGraphAggregate: both raise)
        ka = sorted({H.ctx_kind(ra[2], w.ctx) for w in wa})
        kn = sorted({H.ctx_kind(rn[2], w.ctx) for w in wn})
        bad = None
        if "raw" in kn or "raw" in ka:
            w = [w for w in wn if H.ctx_kind(rn[2], w.ctx) == "raw"] or [w for w in wa if H.ctx_kind(ra[2], w.ctx) == "raw"]
            bad = ("the context object handed to the store (%s) is the caller's own object: a same-named Graph bound to another store becomes a "
                   "registered context of this store" % (norm(w[0].ctx) if w[0].ctx is not None else "the caller's iterable as given"))
        elif ka != kn:
            bad = "add() hands the store a context of kind %s, addN() of kind %s" % (ka, kn)
        rep.ob("C01.n-addN-context-as-add", rn[0], q + ".addN", "context kinds: add %s / addN %s" % (ka, kn), bad is None,
               bad or "same context for both spellings", node=(wn[0].call if wn else rn[2]))
        fa = sorted({str(w.quoted) for w in wa})
        fn_ = sorted({str(w.quoted) for w in wn})
        okq = fa == fn_ and "None" not in fa and len(fa) == 1
        rep.ob("C01.o-addN-quoted-as-add", rn[0], q + ".addN", "quoted flags: add %s / addN %s (via %s)" % (fa, fn_, sorted({w.via for w in wn})), okq,
               "same quoted flag for both spellings" if okq else
               "add() stores statements with quoted=%s, addN() (and +=) with quoted=%s: the same statement ends up asserted by one spelling and quoted "
               "by the other" % ("/".join(fa), "/".join(fn_)), node=(wn[0].call if wn else rn[2]))

    # ------------------------------------------------------------------ (p)
    # F205: rule c looks at Literal / Graph typed values.  Graph names are IdentifiedNodes - str subclasses - and <> / BNode('') are falsy.
    rep.rule("C01.p-identified-node-presence-by-identity",
             "in rdflib/graph.py, rdflib/store.py and the in-memory stores, whether a value whose static type admits an IdentifiedNode (URIRef, "
             "BNode, ...: str subclasses, so URIRef('') and BNode('') are falsy) is present is decided by `is None` / isinstance, never by its "
             "truthiness: `if not identifier: identifier = BNode()` renames the graph <> to a fresh blank node, so Graph(store, URIRef('')) and "
             "a second Graph(store, URIRef('')) - or ConjunctiveGraph(identifier=BNode('')) and its default context - do not hold the same "
             "triples although they name the same graph", floor=20)
    idn = "rdflib.term.IdentifiedNode"

    def admits_idnode(mn, e):
        tf = T.type_of(mn, e)
        return tf if tf is not None and any(idn in T.mro(c) for c in tf.items) else None

    for mn in ("rdflib.graph", "rdflib.store", "rdflib.plugins.stores.memory"):
        m_ = repo.mod(mn)
        nonec = truthy.none_constants(m_)
        for fq, f in m_.functions():
            for n in own_nodes(f):
                if isinstance(n, ast.Compare) and len(n.ops) == 1 and isinstance(n.ops[0], (ast.Is, ast.IsNot)):
                    l, r = n.left, n.comparators[0]
                    tgt = l if truthy._is_none(r, nonec) else (r if truthy._is_none(l, nonec) else None)
                    tf = admits_idnode(mn, tgt) if tgt is not None else None
                    if tf is not None:
                        rep.ob("C01.p-identified-node-presence-by-identity", m_, fq, n, True, "presence of %s : %s decided by identity" % (norm(tgt), tf), node=n)
            seen_e: set = set()
            for e, owner, kind in truthy.bool_contexts(f, nested=False):
                if isinstance(e, (ast.Compare, ast.Constant)) or id(e) in seen_e:
                    continue
                seen_e.add(id(e))
                tf = admits_idnode(mn, e)
                if tf is None:
                    continue
                ctx = norm(owner.test) if hasattr(owner, "test") else norm(owner)
                rep.ob("C01.p-identified-node-presence-by-identity", m_, fq, "%s [in %s: %s]" % (norm(e), kind, ctx[:120]), False,
                       "truthiness of %s : %s decides, but the terms <> (URIRef('')) and BNode('') are falsy: a graph / context named by one is "
                       "treated as unnamed" % (norm(e), tf), node=e)

    # ------------------------------------------------------------------ (q)
    # F206: len() and iteration must count the same thing.
    rep.rule("C01.q-len-and-triples-read-the-same-source",
             "for every Graph class that defines triples or __len__, the two (as resolved through the MRO) read the same source: a class whose "
             "triples() asks the store has a __len__ that asks the store (or counts its own triples()); a class whose triples() merges member graphs "
             "has a __len__ that counts its own triples() - never the store's count, and never a sum of len(member): a triple held by two members "
             "is one triple of the aggregate (iteration yields it once), so len(ReadOnlyGraphAggregate([g1, g2])) with (s,p,o) in both must be 1", floor=3)
    for full, m, q in fam:
        if H.own_method(m, q, "triples", repo) is None and H.own_method(m, q, "__len__", repo) is None:
            continue
        rt, rl = H.resolve(repo, full, "triples"), H.resolve(repo, full, "__len__")
        if rt is None or rl is None:
            raise AnalysisError("%s: triples / __len__ not resolvable through the MRO" % full)
        rep.analysed("%s:%s" % (rt[0].rel, rt[1]), "%s:%s" % (rl[0].rel, rl[1]))
        tm, tf_ = rt[0], rt[2]
        tsn = H.self_name(tf_)
        tk = set()
        if list(H.store_calls(repo, tm, tf_, ("triples", "triples_choices"))):
            tk.add("store")
        for c in own_nodes(tf_):
            if isinstance(c, ast.Call) and isinstance(c.func, ast.Attribute) and c.func.attr == "triples" and H.is_graph(repo, tm.name, c.func.value) \
                    and not (isinstance(c.func.value, ast.Name) and c.func.value.id == tsn) and not norm(c.func.value).startswith("super("):
                tk.add("members")
        lm, lf = rl[0], rl[2]
        lsn = H.self_name(lf)
        lk = set()
        if list(H.store_calls(repo, lm, lf, ("__len__",))):
            lk.add("store")
        for c in own_nodes(lf):
            if not isinstance(c, ast.Call):
                continue
            arg = None
            if isinstance(c.func, ast.Name) and c.func.id == "len" and len(c.args) == 1:
                arg = c.args[0]
            elif isinstance(c.func, ast.Attribute) and c.func.attr == "__len__":
                arg = c.func.value
            if arg is not None:
                if H.is_store(repo, lm.name, arg):
                    lk.add("store")
                elif H.is_graph(repo, lm.name, arg) and not (isinstance(arg, ast.Name) and arg.id == lsn):
                    lk.add("sum-of-members")
            if isinstance(c.func, ast.Attribute) and isinstance(c.func.value, ast.Name) and c.func.value.id == lsn and c.func.attr in ("triples", "quads", "__iter__"):
                lk.add("own-triples")
            if isinstance(c.func, ast.Name) and c.func.id == "iter" and c.args and isinstance(c.args[0], ast.Name) and c.args[0].id == lsn:
                lk.add("own-triples")
        for n in own_nodes(lf):
            if isinstance(n, (ast.For, ast.comprehension)) and isinstance(n.iter, ast.Name) and n.iter.id == lsn:
                lk.add("own-triples")
        bad = None
        if not tk:
            raise AnalysisError("%s: source of triples() not recognised" % rt[1])
        if "sum-of-members" in lk:
            bad = "__len__ adds up len() of member graphs: a triple held by several members is counted once per member, while triples() / iteration yield it once"
        elif not lk:
            bad = "the source of __len__ is not recognised (neither the store's count nor a count of this graph's own triples())"
        elif tk == {"members"} and "store" in lk:
            bad = "triples() merges the member graphs but __len__ returns the store's count"
        elif "store" in tk and not (lk & {"store", "own-triples"}):
            bad = "triples() asks the store but __len__ does not"
        rep.ob("C01.q-len-and-triples-read-the-same-source", lm, q + ".__len__", "triples() reads %s / __len__ reads %s" % (sorted(tk), sorted(lk)), bad is None,
               bad or "same source", node=lf)

    # ------------------------------------------------------------------ (r)
    # F208: a triple (or quad) that a generator of a Graph class yields is a claim "this triple is in the graph".
    rep.rule("C01.r-yielded-triple-is-read-from-the-graph",
             "in every generator method of a Graph class, a `yield` of a triple / quad display (a tuple of three or more components) happens only for "
             "something read from the graph: it sits in the body of a loop over an iterable obtained from self / the store / super(), or in the true "
             "branch of a test that consults self. A yield of caller-supplied terms under tests on the arguments alone reports a triple whatever the "
             "graph holds: list(Graph()[s:p:o]) == [(s, p, o)] on an empty graph", floor=10)
    for full, m, q in fam:
        for name, f in m.methods(q).items():
            ys = [y for y in H.is_generator(f) if isinstance(y, ast.Yield) and isinstance(y.value, ast.Tuple) and len(y.value.elts) >= 3]
            if not ys:
                continue
            rep.analysed("%s:%s.%s" % (m.rel, q, name))
            derived = H.derived_names(f)
            for y in ys:
                why = H.reads_graph_before(m, f, y, derived)
                rep.ob("C01.r-yielded-triple-is-read-from-the-graph", m, "%s.%s" % (q, name), y, why is not None,
                       why or "the triple is yielded without any read of the graph on the way (no enclosing loop over / test on something obtained from "
                              "self): it is reported as a member whether or not the graph holds it", node=y)

    # ------------------------------------------------------------------ (s)
    # F209: the Graph API accepts any 3-sequence (add, set, triples and `in` unpack it); the store API takes a tuple (it hashes it / compares
    # it with tuples).  Rule g accepts a parameter handed on as it is - exactly the form that breaks for a list.
    rep.rule("C01.s-store-gets-a-tuple",
             "every call of a Graph class method to <store>.add / remove / triples / triples_choices passes the triple or pattern as a tuple display "
             "built here from the unpacked components (or a local assigned from such a display), never the caller's sequence as it is: the Memory "
             "store uses a fully bound triple as a dict key, so g.remove([s, p, o]) raised TypeError: unhashable type: 'list' while g.add([s, p, o]), "
             "g.set([s, p, o]), g.triples([s, p, o]) and [s, p, o] in g work", floor=12)
    for full, m, q in fam:
        for name, f in m.methods(q).items():
            binds = None
            for c in H.store_calls(repo, m, f, ("add", "remove", "triples", "triples_choices")):
                a = H._arg(c, 0, "triple")
                if binds is None:
                    binds = H._bindings(f)

                def is3(e):
                    return isinstance(e, ast.Tuple) and len(e.elts) == 3 and not any(isinstance(x, ast.Starred) for x in e.elts)

                ok = a is not None and (is3(a) or (isinstance(a, ast.Name) and a.id not in H.param_names(f) and bool(binds.get(a.id))
                                                    and all(how == "assign" and is3(v) for how, v in binds[a.id])))
                rep.analysed("%s:%s.%s" % (m.rel, q, name))
                rep.ob("C01.s-store-gets-a-tuple", m, "%s.%s" % (q, name), "%s.%s(%s, ...)" % (norm(c.func.value), c.func.attr, norm(a) if a is not None else "?"), ok,
                       "a tuple built from the components" if ok else
                       "the store receives %s, the caller's sequence as given: a triple written as a list is unhashable in the Memory store's context map "
                       "(TypeError) although the other Graph methods accept it" % (norm(a) if a is not None else "no triple argument"), node=c)
