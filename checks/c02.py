"""C02 - Dataset keeps named graphs isolated: structural part (DESIGN.md §2 C02)."""
from __future__ import annotations

import ast

from checks.c13 import check_entry, drop_benign
from vlib import truthy
from vlib.cfg import CFG
from vlib.core import AnalysisError, Repo, Report, norm, own_nodes
from vlib.effects import Effects

EXPLANATION = (
    "(a) typed truthiness rule with the Graph domain: a graph given (or resolved) as context is never tested through "
    "its truthiness - an existing but empty graph is falsy - in ConjunctiveGraph/Dataset, the Memory store's context "
    "handling, the SPARQL QueryContext and GRAPH evaluation, and the update graph helpers; (b) effect analysis: the "
    "dataset read API never writes (context resolution on read paths does not copy a foreign graph in); (c) the "
    "store's context key depends on both the class and the value of the identifier; (d) Dataset.remove_graph "
    "re-registers the default graph on every path where it may have been removed; (e) Memory.remove removes a triple "
    "from the contexts selected by the request only and deletes the index entries only when no context remains. The "
    "per-graph sets under default-context compression for every history are not decided."
)


def _rule_a(repo: Repo, rep: Report) -> None:
    gm = repo.mod("rdflib.graph")
    mem = repo.mod("rdflib.plugins.stores.memory")
    sp = repo.mod("rdflib.plugins.sparql.sparql")
    ev = repo.mod("rdflib.plugins.sparql.evaluate")
    up = repo.mod("rdflib.plugins.sparql.update")

    # ------------------------------------------------------------------ (a)
    rep.rule("C02.a-empty-graph-is-not-absent",
             "where a Graph (context / default graph / active graph) may be None, that is decided by identity, never by the "
             "graph's truthiness (an empty graph is falsy): ConjunctiveGraph, Dataset, Memory, QueryContext, GRAPH evaluation, "
             "update graph helpers, quad serializers' constructors", floor=20)
    scopes = []
    for cls in ("ConjunctiveGraph", "Dataset", "Graph"):
        for m, f in gm.methods(cls).items():
            scopes.append((gm, "%s.%s" % (cls, m), f))
    for m, f in mem.methods("Memory").items():
        scopes.append((mem, "Memory." + m, f))
    for m, f in sp.methods("QueryContext").items():
        scopes.append((sp, "QueryContext." + m, f))
    for q in ("evalGraph", "evalBGP", "evalPart", "evalQuery", "evalServiceQuery"):
        scopes.append((ev, q, ev.func(q)))
    for q, f in up.functions():
        if "." not in q:
            scopes.append((up, q, f))
    for name in ("trig", "nquads", "trix", "hext", "jsonld", "patch"):
        m = repo.mod("rdflib.plugins.serializers." + name)
        for q, f in m.functions():
            if "." in q and isinstance(m.defs.get(q.rsplit(".", 1)[0]), ast.FunctionDef):
                continue
            scopes.append((m, q, f))
    aud = repo.mod("rdflib.plugins.stores.auditable")
    for m, f in aud.methods("AuditableStore").items():
        scopes.append((aud, "AuditableStore." + m, f))
    # Only the Graph domain matters here: filter E1 hits to those whose falsy-capable class is a graph
    before = len(rep.instances)
    for mod, q, f in scopes:
        truthy.scan(repo, rep, "C02.a-empty-graph-is-not-absent", mod, f, q, exempt=EXEMPT)
        rep.analysed("%s:%s" % (mod.rel, q))
    # drop instances that are not about graphs (terms are C01/C11/C19/C20's business)
    kept = []
    for i in rep.instances[before:]:
        if "Graph" in i["detail"] or "graph" in i["detail"].lower().split(" : ")[-1]:
            kept.append(i)
    dropped = [i for i in rep.instances[before:] if i not in kept]
    rep.instances[before:] = kept
    rep.findings[:] = [f for f in rep.findings if f not in dropped]


def _rule_b(repo: Repo, rep: Report) -> None:
    gm = repo.mod("rdflib.graph")
    # ------------------------------------------------------------------ (b)
    rep.rule("C02.z-benign-sites", "mutation sites on read paths exempt by an explicit table row (shared with C13)", floor=0)
    rep.rule("C02.b-context-resolution-reads-dont-write",
             "from the read API of ConjunctiveGraph / Dataset no store mutation is reachable on the dataset itself "
             "(resolving a context never copies a foreign graph in on a read path)", floor=12)
    eff = Effects(repo)
    drop_benign(eff, rep, "C02.z-benign-sites")
    eff.solve()
    for cls, meths in (("ConjunctiveGraph", ("triples", "quads", "__contains__", "triples_choices", "__len__", "contexts", "get_graph", "get_context", "_spoc", "_graph_view", "__str__")),
                       ("Dataset", ("graphs", "contexts", "quads", "__iter__", "__str__", "triples", "__contains__"))):
        for m in meths:
            full = eff.typed.resolve_method("rdflib.graph." + cls, m)
            if full is None:
                if m.startswith("_"):
                    continue  # private helper: may legitimately be renamed; the public entries cover its callers
                raise AnalysisError("read entry vanished: %s.%s" % (cls, m))
            if m == "_spoc":
                full = full + "@default=False"
                if full not in eff.funcs:
                    continue
            check_entry(eff, rep, "C02.b-context-resolution-reads-dont-write", full, {"self"}, "%s.%s" % (cls, m))
    # removal resolves its graph without copying, too
    full = "rdflib.graph.ConjunctiveGraph.remove"
    fi = eff.funcs[full]
    iadd = [p for p, w in fi.witness.items() if "__iadd__" in " ".join(eff.witness_chain(full, p))]
    rep.ob("C02.b-context-resolution-reads-dont-write", gm, full, "remove() resolves its graph without copying triples in", not iadd,
           "no graph copy reachable from remove()" if not iadd else "remove() can copy a foreign graph's triples into the dataset: " + " -> ".join(eff.witness_chain(full, iadd[0])[-2:]), node=fi.node)


def _rule_c(repo: Repo, rep: Report) -> None:
    mem = repo.mod("rdflib.plugins.stores.memory")
    # ------------------------------------------------------------------ (c)
    rep.rule("C02.c-context-key", "Memory's context key is computed from both the identifier's class and its value", floor=1)
    # stated on roles and value flow (vlib/h_c02): the key function is the one method of Memory that the public add / remove / triples call with
    # their context parameter alone - whatever it is called; what it can return is followed through its locals and through the functions it
    # delegates to (another method, a module-level function); every key that can come back is a string built - f-string, .format, %, +, join -
    # from an expression E together with the class of E, and for at least one of them E is the identifier of the graph.  A function the key
    # function delegates to may live in another module of the package that memory.py imports it from: it is read there.
    from vlib import h_c02 as H

    kf = H.context_key_function(mem, "Memory")
    where = "Memory." + kf.name
    rep.analysed("%s:%s" % (mem.rel, where))
    leaves = H.returned_leaves(mem, kf, mem.methods("Memory"), repo=repo)
    if not leaves:
        raise AnalysisError("%s: no returned key found" % where)
    of_identifier = 0
    bad = None
    for e, g in leaves:
        E = H.key_built_from_class_and_value(e)
        if E is None:
            bad = bad or (e, g)
        elif isinstance(E, ast.Attribute) and E.attr == "identifier":
            of_identifier += 1
    ok = bad is None and of_identifier > 0
    why = "both kind and value enter the key"
    if bad is not None:
        why = ("the context key no longer depends on both the identifier's class and value: a BNode- and an IRI-named graph with the same text share a key "
               "[%s can hand back `%s`, which is not a string built from a value together with that value's class]" % (getattr(bad[1], "name", "?"), norm(bad[0])[:80]))
    elif not of_identifier:
        why = "the context key no longer depends on both the identifier's class and value: no returned key is built from <graph>.identifier and its class"
    rep.ob("C02.c-context-key", mem, where, "key = f(class of identifier, identifier)", ok, why, node=kf)


def _rule_d(repo: Repo, rep: Report) -> None:
    gm = repo.mod("rdflib.graph")
    # ------------------------------------------------------------------ (d)
    rep.rule("C02.d-default-graph-reregistered",
             "in Dataset.remove_graph every path through store.remove_graph(g) reaches either the test that g is (or may be) "
             "the default graph, whose true arm re-adds the default graph, or returns through it", floor=1)
    f = gm.func("Dataset.remove_graph")
    g = CFG(f)
    rm = [c for c in own_nodes(f) if isinstance(c, ast.Call) and norm(c.func) == "self.store.remove_graph"]
    readd = [n for n in own_nodes(f) if isinstance(n, ast.If) and "default" in norm(n.test) and any(
        isinstance(c, ast.Call) and norm(c.func) == "self.store.add_graph" and "default" in norm(c) for s in n.body for c in ast.walk(s))]
    ok = bool(rm) and bool(readd) and all(g.must_pass_after(g.node_of(c, gm), {g.by_ast[id(n)] for n in readd}) for c in rm)
    rep.ob("C02.d-default-graph-reregistered", gm, "Dataset.remove_graph", "remove_graph(g) ... if g is default: add_graph(default)", ok,
           "default graph re-registered after removal" if ok else "a path removes a graph and returns without the default-graph re-registration test: the default graph can cease to exist", node=f)


def _rule_e(repo: Repo, rep: Report) -> None:
    mem = repo.mod("rdflib.plugins.stores.memory")
    # ------------------------------------------------------------------ (e)
    rep.rule("C02.e-remove-scoped-to-context",
             "Memory.remove skips the contexts other than the requested one before un-linking, and deletes the index and "
             "context-map entries of a triple only under the test that no context remains for it", floor=3)
    # stated on roles and reachability conditions (vlib/h_c02.remove_scoping), not on the spelling of the tests: inside the loop over
    # self.triples(...), (1) what un-links the triple from ONE of its enumerated contexts is reached only where `context is None` or that
    # context equals the requested key, (2) a deletion keyed by the triple's components only where the triple's contexts are empty (one
    # keyed by the triple itself: there, or where what remains equals the default entry), (3) what un-links it from the key None only
    # where `None in E and (context is None or len(E) == 1)` - however the condition is spelt (and/or, nested ifs, guard clauses)
    from vlib import h_c02 as H

    f = mem.func("Memory.remove")
    rep.analysed("%s:Memory.remove" % mem.rel)
    texts = {
        "scoped": ("skip contexts other than the requested one", "a removal with a graph given leaves the triple's other graphs alone",
                   "the per-context loop no longer skips contexts different from the requested one: removing from one graph removes from others"),
        "indexes": ("index entries deleted only when no context remains", "union entry dropped only on the path where the triple has no context left",
                    "index/context-map entries are deleted outside the `no context remains` test: a triple shared by several graphs disappears from all of them"),
        "union": ("default-context entry removed only when unscoped or last", "",
                  "the union/default entry is un-linked under a different condition than `None in ctxs and (context is None or len(ctxs) == 1)`"),
    }
    for kind, ok, why, node in H.remove_scoping(mem, f, mem.cls("Memory")):
        cons, good, bad = texts[kind]
        rep.ob("C02.e-remove-scoped-to-context", mem, "Memory.remove", cons, ok, good if ok else "%s [%s]" % (bad, why), node=f)


def write_path_rules(repo: Repo, rep: Report) -> None:
    gm = repo.mod("rdflib.graph")
    rep.rule("C02.g-write-paths-keep-their-graph",
             "ConjunctiveGraph.add/remove hand the store exactly the context that _spoc resolved from the quad (it is never re-assigned, in particular "
             "never widened to None = all graphs); addN re-homes every quad's context through self._graph(c) unconditionally; __contains__ answers "
             "through self.triples(...) only, so membership and triples() cannot disagree", floor=4)
    for q, meth in (("ConjunctiveGraph.add", "add"), ("ConjunctiveGraph.remove", "remove")):
        f = gm.func(q)
        sp = [n for n in own_nodes(f) if isinstance(n, ast.Assign) and isinstance(n.value, ast.Call) and norm(n.value.func) == "self._spoc" and isinstance(n.targets[0], ast.Tuple)]
        calls = [c for c in own_nodes(f) if isinstance(c, ast.Call) and norm(c.func) == "self.store." + meth]
        ok = len(sp) == 1 and len(calls) == 1
        why = ""
        if ok:
            cvar = norm(sp[0].targets[0].elts[3])
            ctxarg = [k.value for k in calls[0].keywords if k.arg == "context"] + list(calls[0].args[1:2])
            ok = bool(ctxarg) and norm(ctxarg[0]) == cvar
            reassigned = [n for n in own_nodes(f) if n is not sp[0] and isinstance(n, (ast.Assign, ast.AugAssign, ast.AnnAssign))
                          and any(norm(t) == cvar for t in (n.targets if isinstance(n, ast.Assign) else [n.target]))]
            if reassigned:
                ok = False
                why = "the context %s is re-assigned (%s) between _spoc and the store call" % (cvar, norm(reassigned[0])[:60])
            elif not ok:
                why = "store.%s does not receive the context resolved by _spoc" % meth
        else:
            why = "unmodelled shape (expected one _spoc unpack and one store.%s call)" % meth
        rep.ob("C02.g-write-paths-keep-their-graph", gm, q, "s, p, o, c = self._spoc(...); self.store.%s((s, p, o), context=c)" % meth, ok,
               "the given graph is the graph written" if ok else why + ": a quad aimed at one graph reaches a different set of graphs", node=f)
    f = gm.func("ConjunctiveGraph.addN")
    ok = False
    for c in own_nodes(f):
        if isinstance(c, ast.Call) and norm(c.func) == "self.store.addN" and c.args and isinstance(c.args[0], ast.GeneratorExp):
            elt = c.args[0].elt
            tgt = c.args[0].generators[0].target
            if isinstance(elt, ast.Tuple) and len(elt.elts) == 4 and isinstance(tgt, ast.Tuple) and len(tgt.elts) == 4:
                cvar = norm(tgt.elts[3])
                ok = norm(elt.elts[3]) == "self._graph(%s)" % cvar
    rep.ob("C02.g-write-paths-keep-their-graph", gm, "ConjunctiveGraph.addN", "(s, p, o, self._graph(c)) for s, p, o, c in quads", ok,
           "every context is re-homed onto this dataset's store" if ok else "addN does not pass every quad's context through self._graph(c): a Graph object of another store can be registered as a context of this dataset", node=f)
    f = gm.func("ConjunctiveGraph.__contains__")
    direct = [c for c in own_nodes(f) if isinstance(c, ast.Call) and norm(c.func).startswith("self.store.")]
    via = [c for c in own_nodes(f) if isinstance(c, ast.Call) and norm(c.func) == "self.triples"]
    ok = bool(via) and not direct
    rep.ob("C02.g-write-paths-keep-their-graph", gm, "ConjunctiveGraph.__contains__", "membership := any(self.triples(...))", ok,
           "" if ok else "__contains__ probes the store directly (%s), bypassing the default/union resolution of triples(): `t in ds` and ds.triples(t) can disagree" % (norm(direct[0])[:60] if direct else "no self.triples call"), node=f)


def context_filter_rule(repo: Repo, rep: Report) -> None:
    """(f) every yield of the context-aware store's triples() is guarded by the per-triple context filter"""
    from vlib import h_c02 as H

    mem = repo.mod("rdflib.plugins.stores.memory")
    rep.rule("C02.f-context-filter-on-every-yield",
             "for each of the 8 pattern shapes, every triple yielded by Memory.triples has passed the per-triple context "
             "filter for the requested graph (or comes from that graph's own triple set): a view on one graph never "
             "reports a triple that lives only in another", floor=8)
    # Memory.triples (the public entry) is executed abstractly once per shape, into the private generators it delegates to; the filter is
    # recognised by what it is - a membership test relating the yielded triple and the requested context through the store's state, or a
    # predicate method of the class that returns one - not by a name (vlib/h_c02.CtxFilterInterp).  One obligation per (shape, yield):
    # the floor of 8 is one per shape, and a shape that reaches no yield at all is a lost anchor.
    ci = H.CtxFilterInterp(mem, "Memory", "triples")
    for b in H.shapes():
        if ci.run_shape(b) == 0:
            raise AnalysisError("Memory.triples: no yield is reached for the pattern shape %s - the abstract execution lost the generator" % ci.shape)
    for y in ci.results():
        rep.ob("C02.f-context-filter-on-every-yield", mem, "Memory.triples", "shape %s: yield %s" % (y.shape, norm(getattr(y.node, "value", None) or y.node)[:60]), y.ok,
               y.why if y.where == "Memory.triples" or y.ok else "in %s: %s" % (y.where, y.why), node=y.node)
    rep.analysed("%s:Memory.triples" % mem.rel)


# truthiness tests on graphs that are deliberate emptiness tests, one reason each
EXEMPT: dict[tuple[str, str], str] = {}


from vlib.core import layer as _layer  # noqa: E402


def _rule_h(repo: Repo, rep: Report) -> None:
    gm = repo.mod("rdflib.graph")
    # ------------------------------------------------------------------ (h)
    rep.rule("C02.h-quads-of-a-named-graph-only",
             "ConjunctiveGraph.quads: Store.triples(pattern, context=c) reports, for every matching triple, ALL graphs that hold it; when the pattern names a graph c the "
             "loop over those graphs yields only c (a filter on the reported graph), otherwise quads((None, None, None, g1)) also lists the quads other graphs hold for g1's triples", floor=1)
    qf = gm.func("ConjunctiveGraph.quads")
    inner = [n for n in own_nodes(qf) if isinstance(n, ast.For) and any(isinstance(p_, ast.For) for p_ in gm.parents(n) if p_ is not qf)]
    if not inner:
        raise AnalysisError("ConjunctiveGraph.quads: loop over the reported contexts not found")
    for l in inner:
        ctxv = norm(l.target)
        filt = [n for n in ast.walk(l) if isinstance(n, ast.If) and any(isinstance(c, ast.Compare) and ctxv in {norm(c.left), norm(c.comparators[0])} for c in ast.walk(n.test))]
        rep.ob("C02.h-quads-of-a-named-graph-only", gm, "ConjunctiveGraph.quads", "for %s in %s: yield" % (ctxv, norm(l.iter)), bool(filt),
               "reported graphs filtered by the requested one" if filt else
               "every graph the store reports for a matching triple is yielded, whatever graph the pattern names: ds.quads((None, None, None, g1)) contains (s, p, o, g2) whenever g2 holds a triple that g1 holds too", node=l)


def _rule_i(repo: Repo, rep: Report) -> None:
    gm = repo.mod("rdflib.graph")
    # ------------------------------------------------------------------ (i)
    rep.rule("C02.i-write-without-graph-goes-to-default-graph",
             "ConjunctiveGraph._spoc, on the write path (default=True), never hands the store context=None for a 4-tuple whose graph is None: Store.add with context None files the "
             "triple under the union context only - it is counted by len() but belongs to no graph, not even the default graph", floor=1)
    # the resolver is found by its role (the method whose 4-tuple result ConjunctiveGraph.add unpacks and whose last component it hands to
    # store.add as the context), and executed for None-ness under the scenario of that call: the flags add() passes as True are true, the
    # argument is a 4-tuple.  Every return then hands back a graph component that is not None - conditional expressions, nested ifs, an
    # early return are all the same to it (vlib/h_c02.NullScenario); attributes / calls are not None when their static type is not Optional.
    from vlib import h_c02 as H

    T = repo.typed
    sf, call, idx = H.quad_resolver(gm, "ConjunctiveGraph", "add")
    bound = H.CtxFilterInterp.bind_args(call, sf)
    if not bound:
        raise AnalysisError("ConjunctiveGraph.add: arguments of the call of %s not understood" % sf.name)
    quad = next((p_ for p_, a_ in bound.items() if isinstance(a_, ast.Name)), None)
    flags = {p_ for p_, a_ in bound.items() if isinstance(a_, ast.Constant) and a_.value is True}
    family = [c_ for c_ in set(T.mro("rdflib.graph.ConjunctiveGraph")) | set(T.subclasses("rdflib.graph.ConjunctiveGraph")) if c_.rpartition(".")[0] == gm.name and gm.has(c_.rpartition(".")[2])]

    def property_returns(attr: str) -> list:
        out = []
        for c_ in family:
            for st_ in gm.cls(c_.rpartition(".")[2]).body:
                if isinstance(st_, ast.FunctionDef) and st_.name == attr and any(isinstance(d_, ast.Name) and d_.id == "property" for d_ in st_.decorator_list):
                    rets = [n_.value for n_ in own_nodes(st_) if isinstance(n_, ast.Return)]
                    if not rets or any(v_ is None for v_ in rets):
                        return []
                    out += rets
        return out

    ns = H.NullScenario(sf, quad, flags, idx, lambda e: T.type_of(gm.name, e), property_returns)
    if ns.n_returns == 0:
        raise AnalysisError("%s: no return reached under the write scenario" % sf.name)
    rep.analysed("%s:ConjunctiveGraph.%s" % (gm.rel, sf.name))
    ok = not ns.hits
    rep.ob("C02.i-write-without-graph-goes-to-default-graph", gm, "ConjunctiveGraph." + sf.name, "4-tuple with graph None on the write path -> default_context", ok,
           "" if ok else "ds.add((s, p, o, None)) stores the triple with context None: len(ds) == 1 but ds.quads() is empty and the default graph does not contain it [%s]" % ns.hits[0][1],
           node=ns.hits[0][0] if ns.hits else sf)


def _rule_j(repo: Repo, rep: Report) -> None:
    from vlib import argswap

    rep.rule("C02.j-no-swapped-arguments-in-graph-and-stores",
             "in rdflib/graph.py and the store modules a call that passes two local names which are also parameter names of the resolved callee passes each at its own parameter's "
             "position (triple/context, subject/object, prefix/namespace share their types)", floor=10)
    argswap.scan(repo, rep, "C02.j-no-swapped-arguments-in-graph-and-stores", ["rdflib.graph", "rdflib.store"] + sorted(m for m in repo.modules if m.startswith("rdflib.plugins.stores.")))


def _rule_k(repo: Repo, rep: Report) -> None:
    mem = repo.mod("rdflib.plugins.stores.memory")
    # ------------------------------------------------------------------ (k)
    rep.rule("C02.k-removing-triples-keeps-the-graph-registered",
             "Memory.remove forgets a context (drops it from the store's registry of graphs) only on a store that is not graph-aware: on a graph-aware store (every Dataset) a graph "
             "exists until remove_graph is called, an emptied graph - `ds.remove((None, None, None, g))`, CLEAR GRAPH - is still listed by graphs()/contexts()", floor=1)
    # stated on roles and dominance (vlib/h_c02): the registry of graphs is the state of the store that the public add_graph puts its argument into,
    # whatever the attribute is called; a construct of remove() that takes something out of it (a removing call, del, -=, a rebinding, also through
    # a local alias) stands in a statement that is reached only on paths on which <receiver>.graph_aware has been found false - `a and b and not
    # aware`, `not (a' or b' or aware)`, nested ifs, a guard clause, a flag variable are one and the same to the path-sensitive walk.
    from vlib import h_c02 as H

    rf = mem.func("Memory.remove")
    recv = H.receiver_name(rf) or "self"
    reg = H.registry_attrs(mem, "Memory", "add_graph")
    if not reg:
        raise AnalysisError("Memory.add_graph: the state that registers a graph (what add_graph puts its argument into) was not found")
    rep.analysed("%s:Memory.remove" % mem.rel, "%s:Memory.add_graph" % mem.rel)
    drops = H.registry_drops(rf, recv, reg)
    guarded_at = H.reached_only_where(rf, drops, lambda e: isinstance(e, ast.Attribute) and e.attr == "graph_aware" and isinstance(e.value, ast.Name) and e.value.id == recv, False)
    for c in drops:
        guarded = guarded_at.get(id(c), False)
        rep.ob("C02.k-removing-triples-keeps-the-graph-registered", mem, "Memory.remove", c, guarded,
               "only when the store is not graph-aware" if guarded else "a wildcard removal restricted to a graph unregisters that graph also on a graph-aware store: the Dataset forgets a graph that remove_graph was never called on", node=c)
    if not drops:
        rep.ob("C02.k-removing-triples-keeps-the-graph-registered", mem, "Memory.remove", "no context is unregistered by remove()", True, "", node=rf)


def _rule_l(repo: Repo, rep: Report) -> None:
    gm = repo.mod("rdflib.graph")
    # ------------------------------------------------------------------ (l)
    rep.rule("C02.l-graphs-are-looked-up-by-term-equality",
             "ConjunctiveGraph.get_graph / get_context / Dataset.graph select a graph by comparing identifiers as TERMS (x.identifier == identifier): a blank-node name _:L and an IRI "
             "<L> with the same text are different graphs; a comparison of str() values merges them", floor=1)
    for q in ("ConjunctiveGraph.get_graph",):
        f = gm.func(q)
        cmps = [c for c in ast.walk(f) if isinstance(c, ast.Compare) and isinstance(c.ops[0], (ast.Eq, ast.NotEq)) and "identifier" in norm(c)]
        if not cmps:
            raise AnalysisError("%s: identifier comparison not found" % q)
        strs = {a.targets[0].id for a in own_nodes(f) if isinstance(a, ast.Assign) and isinstance(a.targets[0], ast.Name) and isinstance(a.value, ast.Call) and norm(a.value.func) == "str"}
        for c in cmps:
            by_text = any(isinstance(s, ast.Call) and norm(s.func) == "str" for s in (c.left, c.comparators[0])) or any(isinstance(s, ast.Name) and s.id in strs for s in (c.left, c.comparators[0]))
            rep.ob("C02.l-graphs-are-looked-up-by-term-equality", gm, q, c, not by_text,
                   "term equality" if not by_text else "identifiers are compared as text: quads written with a Graph object named _:L land in the graph <L> (or vice versa), whichever the store lists first", node=c)


def _rule_m(repo: Repo, rep: Report) -> None:
    from vlib import h_c02 as H

    T = repo.typed
    gm = repo.mod("rdflib.graph")
    CG = "rdflib.graph.ConjunctiveGraph"
    if CG not in T.classes or "rdflib.graph.Dataset" not in T.classes:
        raise AnalysisError("ConjunctiveGraph / Dataset not found among the typed classes")

    # ------------------------------------------------------------------ (m)
    # A dataset object handed in where a graph is expected (BatchAddGraph(ds).add(t) -> ds.addN([(s, p, o, ds)]), cg += g,
    # ds.add((s, p, o, ds))) must be resolved to a member graph.  Every method of the dataset classes that takes a
    # "graph or graph name" and answers with a graph is executed abstractly under the scenario "the argument is a
    # ConjunctiveGraph/Dataset on self.store" (tests on the argument - is None, isinstance, x.store is self.store - are folded,
    # everything else forks): no reachable return hands the argument itself back.
    rep.rule("C02.m-dataset-as-context-is-its-default-graph",
             "a method of ConjunctiveGraph/Dataset that resolves `graph or name` to a graph never returns a ConjunctiveGraph/Dataset argument living on the same store as it is: "
             "that object is not one of the dataset's graphs, its identifier is a private BNode - ds.add((s, p, o, ds)) / BatchAddGraph(ds).add((s, p, o)) would file the triple in a "
             "hidden graph _:<id of ds> instead of the default graph, and ds.quads((None, None, None, ds)) would look there", floor=4)
    supers = {c.rsplit(".", 1)[-1] for c in T.mro(CG)}
    subs = {c.rsplit(".", 1)[-1] for c in T.subclasses(CG)} - {"ConjunctiveGraph"}
    by_last: dict[str, set[str]] = {}
    for c in T.classes:
        by_last.setdefault(c.rsplit(".", 1)[-1], set()).add(c)

    def class_verdict(name: str):
        if name in supers:
            return True
        if name in subs:
            return None
        if name in ("str", "bytes", "int", "float", "bool", "tuple", "list", "dict", "set"):
            return False
        full = by_last.get(name)
        if full and len(full) == 1 and not (set(T.mro(next(iter(full)))) & {CG}):
            return False  # a class the scenario object is not an instance of (QuotedGraph, URIRef, ...)
        return None

    for cls in sorted(T.subclasses(CG)):
        modname, _, cname = cls.rpartition(".")
        if modname not in repo.modules or not repo.mod(modname).has(cname):
            continue
        m = repo.mod(modname)
        for mname, f in m.methods(cname).items():
            if f.returns is None or "Graph" not in set(__import__("re").findall(r"[A-Za-z_][A-Za-z_0-9]*", norm(f.returns))):
                continue
            recv = H.receiver_name(f)
            for p_ in H.graph_params(f, ("Graph", "_ContextType")):
                sc = H.Scenario(f, p_, recv or "self", class_verdict)
                q = "%s.%s" % (cname, mname)
                rep.analysed("%s:%s" % (m.rel, q))
                if not sc.hits:
                    rep.ob("C02.m-dataset-as-context-is-its-default-graph", m, q, "%s(%s = a dataset on the same store)" % (mname, p_), True,
                           "resolved to a member graph on every path", node=f)
                for h in sc.hits:
                    rep.ob("C02.m-dataset-as-context-is-its-default-graph", m, q, h, False,
                           "with %s a Dataset/ConjunctiveGraph on self.store this return hands the dataset object itself back as the graph: quads written with it go to a hidden graph "
                           "named by the dataset's own BNode identifier, not to its default graph" % p_, node=h)


def _rule_n(repo: Repo, rep: Report) -> None:
    from vlib import h_c02 as H

    T = repo.typed
    gm = repo.mod("rdflib.graph")
    CG = "rdflib.graph.ConjunctiveGraph"
    if CG not in T.classes or "rdflib.graph.Dataset" not in T.classes:
        raise AnalysisError("ConjunctiveGraph / Dataset not found among the typed classes")

    # ------------------------------------------------------------------ (n)
    # Dataset.__iter__ is overridden: it yields the QUADS of ALL graphs, whatever default_union says.  A serializer is handed
    # `Graph` (statically) that may be a Dataset; it must enumerate it through the query API (triples(), subjects(), contexts(), quads() ...),
    # which honours default_union and yields what its name says - never by iterating the object.
    rep.rule("C02.n-serializers-enumerate-the-graph-through-its-query-api",
             "no serializer iterates the graph it was given directly (for x in self.store / list(self.store) / sorted(self.store) ...): the object may be a Dataset, whose __iter__ "
             "yields the quads of every graph - Dataset(default_union=False).serialize(format='nt') would dump the triples of all named graphs (a triple held by two graphs twice) "
             "as one flattened graph instead of the default graph", floor=14)
    ds_iter = "__iter__" in T.classes["rdflib.graph.Dataset"]["defs"]
    if not ds_iter:
        # nothing distinguishes iteration from triples() any more: the rule has no object
        raise AnalysisError("Dataset no longer overrides __iter__: rule C02.n must be re-derived")
    SER = "rdflib.serializer.Serializer"
    sm = repo.mod("rdflib.serializer")
    init = sm.func("Serializer.__init__")
    gparams = set(H.graph_params(init, ("Graph",)))
    recv0 = H.receiver_name(init)
    attrs = {t.attr for n in own_nodes(init) if isinstance(n, (ast.Assign, ast.AnnAssign)) and isinstance(n.value, ast.Name) and n.value.id in gparams
             for t in (n.targets if isinstance(n, ast.Assign) else [n.target]) if H.attr_of_receiver(t, recv0, t.attr if isinstance(t, ast.Attribute) else "")}
    if len(attrs) != 1:
        raise AnalysisError("Serializer.__init__: the attribute that keeps the graph to serialize was not found (%s)" % sorted(attrs))
    gattr = next(iter(attrs))
    n_cls = 0
    for cls in sorted(T.subclasses(SER)):
        modname, _, cname = cls.rpartition(".")
        if cls == SER or modname not in repo.modules or not repo.mod(modname).has(cname):
            continue
        m = repo.mod(modname)
        n_cls += 1
        bad = 0
        for mname, f in m.methods(cname).items():
            recv = H.receiver_name(f)
            if recv is None:
                continue
            src = lambda e, recv=recv: H.attr_of_receiver(e, recv, gattr)  # noqa: E731
            al = H.aliases_of(f, src)
            for e, owner, kind in H.iterated_exprs(f):
                if src(e) or (isinstance(e, ast.Name) and e.id in al):
                    bad += 1
                    rep.ob("C02.n-serializers-enumerate-the-graph-through-its-query-api", m, "%s.%s" % (cname, mname), "%s over %s" % (kind, "<receiver>.%s" % gattr), False,
                           "the graph to serialize is iterated directly: for a Dataset that is every quad of every graph (default_union ignored, duplicates kept, the fourth component dropped by "
                           "a triple writer); enumerate it with .triples((None, None, None)) / .quads()", node=owner)
            rep.analysed("%s:%s.%s" % (m.rel, cname, mname))
        if not bad:
            rep.ob("C02.n-serializers-enumerate-the-graph-through-its-query-api", m, cname, "every enumeration of <receiver>.%s in %s goes through a method of the graph" % (gattr, cname), True, "", node=m.cls(cname))
    if n_cls == 0:
        raise AnalysisError("no Serializer subclass found")


def _rule_o(repo: Repo, rep: Report) -> None:
    from vlib import h_c02 as H

    T = repo.typed
    gm = repo.mod("rdflib.graph")
    CG = "rdflib.graph.ConjunctiveGraph"
    if CG not in T.classes or "rdflib.graph.Dataset" not in T.classes:
        raise AnalysisError("ConjunctiveGraph / Dataset not found among the typed classes")

    # ------------------------------------------------------------------ (o)
    # "a query restricted to an empty or unknown graph returns nothing rather than falling back": where the query engine or the
    # dataset classes decide on the EMPTINESS of a graph (truth value / len() of an expression whose static type is Graph, not Optional -
    # the Optional case is rule a), the same decision also asks whether the graph EXISTS (consults contexts()/graphs()/get_graph of the
    # dataset, directly or through a local helper).  Emptiness alone cannot tell `exists and holds nothing` from `unknown`.
    rep.rule("C02.o-emptiness-does-not-decide-existence",
             "in the SPARQL engine and the dataset classes every branch taken because a graph view is empty (truthiness or len() of a Graph) is also conditioned on a look-up in the "
             "dataset's registry of graphs (contexts() / graphs() / get_graph()): SELECT ... FROM <g> on a dataset where <g> exists and is empty must see an empty default graph, "
             "not try to load <g> as a URL (fallback to another source)", floor=3)
    REG = {"contexts", "graphs", "get_graph"}
    GRAPH = "rdflib.graph.Graph"
    oscopes = []
    for name in ("rdflib.plugins.sparql.sparql", "rdflib.plugins.sparql.evaluate", "rdflib.plugins.sparql.update", "rdflib.plugins.sparql.processor"):
        mm = repo.mod(name)
        for q, f in mm.functions():
            if "." in q and isinstance(mm.defs.get(q.rsplit(".", 1)[0]), ast.FunctionDef):
                continue  # nested defs are walked with their owner
            oscopes.append((mm, q, f))
    for cls in ("ConjunctiveGraph", "Dataset"):
        for mn, f in gm.methods(cls).items():
            oscopes.append((gm, "%s.%s" % (cls, mn), f))

    def is_graph(mm, e) -> bool:
        tf = T.type_of(mm.name, e)
        return bool(tf) and bool(tf.items) and all(GRAPH in T.mro(c) for c in tf.items)

    for mm, q, f in oscopes:
        seen_o: set[int] = set()
        for e, owner, kind in truthy.bool_contexts(f):
            if id(e) in seen_o:
                continue
            seen_o.add(id(e))
            sites = []
            if not isinstance(e, (ast.Compare, ast.Constant)):
                tf = T.type_of(mm.name, e)
                if tf is not None and not tf.optional and is_graph(mm, e):
                    sites.append(e)
            for c in ast.walk(e):
                if isinstance(c, ast.Call) and isinstance(c.func, ast.Name) and c.func.id == "len" and len(c.args) == 1 and is_graph(mm, c.args[0]):
                    sites.append(c)
            for s_ in sites:
                enclosing = f
                for p_ in mm.parents(s_):
                    if isinstance(p_, (ast.FunctionDef, ast.AsyncFunctionDef)):
                        enclosing = p_
                        break
                conj = H.guard_conjuncts(mm, e, f)
                why = None
                for cj in conj:
                    if any(x is s_ for x in ast.walk(cj)) and not isinstance(cj, ast.BoolOp):
                        continue  # the emptiness test itself
                    why = H.consults_registry(mm, cj, enclosing, REG)
                    if why:
                        break
                inner = owner
                while not why and isinstance(inner, ast.If) and not inner.orelse and len(inner.body) == 1 and isinstance(inner.body[0], ast.If):
                    # if <empty>: if <unknown>: fallback   - the same conjunction written as nested ifs
                    inner = inner.body[0]
                    why = H.consults_registry(mm, inner.test, enclosing, REG)
                if not why and isinstance(owner, ast.If) and H.under_emptiness(owner.test, s_) is False:
                    # the same decision with the arms the other way round: `if <not empty>: continue` / `if <not empty>: .. else: <empty arm>` - the arm
                    # taken because the graph is empty is what runs exactly when the test is false; it must be one `if` on the registry, as above
                    arm = [x for x in (H.arm_reached_only_when_false(mm, owner) or []) if not isinstance(x, ast.Pass)]
                    if len(arm) == 1 and isinstance(arm[0], ast.If):
                        inner = arm[0]
                        why = H.consults_registry(mm, inner.test, enclosing, REG)
                        while not why and not inner.orelse and len(inner.body) == 1 and isinstance(inner.body[0], ast.If):
                            inner = inner.body[0]
                            why = H.consults_registry(mm, inner.test, enclosing, REG)
                if not why and isinstance(owner, ast.If) and H.both_arms_raise(mm, owner):
                    why = "(none needed: both the branch and its continuation raise - the test only selects the error message)"
                rep.ob("C02.o-emptiness-does-not-decide-existence", mm, truthy.where_of(mm, s_, q), "%s [in %s]" % (norm(s_), kind), bool(why),
                       ("existence asked as well: " + why) if why else
                       "the branch is decided by the emptiness of %s alone: a graph that exists in the dataset and holds no triples is treated like an unknown one (fallback to another source)" % norm(s_),
                       node=s_)
        rep.analysed("%s:%s" % (mm.rel, q))


EXPLANATION += (
    " (p) every element a listing generator of the dataset classes yields depends on every selector parameter; (q) a context given by name is resolved to a graph of "
    "this store before any self.store call; (r) a graph view the SPARQL engine builds on a dataset's store and fills is also registered; (s) every update evaluator can "
    "return normally; (t) CREATE / DROP reach the store's add_graph / remove_graph as Dataset.graph() / remove_graph() do.")

_CG = "rdflib.graph.ConjunctiveGraph"
_GRAPH = "rdflib.graph.Graph"


def _ds_classes(repo: Repo) -> list:
    """(module, class name) of ConjunctiveGraph and its subclasses defined in the package"""
    T = repo.typed
    ds_classes = []
    for cls in sorted(T.subclasses(_CG)):
        modname, _, cname = cls.rpartition(".")
        if modname in repo.modules and repo.mod(modname).has(cname):
            ds_classes.append((repo.mod(modname), cname))
    if len(ds_classes) < 2:
        raise AnalysisError("ConjunctiveGraph and its subclasses not found")
    return ds_classes


def _rule_p(repo: Repo, rep: Report) -> None:
    from vlib import h_c02 as H

    ds_classes = _ds_classes(repo)
    # ------------------------------------------------------------------ (p)  F210
    # graphs(triple) / contexts(triple) / quads(pattern) / triples(pattern, context) are LISTINGS RESTRICTED BY A SELECTOR.  Every element
    # such a generator produces must be restricted by every selector parameter: it is drawn from an enumeration that received the
    # parameter (or a value plainly computed from it), or it is produced under a test of the parameter.  A test on the elements listed
    # so far ("was the default graph among them?") is not a test of the selector.
    rep.rule("C02.p-every-listed-element-answers-the-selector",
             "in every generator method of ConjunctiveGraph/Dataset (and subclasses) each yielded element depends on each parameter of the method: it comes out of an enumeration "
             "that was handed the parameter, is computed from it, or is yielded under a test of it.  An element appended unconditionally (or under a test of what was listed "
             "before) is reported for EVERY selector: ds.graphs((s, p, o)) lists the default graph although it does not hold (s, p, o)", floor=13)
    # What the floor counts is one obligation per (listing method, selector parameter) - the restriction the property speaks of - not one per
    # syntactic yield: two yields merged into one conditional expression, or a copied body replaced by a delegation to the method it was copied
    # from, are the same 13 restrictions.  Every yield is still judged (and reported); the yields after the first of a pair do not add to the count.
    counted: set[tuple[str, str]] = set()
    for m, cname in ds_classes:
        for mname, f in m.methods(cname).items():
            ys = [n for n in own_nodes(f) if isinstance(n, (ast.Yield, ast.YieldFrom))]
            params = [a.arg for a in (list(f.args.posonlyargs) + list(f.args.args))[1:] + list(f.args.kwonlyargs)]
            if not ys or not params:
                continue
            q = "%s.%s" % (cname, mname)
            rep.analysed("%s:%s" % (m.rel, q))
            for p_ in params:
                names = H.plainly_derived(f, {p_})
                for y in ys:
                    why = H.yield_dependence(m, f, y, names)
                    rep.ob("C02.p-every-listed-element-answers-the-selector", m, q, "%s [selector %s]" % (norm(y)[:70], p_), bool(why),
                           why or "this element is produced whatever `%s` is: neither computed from it, nor drawn from an enumeration that received it, nor under a test of it - "
                           "the listing restricted by %s contains an element that does not answer the restriction" % (p_, p_), node=y, vacuous=(q, p_) in counted)
                    counted.add((q, p_))


def _rule_q(repo: Repo, rep: Report) -> None:
    from vlib import h_c02 as H

    T = repo.typed
    GRAPH = _GRAPH
    ds_classes = _ds_classes(repo)
    # ------------------------------------------------------------------ (q)  F211
    # A context may be given by NAME to every method of the dataset classes (get_context/_graph/_graph_view turn it into a graph of this store).
    # The store keys contexts by graph objects: a bare identifier handed to self.store.<anything> names a context nobody ever wrote to.
    # Scenario execution with "the parameter is a URIRef": tests on it are folded (is None -> no, isinstance(.., Graph) -> no).
    rep.rule("C02.q-a-graph-name-never-reaches-the-store-unresolved",
             "no method of ConjunctiveGraph/Dataset hands a `graph or graph name` parameter to self.store.<method>(...) on a path where it can still be a bare identifier (URIRef): it is "
             "first resolved to a Graph of this store (get_context / _graph / _graph_view).  cg.remove_context(URIRef('g')) otherwise asks the store to clear a context keyed by the "
             "bare name - not the graph <g> - and silently removes nothing", floor=11)
    uri_mro = {c.rsplit(".", 1)[-1] for c in T.mro("rdflib.term.URIRef")}
    if "URIRef" not in uri_mro or len(uri_mro) < 3:
        raise AnalysisError("rdflib.term.URIRef not found among the typed classes")
    graph_names = {c.rsplit(".", 1)[-1] for c in T.subclasses(GRAPH)}

    def name_verdict(name: str):
        if name in graph_names:
            return False
        if name in uri_mro or name == "str":
            return True
        return None

    for m, cname in ds_classes:
        for mname, f in m.methods(cname).items():
            recv = H.receiver_name(f)
            if recv is None:
                continue
            for p_ in H.graph_or_name_params(f, ("Graph", "_ContextType", "_ContextIdentifierType")):
                sc = H.SinkScenario(f, p_, recv, name_verdict, H.is_store_call_of(recv))
                q = "%s.%s" % (cname, mname)
                rep.analysed("%s:%s" % (m.rel, q))
                if not sc.sink_hits:
                    rep.ob("C02.q-a-graph-name-never-reaches-the-store-unresolved", m, q, "%s(%s = a graph name)" % (mname, p_), True, "resolved before any store call", node=f)
                for h in sc.sink_hits:
                    rep.ob("C02.q-a-graph-name-never-reaches-the-store-unresolved", m, q, h, False,
                           "with %s = URIRef('g') this call hands the bare name to the store as the context: the store's contexts are graph objects (keyed by class and identifier of "
                           "the graph), so the call addresses a context nobody wrote to - nothing is removed / found / added to <g>" % p_, node=h)


def _rule_r(repo: Repo, rep: Report) -> None:
    from vlib import h_c02 as H

    T = repo.typed
    CG, GRAPH = _CG, _GRAPH
    graph_names = {c.rsplit(".", 1)[-1] for c in T.subclasses(GRAPH)}
    # ------------------------------------------------------------------ (r)  F284
    # Graph(store=ds.store, identifier=n) is only a VIEW of the store: writing zero triples through it does not make <n> a graph of ds.
    # Where the SPARQL engine builds such a view on a dataset's store and fills it, it also registers it (add_graph) - or gets it from Dataset.graph().
    rep.rule("C02.r-a-view-filled-on-a-dataset-store-is-also-registered",
             "in the SPARQL engine a Graph(store=<dataset>.store, identifier=<n>) that is written through (+=, add, addN, parse) is also registered with that store (add_graph(view) "
             "in the same function, or the view comes from <dataset>.graph(n)): copying the zero triples of a graph that exists and is empty creates nothing, so after "
             "FROM NAMED <g> the query dataset would lack <g> - `SELECT ?g FROM NAMED <g> { GRAPH ?g {} }` answers nothing where the same query without the clause answers <g>", floor=1)
    n_views = 0
    for name in ("rdflib.plugins.sparql.sparql", "rdflib.plugins.sparql.evaluate", "rdflib.plugins.sparql.update", "rdflib.plugins.sparql.processor", "rdflib.plugins.sparql.evalutils"):
        mm = repo.mod(name)
        for q, f in mm.functions():
            if "." in q and isinstance(mm.defs.get(q.rsplit(".", 1)[0]), ast.FunctionDef):
                continue  # nested defs are walked with their owner
            rep.analysed("%s:%s" % (mm.rel, q))
            for a in own_nodes(f, include_nested=True):
                if not (isinstance(a, ast.Assign) and len(a.targets) == 1 and isinstance(a.targets[0], ast.Name) and isinstance(a.value, ast.Call)):
                    continue
                c = a.value
                tf = T.type_of(mm.name, c)
                if not (tf and tf.items and all(GRAPH in T.mro(x) for x in tf.items) and not any(CG in T.mro(x) for x in tf.items)):
                    continue
                store = H.call_arg(c, 0, "store")
                ident = H.call_arg(c, 1, "identifier")
                fref = T.ref(mm.name, c.func)
                is_ctor = (fref in T.classes) if fref else (isinstance(c.func, ast.Name) and c.func.id in graph_names)
                if not (is_ctor and store is not None and ident is not None and isinstance(store, ast.Attribute) and store.attr == "store"):
                    continue
                st = T.type_of(mm.name, store.value)
                if not (st and st.items and all(CG in T.mro(x) for x in st.items)):
                    continue
                view = H.aliases_of(f, lambda e, c=c: e is c)
                writes = H.writes_through(f, view)
                if not writes:
                    continue
                n_views += 1
                reg = [x for x in own_nodes(f, include_nested=True) if isinstance(x, ast.Call) and isinstance(x.func, ast.Attribute) and (
                    (x.func.attr == "add_graph" and any(isinstance(y, ast.Name) and y.id in view for y in x.args))
                    or (x.func.attr in ("graph", "add_graph") and x.args and norm(x.args[0]) == norm(ident)))]
                rep.ob("C02.r-a-view-filled-on-a-dataset-store-is-also-registered", mm, q, "%s ... %s" % (norm(a)[:80], norm(writes[0])[:50]), bool(reg),
                       ("registered: " + norm(reg[0])[:70]) if reg else
                       "the view on %s is filled but never registered: when nothing is written (the source graph exists and is empty) the dataset has no graph %s" % (norm(store), norm(ident)), node=a)
    if n_views == 0:
        # the engine may get its named graphs from Dataset.graph(): then creation and registration are one call - count those
        sp_ = repo.mod("rdflib.plugins.sparql.sparql")
        f = sp_.func("QueryContext.__init__")
        made = [x for x in own_nodes(f, include_nested=True) if isinstance(x, ast.Call) and isinstance(x.func, ast.Attribute) and x.func.attr in ("graph", "add_graph")]
        if not made:
            raise AnalysisError("QueryContext.__init__: neither a graph view on the query dataset's store nor a Dataset.graph() call found: rule C02.r must be re-derived")
        rep.ob("C02.r-a-view-filled-on-a-dataset-store-is-also-registered", sp_, "QueryContext.__init__", made[0], True, "named graphs of the query dataset are created through the registering API", node=made[0])


def _update_arms(repo: Repo):
    from vlib import h_c02 as H

    up = repo.mod("rdflib.plugins.sparql.update")
    top = {q: f for q, f in up.functions() if "." not in q}
    if "evalUpdate" not in top:
        raise AnalysisError("evalUpdate vanished")
    arms = H.name_dispatch(top["evalUpdate"], lambda n: n in top)
    if len(arms) < 11:
        raise AnalysisError("evalUpdate: expected 11 dispatch arms, found %s" % sorted(arms))
    return up, top, arms


def _rule_s(repo: Repo, rep: Report) -> None:
    # ------------------------------------------------------------------ (s, t)  F285
    up, top, arms = _update_arms(repo)
    rep.rule("C02.s-every-update-operation-can-succeed",
             "every evaluator that evalUpdate dispatches an operation to has a path from its entry to a normal return: an evaluator whose every path ends in `raise` makes the operation "
             "fail for every request, and its SILENT form do nothing - CREATE GRAPH <g> raised 'Create not implemented!' whether or not <g> existed", floor=11)
    for op, hn in sorted(arms.items()):
        f = top[hn]
        g = CFG(f)
        ok = g.exit in g.reach(g.entry)
        rep.analysed("%s:%s" % (up.rel, hn))
        rep.ob("C02.s-every-update-operation-can-succeed", up, hn, "operation %s: entry ->* normal return" % op, ok,
               "" if ok else "every path through %s ends in a raise: %s never succeeds (and %s SILENT changes nothing)" % (hn, op.upper(), op.upper()), node=f)


def _rule_t(repo: Repo, rep: Report) -> None:
    from vlib import h_c02 as H

    gm = repo.mod("rdflib.graph")
    up, top, arms = _update_arms(repo)
    # sibling agreement with the Dataset API: what Dataset.graph(n) / Dataset.remove_graph(n) do to the store's registry of graphs, CREATE / DROP do too
    rep.rule("C02.t-create-and-drop-change-the-registry-of-graphs",
             "the evaluators of CREATE and DROP reach (directly or through a helper of the module) the store call by which Dataset.graph() / Dataset.remove_graph() register / forget a "
             "graph (store.add_graph / store.remove_graph), or that Dataset method itself: an empty graph exists only in the registry, so CREATE GRAPH <g> that registers nothing "
             "leaves ds.graphs() and GRAPH ?g {} without <g>", floor=2)
    st_mod = repo.mod("rdflib.store")
    for op, api in (("Create", "graph"), ("Drop", "remove_graph")):
        if op not in arms:
            raise AnalysisError("evalUpdate: no arm for %s" % op)
        af = gm.func("Dataset." + api)
        arecv = H.receiver_name(af)
        ag = CFG(af)
        # the registry call that characterises the API method: the store.<..graph..>() call it makes on EVERY path
        scalls = sorted({c.func.attr for c in own_nodes(af) if isinstance(c, ast.Call) and arecv and H.is_store_call_of(arecv)(c) and st_mod.has("Store." + c.func.attr)
                         and "graph" in c.func.attr and ag.must_pass_before(ag.exit, {ag.node_of(c, gm)})})
        if len(scalls) != 1:
            raise AnalysisError("Dataset.%s: expected one unconditional self.store.<..graph..>() call, found %s" % (api, scalls))
        want = {scalls[0], api}
        f = top[arms[op]]
        why = None
        for s_ in f.body:
            why = H.consults_registry(up, s_, f, want)
            if why:
                break
        rep.ob("C02.t-create-and-drop-change-the-registry-of-graphs", up, arms[op], "%s reaches .%s()" % (op.upper(), "() / .".join(sorted(want))), bool(why),
               why or "%s never calls %s: the registry of graphs of a graph-aware store is not changed by %s (Dataset.%s() does call store.%s)" % (arms[op], " / ".join(sorted(want)), op.upper(), api, scalls[0]), node=f)


def run(repo: Repo, rep: Report) -> None:
    """one layer per rule: a rule that loses its anchor on the tree or on one equivalent view of it (a private function renamed, a helper that
    a view inlined away) does not take its neighbours with it, and the per-rule merge over the views can work (DESIGN §14.2)"""
    rep.extra["explanation"] = EXPLANATION
    for part in (_rule_a, _rule_b, context_filter_rule, write_path_rules, _rule_c, _rule_d, _rule_e, _rule_h, _rule_i, _rule_j, _rule_k, _rule_l,
                 _rule_m, _rule_n, _rule_o, _rule_p, _rule_q, _rule_r, _rule_s, _rule_t):
        _layer(rep, part, repo)
