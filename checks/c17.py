"""C17 - prefix bindings: memo invalidation and dual-map pairing (DESIGN.md §2 C17).

(a) bind => invalidate: in NamespaceManager, every path from a method's entry to
    its normal exit that passes a call reaching Store.bind also resets BOTH qname
    memo dicts (or the method only reaches it through a method that does).
(b) sibling: wherever one memo is reset, the other is reset too.
(c) memo entries are keyed by the IRI asked about, and only compute_qname*
    write them; a memo hit is returned only under the membership test of that key.
(d) who-may-call: Store.bind is called only from NamespaceManager._store_bind
    (and from Store subclasses' own bind wrappers) - any other caller bypasses the
    invalidation.
(e) dual-map pairing in the in-memory stores: every write P[a]=b of the
    namespace->prefix dict is paired in the same block with N[b]=a of the
    prefix->namespace dict; Memory.bind and SimpleMemory.bind are the same code.
"""
from __future__ import annotations

import ast

from vlib.cfg import CFG
from vlib.core import AnalysisError, Repo, Report, norm, own_nodes

EXPLANATION = (
    "Pairing rules over rdflib/namespace/__init__.py (NamespaceManager) and the bind() of the in-memory "
    "stores. Decides that a (qname, bind, qname) interleaving cannot see a stale memo because every path that "
    "changes a binding clears both memo dicts, and that the two prefix/namespace dicts are always written in "
    "pairs. Does NOT decide inverse-ness of the dicts for every history (value reasoning)."
)


def _self_attr(e: ast.AST) -> str | None:
    if isinstance(e, ast.Attribute) and isinstance(e.value, ast.Name) and e.value.id == "self":
        return e.attr
    return None


def _is_empty_dict(e: ast.AST) -> bool:
    return (isinstance(e, ast.Dict) and not e.keys) or (
        isinstance(e, ast.Call) and isinstance(e.func, ast.Name) and e.func.id == "dict" and not e.args and not e.keywords
    )


def _resets_in(stmt: ast.AST, memos: set[str]) -> set[str]:
    """memo attributes reset by one simple statement."""
    out = set()
    if isinstance(stmt, ast.Assign):
        for t in stmt.targets:
            a = _self_attr(t)
            if a in memos and _is_empty_dict(stmt.value):
                out.add(a)
    elif isinstance(stmt, ast.AnnAssign) and stmt.value is not None:
        a = _self_attr(stmt.target)
        if a in memos and _is_empty_dict(stmt.value):
            out.add(a)
    elif isinstance(stmt, ast.Expr) and isinstance(stmt.value, ast.Call):
        c = stmt.value
        if isinstance(c.func, ast.Attribute) and c.func.attr == "clear":
            a = _self_attr(c.func.value)
            if a in memos:
                out.add(a)
    return out


def run(repo: Repo, rep: Report) -> None:
    rep.extra["explanation"] = EXPLANATION
    ns = repo.mod("rdflib.namespace")
    typed = repo.typed
    NM = "NamespaceManager"
    methods = ns.methods(NM)
    for m in methods:
        rep.analysed("rdflib/namespace/__init__.py:%s.%s" % (NM, m))

    # ---- discover the memo dicts by role: dict attributes of __init__ that a
    # compute_qname* method writes under a key that is its own first parameter
    init = methods.get("__init__")
    if init is None:
        raise AnalysisError("NamespaceManager.__init__ vanished")
    dict_attrs = set()
    for st in own_nodes(init):
        if isinstance(st, (ast.Assign, ast.AnnAssign)):
            tg = st.targets if isinstance(st, ast.Assign) else [st.target]
            for t in tg:
                a = _self_attr(t)
                if a and st.value is not None and _is_empty_dict(st.value):
                    dict_attrs.add(a)
    memos: dict[str, set[str]] = {}  # attr -> writer methods
    for mname, m in methods.items():
        params = [a.arg for a in m.args.args[1:]]
        for n in own_nodes(m):
            if isinstance(n, ast.Assign):
                for t in n.targets:
                    if isinstance(t, ast.Subscript):
                        a = _self_attr(t.value)
                        if a in dict_attrs and isinstance(t.slice, ast.Name) and params and t.slice.id == params[0] and isinstance(n.value, ast.Tuple):
                            memos.setdefault(a, set()).add(mname)
    if len(memos) < 2:
        raise AnalysisError("expected two qname memo dicts in NamespaceManager, discovered %s" % sorted(memos))
    memoset = set(memos)
    rep.info["memo_attributes"] = {k: sorted(v) for k, v in memos.items()}

    # ---- which methods reach Store.bind, which reset memos (transitively through self.<m>())
    def self_calls(m: ast.AST) -> list[tuple[ast.Call, str]]:
        out = []
        for n in own_nodes(m):
            if isinstance(n, ast.Call) and isinstance(n.func, ast.Attribute):
                if isinstance(n.func.value, ast.Name) and n.func.value.id == "self" and n.func.attr in methods:
                    out.append((n, n.func.attr))
        return out

    def store_bind_calls(m: ast.AST) -> list[ast.Call]:
        out = []
        for n in own_nodes(m):
            if isinstance(n, ast.Call):
                cal = typed.callees(ns.name, n)
                if any(c.endswith(".bind") and typed.is_subclass(c.rsplit(".", 1)[0], "rdflib.store.Store") for c in cal):
                    out.append(n)
        return out

    direct_bind = {mname: store_bind_calls(m) for mname, m in methods.items()}
    if not any(direct_bind.values()):
        raise AnalysisError("no call resolving to Store.bind found in NamespaceManager (typed resolution lost?)")

    # summary: method M "always resets memo X before any Store.bind it reaches and on
    # every normal path through it" -- computed per method with the CFG, using
    # summaries of callees (fixpoint over the small self-call graph).
    always_resets: dict[str, set[str]] = {m: set() for m in methods}
    changed = True
    cfgs = {mname: CFG(m) for mname, m in methods.items()}
    while changed:
        changed = False
        for mname, m in methods.items():
            g = cfgs[mname]
            res = set()
            for memo in memoset:
                reset_nodes = set()
                for nd in g.nodes:
                    if nd.ast is None or nd.kind != "stmt":
                        continue
                    if memo in _resets_in(nd.ast, memoset):
                        reset_nodes.add(nd.id)
                    for c, callee in [(c, cal) for c, cal in self_calls(nd.ast) if True]:
                        if memo in always_resets.get(callee, set()):
                            reset_nodes.add(nd.id)
                # every path entry->exit passes a reset
                if reset_nodes and g.exit not in g.reach(g.entry, avoid=reset_nodes):
                    res.add(memo)
            if res != always_resets[mname]:
                always_resets[mname] = res
                changed = True

    reaches_bind: dict[str, bool] = {m: bool(direct_bind[m]) for m in methods}
    changed = True
    while changed:
        changed = False
        for mname, m in methods.items():
            if not reaches_bind[mname] and any(reaches_bind[c] for _, c in self_calls(m)):
                reaches_bind[mname] = True
                changed = True

    # ------------------------------------------------------------------ (a)
    rep.rule(
        "C17.a-bind-invalidates-memos",
        "whenever Store.bind is executed from NamespaceManager, both qname memo dicts are reset before control "
        "returns to the caller of the public method: at each direct Store.bind call site the resets are on every "
        "path to it or on every path from it to the normal exit; otherwise the obligation passes to every call "
        "site of that method (reset = `self.<memo> = {}` / `.clear()` / a self-method that always resets)",
        floor=3,
    )

    def reset_nodes_of(mname: str, memo: str) -> set[int]:
        g = cfgs[mname]
        out = set()
        for nd in g.nodes:
            if nd.ast is None:
                continue
            if nd.kind == "stmt" and memo in _resets_in(nd.ast, memoset):
                out.add(nd.id)
            if nd.kind in ("stmt", "test", "iter"):
                tgt = nd.ast
                if nd.kind == "stmt":
                    exprs = [tgt]
                elif nd.kind == "test":
                    exprs = [tgt.test]
                else:
                    exprs = [tgt.iter]
                for e in exprs:
                    for n2 in ast.walk(e):
                        if isinstance(n2, ast.Call) and isinstance(n2.func, ast.Attribute) and isinstance(n2.func.value, ast.Name) \
                                and n2.func.value.id == "self" and memo in always_resets.get(n2.func.attr, set()):
                            out.add(nd.id)
        return out

    def site_ok(mname: str, call: ast.Call, depth: int, trail: list[str]) -> tuple[bool, str]:
        g = cfgs[mname]
        cn = g.node_of(call, ns)
        missing = []
        for memo in sorted(memoset):
            rn = reset_nodes_of(mname, memo)
            if not (g.must_pass_before(cn, rn) or cn in rn or g.must_pass_after(cn, rn)):
                missing.append(memo)
        if not missing:
            return True, "memos reset on every path through %s in %s" % (norm(call)[:60], mname)
        # pass the obligation to the callers of this method
        callers = [(m2, c) for m2, mm in methods.items() for c, cal in self_calls(mm) if cal == mname]
        if not callers or depth > 4 or not mname.startswith("_"):
            return False, "memo(s) %s not reset on every path through %s in %s%s" % (
                missing, norm(call)[:60], mname, "" if mname.startswith("_") else " (public method)")
        for m2, c in callers:
            ok, why = site_ok(m2, c, depth + 1, trail + [mname])
            if not ok:
                return False, why + " <- via " + mname
        return True, "obligation discharged at every caller of %s" % mname

    for mname, m in methods.items():
        for call in direct_bind[mname]:
            ok, why = site_ok(mname, call, 0, [])
            rep.ob(
                "C17.a-bind-invalidates-memos", ns, "%s.%s" % (NM, mname), call, ok,
                why if ok else why + ": a later qname() may answer with a prefix that is no longer bound",
                node=call,
            )

    # ------------------------------------------------------------------ (b)
    rep.rule(
        "C17.b-memos-reset-together",
        "a block that resets one qname memo resets the other as well",
        floor=1,
    )
    for mname, m in methods.items():
        if mname == "__init__":
            continue
        # group reset statements by their containing block
        blocks: dict[int, set[str]] = {}
        first: dict[int, ast.AST] = {}
        for n in own_nodes(m):
            r = _resets_in(n, memoset)
            if r:
                par = ns.parent.get(id(n))
                blocks.setdefault(id(par), set()).update(r)
                first.setdefault(id(par), n)
        for bid, got in blocks.items():
            rep.ob("C17.b-memos-reset-together", ns, "%s.%s" % (NM, mname), first[bid], got == memoset,
                   "resets %s" % sorted(got) if got == memoset else "resets %s but not %s" % (sorted(got), sorted(memoset - got)),
                   node=first[bid])

    # ------------------------------------------------------------------ (c)
    rep.rule(
        "C17.c-memo-keyed-by-iri",
        "memo dicts are subscripted only with the IRI parameter of the computing method, written only after "
        "the prefix was read from the store in the same call, and read only under `uri in memo`/after the write",
        floor=4,
    )
    for mname, m in methods.items():
        params = [a.arg for a in m.args.args[1:]]
        for n in own_nodes(m):
            if isinstance(n, ast.Subscript):
                a = _self_attr(n.value)
                if a in memoset:
                    ok = isinstance(n.slice, ast.Name) and bool(params) and n.slice.id == params[0] and mname in memos[a]
                    rep.ob("C17.c-memo-keyed-by-iri", ns, "%s.%s" % (NM, mname), n, ok,
                           "keyed by the IRI parameter %r" % (params[0] if params else None) if ok else
                           "memo %s subscripted with %s outside its computing method or not by the IRI parameter" % (a, norm(n.slice)), node=n)

    # ------------------------------------------------------------------ (d)
    rep.rule(
        "C17.d-only-manager-binds-store",
        "Store.bind (any Store subclass) is called only from NamespaceManager._store_bind or from a Store "
        "subclass's own bind() wrapper; any other caller would change bindings without invalidating the memos",
        floor=3,
    )
    nsites = 0
    for name, mod in repo.modules.items():
        calls = typed.mods.get(name, {}).get("calls", {})
        if not any(any(c.endswith(".bind") for c in v) for v in calls.values()):
            continue
        for n in ast.walk(mod.tree):
            if not isinstance(n, ast.Call):
                continue
            cal = typed.callees(name, n)
            hit = [c for c in cal if c.endswith(".bind") and typed.is_subclass(c.rsplit(".", 1)[0], "rdflib.store.Store")]
            if not hit:
                continue
            nsites += 1
            q = mod.qual_of(n)
            cls = q.split(".")[0] if "." in q else ""
            full = "%s.%s" % (name, cls)
            ok = (name == "rdflib.namespace" and q == "NamespaceManager._store_bind") or (
                cls and typed.is_subclass(full, "rdflib.store.Store") and q.endswith(".bind")
            )
            rep.ob("C17.d-only-manager-binds-store", mod, q, n, bool(ok),
                   "sanctioned caller of %s" % hit[0] if ok else "calls %s directly: bypasses NamespaceManager's memo invalidation" % hit[0], node=n)

    # ------------------------------------------------------------------ (e)
    rep.rule(
        "C17.e-dual-map-pairing",
        "in Memory.bind / SimpleMemory.bind every write P[a]=b of one prefix dict is paired in the same block with "
        "N[b]=a of the other; deletes come in pairs; the two bind implementations are identical code",
        floor=5,
    )
    mem = repo.mod("rdflib.plugins.stores.memory")
    bodies = {}
    for cls in ("Memory", "SimpleMemory"):
        fn = mem.func(cls + ".bind")
        rep.analysed("rdflib/plugins/stores/memory.py:%s.bind" % cls)
        bodies[cls] = [norm(s) for s in fn.body]

        def walk_blocks(stmts):
            yield stmts
            for s in stmts:
                for f in ("body", "orelse", "finalbody"):
                    b = getattr(s, f, None)
                    if isinstance(b, list) and b and isinstance(b[0], ast.stmt):
                        yield from walk_blocks(b)

        def canon(e: ast.AST) -> str:
            # _coalesce(x, default=y) == _coalesce(x, y)
            if isinstance(e, ast.Call) and isinstance(e.func, ast.Name) and e.func.id == "_coalesce":
                args = [norm(a) for a in e.args] + [norm(k.value) for k in e.keywords]
                return "_coalesce(%s)" % ", ".join(args)
            return norm(e)

        for blk in walk_blocks(fn.body):
            writes = []
            dels = []
            for s in blk:
                if isinstance(s, ast.Assign) and len(s.targets) == 1 and isinstance(s.targets[0], ast.Subscript):
                    a = _self_attr(s.targets[0].value)
                    if a:
                        writes.append((a, canon(s.targets[0].slice), canon(s.value), s))
                if isinstance(s, ast.If) and len(s.body) == 1 and isinstance(s.body[0], ast.Delete):
                    d = s.body[0].targets[0]
                    if isinstance(d, ast.Subscript) and _self_attr(d.value):
                        dels.append((_self_attr(d.value), s))
                if isinstance(s, ast.Delete) and isinstance(s.targets[0], ast.Subscript) and _self_attr(s.targets[0].value) \
                        and not (len(blk) == 1 and isinstance(mem.parent.get(id(s)), ast.If)):
                    dels.append((_self_attr(s.targets[0].value), s))
            for a, k, v, s in writes:
                partner = [w for w in writes if w[0] != a and w[1] == v and w[2] == k]
                rep.ob("C17.e-dual-map-pairing", mem, cls + ".bind", s, bool(partner),
                       "paired with %s" % norm(partner[0][3]) if partner else
                       "write to %s has no inverse write to the other dict in the same block" % a, node=s)
            if dels:
                attrs = {a for a, _ in dels}
                rep.ob("C17.e-dual-map-pairing", mem, cls + ".bind", dels[0][1], len(attrs) == 2,
                       "stale entries deleted from both dicts" if len(attrs) == 2 else "stale entry deleted from %s only" % sorted(attrs), node=dels[0][1])
    same = bodies["Memory"] == bodies["SimpleMemory"]
    rep.ob("C17.e-dual-map-pairing", mem, "Memory.bind", "Memory.bind == SimpleMemory.bind (normalised statements)", same,
           "identical" if same else "the two in-memory stores' bind() differ: %s" % [
               (a, b) for a, b in zip(bodies["Memory"], bodies["SimpleMemory"]) if a != b][:2], node=mem.func("Memory.bind"))
    memo_tuple_coherence(repo, rep)
    shared_manager_rule(repo, rep)


def memo_tuple_coherence(repo: Repo, rep: Report) -> None:
    """(f) the memoised (prefix, namespace, local) triple is internally coherent"""
    ns = repo.mod("rdflib.namespace")
    rep.rule("C17.f-memo-tuple-coherent",
             "in compute_qname / compute_qname_strict the tuple written to a memo is (P, N, L) where, inside the computing block, every "
             "`P = self.store.prefix(X)` has X == N, every `self.bind(P, Y)` has Y == N, and N, L come from the same split of the IRI: the "
             "prefix returned for an IRI is the prefix bound to the namespace returned with it", floor=4)
    for mname in ("compute_qname", "compute_qname_strict"):
        f = ns.func("NamespaceManager." + mname)
        for n in own_nodes(f):
            if not (isinstance(n, ast.Assign) and isinstance(n.targets[0], ast.Subscript) and _self_attr(n.targets[0].value) and isinstance(n.value, ast.Tuple) and len(n.value.elts) == 3):
                continue
            P, N, L = [norm(e) for e in n.value.elts]
            # the enclosing computing block
            blk = None
            for p in ns.parents(n):
                if isinstance(p, ast.If) and any(n is x for s in p.body for x in ast.walk(s)) and "not in" in norm(p.test):
                    blk = p
            if blk is None:
                raise AnalysisError("%s: memo write is not inside an `if uri not in memo` block" % mname)
            stmts = [x for s in blk.body for x in ast.walk(s)]
            for x in stmts:
                if isinstance(x, ast.Assign) and norm(x.targets[0]) == P and isinstance(x.value, ast.Call) and norm(x.value.func) == "self.store.prefix":
                    a = norm(x.value.args[0])
                    ok = a == N
                    rep.ob("C17.f-memo-tuple-coherent", ns, "NamespaceManager." + mname, x, ok,
                           "prefix looked up for the namespace that is returned with it" if ok else
                           "the prefix is looked up for %s but the tuple returns namespace %s: prefix and namespace of the answer do not belong together (namespace + local != IRI / prefix bound elsewhere)" % (a, N), node=x)
                if isinstance(x, ast.Call) and norm(x.func) == "self.bind" and len(x.args) >= 2 and norm(x.args[0]) == P:
                    b = norm(x.args[1])
                    ok = b == N
                    rep.ob("C17.f-memo-tuple-coherent", ns, "NamespaceManager." + mname, x, ok,
                           "generated prefix bound to the returned namespace" if ok else "a prefix is generated and bound for %s but the tuple returns namespace %s" % (b, N), node=x)
            # N and L from the same split
            splits = [x for x in stmts if isinstance(x, ast.Assign) and isinstance(x.targets[0], ast.Tuple) and isinstance(x.value, ast.Call) and norm(x.value.func) == "split_uri"]
            for sp in splits:
                tg = [norm(e) for e in sp.targets[0].elts]
                ok = tg == [N, L]
                rep.ob("C17.f-memo-tuple-coherent", ns, "NamespaceManager." + mname, sp, ok,
                       "namespace and local name of the tuple come from one split" if ok else "split_uri unpacks into %s but the tuple returns (%s, %s)" % (tg, N, L), node=sp)


def shared_manager_rule(repo: Repo, rep: Report) -> None:
    gm = repo.mod("rdflib.graph")
    ns = repo.mod("rdflib.namespace")
    rep.rule("C17.g-views-share-one-manager",
             "every Graph view that ConjunctiveGraph/Dataset create on their own store is given namespace_manager=self.namespace_manager, so there is "
             "one qname memo per store and a bind through any view invalidates it for all", floor=1)
    n = 0
    for cls in ("ConjunctiveGraph", "Dataset"):
        for mname, f in gm.methods(cls).items():
            for c in own_nodes(f):
                if isinstance(c, ast.Call) and norm(c.func) == "Graph" and any(k.arg == "store" and norm(k.value) == "self.store" for k in c.keywords):
                    n += 1
                    ok = any(k.arg == "namespace_manager" and norm(k.value) == "self.namespace_manager" for k in c.keywords)
                    rep.ob("C17.g-views-share-one-manager", gm, "%s.%s" % (cls, mname), c, ok,
                           "shares the dataset's manager" if ok else "the view gets a NamespaceManager of its own: its qname memo is not invalidated by binds made through the dataset (and vice versa)", node=c)
    if n == 0:
        raise AnalysisError("no Graph(store=self.store, ...) view construction found in ConjunctiveGraph/Dataset")
    # normalizeUri joins prefix and local name of ONE compute_qname result
    f = ns.func("NamespaceManager.normalizeUri")
    joins = [c for c in ast.walk(f) if isinstance(c, ast.Call) and isinstance(c.func, ast.Attribute) and c.func.attr == "join" and c.args and isinstance(c.args[0], ast.List)]
    def roots_of(e: ast.expr, seen: frozenset = frozenset()) -> set[str]:
        """the subscripted variables a part of the qname is derived from (through local names: `name = parts[-1]`, `name = name.replace(...)`)"""
        if isinstance(e, ast.Subscript):
            return {norm(e.value)}
        if isinstance(e, ast.Call) and isinstance(e.func, ast.Attribute):
            return roots_of(e.func.value, seen)  # a method of the string itself (escaping)
        if isinstance(e, ast.Name) and e.id in seen:
            return set()  # derived from itself: adds no other source
        if isinstance(e, ast.Name):
            defs = [a.value for a in own_nodes(f) if isinstance(a, ast.Assign) and norm(a.targets[0]) == e.id]
            if defs:
                out: set[str] = set()
                for d in defs:
                    out |= roots_of(d, seen | {e.id})
                return out
        return {"?" + norm(e)}
    for j in joins:
        elts = j.args[0].elts
        roots = set()
        for e in elts:
            roots |= roots_of(e)
        src_ok = len(roots) == 1 and not next(iter(roots)).startswith("?")
        if src_ok:
            var = next(iter(roots))
            src_ok = any(isinstance(a, ast.Assign) and norm(a.targets[0]) == var and isinstance(a.value, ast.Call) and "compute_qname" in norm(a.value.func) for a in own_nodes(f))
        rep.ob("C17.f-memo-tuple-coherent", ns, "NamespaceManager.normalizeUri", j, src_ok,
               "prefix and local name come from one compute_qname() result" if src_ok else
               "the qname is assembled from parts of different computations (%s): the prefix may belong to a shorter namespace than the one the local name was cut from" % sorted(roots), node=j)


_run_base = run


def run(repo: Repo, rep: Report) -> None:  # noqa: F811
    _run_base(repo, rep)
    from vlib import memo

    rep.rule("C17.h-namespace-memos-key-complete",
             "every memo in rdflib.namespace and in the in-memory stores' prefix tables (a dict attribute a method both looks up and fills under the same key) is keyed by "
             "every re-bindable instance attribute its value is computed from, or re-binding that attribute invalidates the memo", floor=4)
    memo.scan(repo, rep, "C17.h-namespace-memos-key-complete", ["rdflib.namespace", "rdflib.plugins.stores.memory"])

    # ------------------------------------------------------------------ (i)
    rep.rule("C17.i-bind-writes-only-the-requested-pair",
             "Memory.bind / SimpleMemory.bind write into the two prefix maps only the pair they were asked to bind (key and value are the parameters prefix / namespace). "
             "The looked-up existing bindings (the namespace the prefix has, the prefix the namespace has) come from two different entries; a write that combines them "
             "(`P[bound_namespace or namespace] = bound_prefix or prefix` together with its mirror) binds the prefix of one existing entry to the namespace of the other when "
             "both are in use, and the maps stop being inverse", floor=4)
    mem = repo.mod("rdflib.plugins.stores.memory")
    for cls in ("Memory", "SimpleMemory"):
        fn = mem.func(cls + ".bind")
        params = {a.arg for a in fn.args.args[1:3]}
        for st in own_nodes(fn):
            if isinstance(st, ast.Assign) and len(st.targets) == 1 and isinstance(st.targets[0], ast.Subscript) and _self_attr(st.targets[0].value):
                names = {n.id for part in (st.targets[0].slice, st.value) for n in ast.walk(part) if isinstance(n, ast.Name)} - {"_coalesce"}
                foreign = sorted(names - params)
                rep.ob("C17.i-bind-writes-only-the-requested-pair", mem, cls + ".bind", st, not foreign,
                       "the requested pair" if not foreign else
                       "the entry written is assembled from looked-up bindings (%s): with override=False, bind('p', N2) while p -> N1 and q -> N2 exist writes q -> N1 and N1 -> q, leaving p -> N1 and N2 -> q behind: "
                       "two prefixes for N1, and qname(N2 + x) = 'q:x' expands to N1 + x" % ", ".join(foreign), node=st)


_run_base2 = run


def run(repo: Repo, rep: Report) -> None:  # noqa: F811
    _run_base2(repo, rep)
    rep.rule("C17.j-prefix-registered-for-every-non-verb-term",
             "TurtleSerializer / LongTurtleSerializer.preprocessTriple register the prefix of every term of a triple (self.getQName) except where a `continue` skips it; the skips are "
             "for PREDICATE-position special cases only (the `a` keyword, a predicate in the base namespace): each `continue` is control-dependent on `i == VERB`. label() writes `a` "
             "only for a predicate; rdf:type as subject or object is written rdf:type and needs the rdf: prefix declared", floor=4)
    for modname, cname in (("rdflib.plugins.serializers.turtle", "TurtleSerializer"), ("rdflib.plugins.serializers.longturtle", "LongTurtleSerializer")):
        mod = repo.mod(modname)
        f = mod.func(cname + ".preprocessTriple")
        loops_ = [n for n in own_nodes(f) if isinstance(n, ast.For) and "enumerate" in norm(n.iter)]
        if not loops_:
            raise AnalysisError("%s.preprocessTriple: loop over the positions not found" % cname)
        lp = loops_[0]
        ivar = norm(lp.target.elts[0]) if isinstance(lp.target, ast.Tuple) else None
        conts = [n for n in ast.walk(lp) if isinstance(n, ast.Continue)]
        if not conts:
            rep.ob("C17.j-prefix-registered-for-every-non-verb-term", mod, cname + ".preprocessTriple", "no position is skipped", True, "", node=lp)
        for c in conts:
            guarded = False
            child = c
            for p_ in mod.parents(c):
                if isinstance(p_, ast.If) and any(child is x or any(child is y for y in ast.walk(x)) for x in p_.body):
                    if any(isinstance(t, ast.Compare) and norm(t.left) == ivar and norm(t.comparators[0]) == "VERB" and isinstance(t.ops[0], ast.Eq) for t in ast.walk(p_.test)):
                        # the position test must be a conjunct (not an alternative) of the condition
                        top = p_.test
                        disj = isinstance(top, ast.BoolOp) and isinstance(top.op, ast.Or)
                        guarded = guarded or not disj
                if p_ is lp:
                    break
                child = p_
            rep.ob("C17.j-prefix-registered-for-every-non-verb-term", mod, cname + ".preprocessTriple", "continue @%s" % norm(mod.parent.get(id(c)).test if isinstance(mod.parent.get(id(c)), ast.If) else c)[:60], guarded,
                   "only in predicate position" if guarded else
                   "the prefix registration is skipped for subjects and objects too: a graph that uses rdf:type as subject or object (`ex:kind rdfs:subPropertyOf rdf:type`) is written with `rdf:type` but without a PREFIX rdf: line", node=c)


_run_before_borrow = run


def run(repo: Repo, rep: Report) -> None:  # noqa: F811
    _run_before_borrow(repo, rep)
    from vlib.core import borrow

    borrow(repo, rep, "C17", "C03", ('C03.c',))
