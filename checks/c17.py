"""C17 - prefix bindings: memo invalidation and dual-map pairing (DESIGN.md §2 C17).

(a) bind => invalidate: in NamespaceManager, every path from a method's entry to
    its normal exit that passes a call reaching Store.bind also resets BOTH qname
    memo dicts (or the method only reaches it through a method that does).
(b) sibling: wherever one memo is reset, the other is reset too.
(c) memo entries are keyed by the IRI asked about, and only compute_qname*
    write them; a memo hit is returned only under the membership test of that key.
(d) who-may-call: Store.bind is called only from NamespaceManager._store_bind
    (and from Store subclasses' own bind wrappers) - any other caller bypasses the
    invalidation.
(e) dual-map pairing in the in-memory stores: every write P[a]=b of the
    namespace->prefix dict is paired in the same block with N[b]=a of the
    prefix->namespace dict; Memory.bind and SimpleMemory.bind are the same code.
(k) a looked-up prefix is compared with None, never truth-tested ('' is a prefix) - all stores, the manager, serializers.
(l) every store's bind(override=False) writes only behind a test of the existing bindings of both prefix and namespace.
(m) a memoised qname is validated against the (shared) store before the membership test that returns it.
(n) a Dataset/ConjunctiveGraph wrapped around another graph's store gets that graph's namespace manager (package-wide).
(o) a fixed-namespace shortcut (startswith(XMLNS)) cuts the rest by position and requires is_ncname(rest).
(p) constant names written through XMLWriter belong to a namespace the class declares or XMLWriter writes with a built-in prefix.
(q) no XML output template of a serializer spells a fixed prefix other than xml/xmlns.
(r) a Store.bind that takes a prefix away from its namespace is followed by a rebuild of the longest-namespace trie.
(s) the three writers of N3 prefixed names (turtle, longturtle getQName, normalizeUri) sanitise the local part alike.
(t) a writer of N3 prefixed names reaches `prefix:local` only for a local part that is a PN_LOCAL (guards evaluated on probe strings).
(u) ... and only with a prefix that is a PN_PREFIX, or one that went through the serializer's renaming method, which renames every such prefix.
(v) the JSON-LD context generated from the bindings leaves out the prefixes '_' and ''.
(w) the longest-namespace look-up in the trie is given (and honours) a predicate "this namespace is bound".
(x) from_n3 undoes every escape the writers of prefixed names apply to the local part.
(y) the prefix of the RDF names in RDF/XML: looked up (no constant-only slot), tested for '', declared under that very prefix.
(z) no xmlns declaration for the XML namespace; its names are written xml:name.
"""
from __future__ import annotations

import ast

from vlib.cfg import CFG
from vlib.core import AnalysisError, Repo, Report, norm, own_nodes

EXPLANATION = (
    "Pairing rules over rdflib/namespace/__init__.py (NamespaceManager) and the bind() of the in-memory "
    "stores. Decides that a (qname, bind, qname) interleaving cannot see a stale memo because every path that "
    "changes a binding clears both memo dicts, and that the two prefix/namespace dicts are always written in "
    "pairs. Does NOT decide inverse-ness of the dicts for every history (value reasoning)."
)


def _self_attr(e: ast.AST) -> str | None:
    if isinstance(e, ast.Attribute) and isinstance(e.value, ast.Name) and e.value.id == "self":
        return e.attr
    return None


def _is_empty_dict(e: ast.AST) -> bool:
    return (isinstance(e, ast.Dict) and not e.keys) or (
        isinstance(e, ast.Call) and isinstance(e.func, ast.Name) and e.func.id == "dict" and not e.args and not e.keywords
    )


def _resets_in(stmt: ast.AST, memos: set[str]) -> set[str]:
    """memo attributes reset by one simple statement."""
    out = set()
    if isinstance(stmt, ast.Assign):
        for t in stmt.targets:
            a = _self_attr(t)
            if a in memos and _is_empty_dict(stmt.value):
                out.add(a)
    elif isinstance(stmt, ast.AnnAssign) and stmt.value is not None:
        a = _self_attr(stmt.target)
        if a in memos and _is_empty_dict(stmt.value):
            out.add(a)
    elif isinstance(stmt, ast.Expr) and isinstance(stmt.value, ast.Call):
        c = stmt.value
        if isinstance(c.func, ast.Attribute) and c.func.attr == "clear":
            a = _self_attr(c.func.value)
            if a in memos:
                out.add(a)
    return out


def run(repo: Repo, rep: Report) -> None:
    rep.extra["explanation"] = EXPLANATION
    ns = repo.mod("rdflib.namespace")
    typed = repo.typed
    NM = "NamespaceManager"
    methods = ns.methods(NM)
    for m in methods:
        rep.analysed("rdflib/namespace/__init__.py:%s.%s" % (NM, m))

    # ---- discover the memo dicts by role: dict attributes of __init__ that a
    # compute_qname* method writes under a key that is its own first parameter
    init = methods.get("__init__")
    if init is None:
        raise AnalysisError("NamespaceManager.__init__ vanished")
    dict_attrs = set()
    for st in own_nodes(init):
        if isinstance(st, (ast.Assign, ast.AnnAssign)):
            tg = st.targets if isinstance(st, ast.Assign) else [st.target]
            for t in tg:
                a = _self_attr(t)
                if a and st.value is not None and _is_empty_dict(st.value):
                    dict_attrs.add(a)
    memos: dict[str, set[str]] = {}  # attr -> writer methods
    for mname, m in methods.items():
        params = [a.arg for a in m.args.args[1:]]
        for n in own_nodes(m):
            if isinstance(n, ast.Assign):
                for t in n.targets:
                    if isinstance(t, ast.Subscript):
                        a = _self_attr(t.value)
                        if a in dict_attrs and isinstance(t.slice, ast.Name) and params and t.slice.id == params[0] and isinstance(n.value, ast.Tuple):
                            memos.setdefault(a, set()).add(mname)
    if len(memos) < 2:
        raise AnalysisError("expected two qname memo dicts in NamespaceManager, discovered %s" % sorted(memos))
    memoset = set(memos)
    rep.info["memo_attributes"] = {k: sorted(v) for k, v in memos.items()}

    # ---- which methods reach Store.bind, which reset memos (transitively through self.<m>())
    def self_calls(m: ast.AST) -> list[tuple[ast.Call, str]]:
        out = []
        for n in own_nodes(m):
            if isinstance(n, ast.Call) and isinstance(n.func, ast.Attribute):
                if isinstance(n.func.value, ast.Name) and n.func.value.id == "self" and n.func.attr in methods:
                    out.append((n, n.func.attr))
        return out

    def store_bind_calls(m: ast.AST) -> list[ast.Call]:
        out = []
        for n in own_nodes(m):
            if isinstance(n, ast.Call):
                cal = typed.callees(ns.name, n)
                if any(c.endswith(".bind") and typed.is_subclass(c.rsplit(".", 1)[0], "rdflib.store.Store") for c in cal):
                    out.append(n)
        return out

    direct_bind = {mname: store_bind_calls(m) for mname, m in methods.items()}
    if not any(direct_bind.values()):
        raise AnalysisError("no call resolving to Store.bind found in NamespaceManager (typed resolution lost?)")

    # summary: method M "always resets memo X before any Store.bind it reaches and on
    # every normal path through it" -- computed per method with the CFG, using
    # summaries of callees (fixpoint over the small self-call graph).
    always_resets: dict[str, set[str]] = {m: set() for m in methods}
    changed = True
    cfgs = {mname: CFG(m) for mname, m in methods.items()}
    while changed:
        changed = False
        for mname, m in methods.items():
            g = cfgs[mname]
            res = set()
            for memo in memoset:
                reset_nodes = set()
                for nd in g.nodes:
                    if nd.ast is None or nd.kind != "stmt":
                        continue
                    if memo in _resets_in(nd.ast, memoset):
                        reset_nodes.add(nd.id)
                    for c, callee in [(c, cal) for c, cal in self_calls(nd.ast) if True]:
                        if memo in always_resets.get(callee, set()):
                            reset_nodes.add(nd.id)
                # every path entry->exit passes a reset
                if reset_nodes and g.exit not in g.reach(g.entry, avoid=reset_nodes):
                    res.add(memo)
            if res != always_resets[mname]:
                always_resets[mname] = res
                changed = True

    reaches_bind: dict[str, bool] = {m: bool(direct_bind[m]) for m in methods}
    changed = True
    while changed:
        changed = False
        for mname, m in methods.items():
            if not reaches_bind[mname] and any(reaches_bind[c] for _, c in self_calls(m)):
                reaches_bind[mname] = True
                changed = True

    # ------------------------------------------------------------------ (a)
    rep.rule(
        "C17.a-bind-invalidates-memos",
        "whenever Store.bind is executed from NamespaceManager, both qname memo dicts are reset before control "
        "returns to the caller of the public method: at each direct Store.bind call site the resets are on every "
        "path to it or on every path from it to the normal exit; otherwise the obligation passes to every call "
        "site of that method (reset = `self.<memo> = {}` / `.clear()` / a self-method that always resets)",
        floor=3,
    )

    def reset_nodes_of(mname: str, memo: str) -> set[int]:
        g = cfgs[mname]
        out = set()
        for nd in g.nodes:
            if nd.ast is None:
                continue
            if nd.kind == "stmt" and memo in _resets_in(nd.ast, memoset):
                out.add(nd.id)
            if nd.kind in ("stmt", "test", "iter"):
                tgt = nd.ast
                if nd.kind == "stmt":
                    exprs = [tgt]
                elif nd.kind == "test":
                    exprs = [tgt.test]
                else:
                    exprs = [tgt.iter]
                for e in exprs:
                    for n2 in ast.walk(e):
                        if isinstance(n2, ast.Call) and isinstance(n2.func, ast.Attribute) and isinstance(n2.func.value, ast.Name) \
                                and n2.func.value.id == "self" and memo in always_resets.get(n2.func.attr, set()):
                            out.add(nd.id)
        return out

    def site_ok(mname: str, call: ast.Call, depth: int, trail: list[str]) -> tuple[bool, str]:
        g = cfgs[mname]
        cn = g.node_of(call, ns)
        missing = []
        for memo in sorted(memoset):
            rn = reset_nodes_of(mname, memo)
            if not (g.must_pass_before(cn, rn) or cn in rn or g.must_pass_after(cn, rn)):
                missing.append(memo)
        if not missing:
            return True, "memos reset on every path through %s in %s" % (norm(call)[:60], mname)
        # pass the obligation to the callers of this method
        callers = [(m2, c) for m2, mm in methods.items() for c, cal in self_calls(mm) if cal == mname]
        if not callers or depth > 4 or not mname.startswith("_"):
            return False, "memo(s) %s not reset on every path through %s in %s%s" % (
                missing, norm(call)[:60], mname, "" if mname.startswith("_") else " (public method)")
        for m2, c in callers:
            ok, why = site_ok(m2, c, depth + 1, trail + [mname])
            if not ok:
                return False, why + " <- via " + mname
        return True, "obligation discharged at every caller of %s" % mname

    for mname, m in methods.items():
        for call in direct_bind[mname]:
            ok, why = site_ok(mname, call, 0, [])
            rep.ob(
                "C17.a-bind-invalidates-memos", ns, "%s.%s" % (NM, mname), call, ok,
                why if ok else why + ": a later qname() may answer with a prefix that is no longer bound",
                node=call,
            )

    # ------------------------------------------------------------------ (b)
    rep.rule(
        "C17.b-memos-reset-together",
        "a block that resets one qname memo resets the other as well",
        floor=1,
    )
    for mname, m in methods.items():
        if mname == "__init__":
            continue
        # group reset statements by their containing block
        blocks: dict[int, set[str]] = {}
        first: dict[int, ast.AST] = {}
        for n in own_nodes(m):
            r = _resets_in(n, memoset)
            if r:
                par = ns.parent.get(id(n))
                blocks.setdefault(id(par), set()).update(r)
                first.setdefault(id(par), n)
        for bid, got in blocks.items():
            rep.ob("C17.b-memos-reset-together", ns, "%s.%s" % (NM, mname), first[bid], got == memoset,
                   "resets %s" % sorted(got) if got == memoset else "resets %s but not %s" % (sorted(got), sorted(memoset - got)),
                   node=first[bid])

    # ------------------------------------------------------------------ (c)
    rep.rule(
        "C17.c-memo-keyed-by-iri",
        "memo dicts are subscripted only with the IRI parameter of the computing method, written only after "
        "the prefix was read from the store in the same call, and read only under `uri in memo`/after the write",
        floor=4,
    )
    for mname, m in methods.items():
        params = [a.arg for a in m.args.args[1:]]
        for n in own_nodes(m):
            if isinstance(n, ast.Subscript):
                a = _self_attr(n.value)
                if a in memoset:
                    ok = isinstance(n.slice, ast.Name) and bool(params) and n.slice.id == params[0] and mname in memos[a]
                    rep.ob("C17.c-memo-keyed-by-iri", ns, "%s.%s" % (NM, mname), n, ok,
                           "keyed by the IRI parameter %r" % (params[0] if params else None) if ok else
                           "memo %s subscripted with %s outside its computing method or not by the IRI parameter" % (a, norm(n.slice)), node=n)

    # ------------------------------------------------------------------ (d)
    rep.rule(
        "C17.d-only-manager-binds-store",
        "Store.bind (any Store subclass) is called only from NamespaceManager._store_bind or from a Store "
        "subclass's own bind() wrapper; any other caller would change bindings without invalidating the memos",
        floor=3,
    )
    nsites = 0
    for name, mod in repo.modules.items():
        calls = typed.mods.get(name, {}).get("calls", {})
        if not any(any(c.endswith(".bind") for c in v) for v in calls.values()):
            continue
        for n in ast.walk(mod.tree):
            if not isinstance(n, ast.Call):
                continue
            cal = typed.callees(name, n)
            hit = [c for c in cal if c.endswith(".bind") and typed.is_subclass(c.rsplit(".", 1)[0], "rdflib.store.Store")]
            if not hit:
                continue
            nsites += 1
            q = mod.qual_of(n)
            cls = q.split(".")[0] if "." in q else ""
            full = "%s.%s" % (name, cls)
            ok = (name == "rdflib.namespace" and q == "NamespaceManager._store_bind") or (
                cls and typed.is_subclass(full, "rdflib.store.Store") and q.endswith(".bind")
            )
            rep.ob("C17.d-only-manager-binds-store", mod, q, n, bool(ok),
                   "sanctioned caller of %s" % hit[0] if ok else "calls %s directly: bypasses NamespaceManager's memo invalidation" % hit[0], node=n)

    # ------------------------------------------------------------------ (e)
    rep.rule(
        "C17.e-dual-map-pairing",
        "in Memory.bind / SimpleMemory.bind every write P[a]=b of one prefix dict is paired in the same block with "
        "N[b]=a of the other; deletes come in pairs; the two bind implementations are identical code",
        floor=5,
    )
    mem = repo.mod("rdflib.plugins.stores.memory")
    bodies = {}
    for cls in ("Memory", "SimpleMemory"):
        fn = mem.func(cls + ".bind")
        rep.analysed("rdflib/plugins/stores/memory.py:%s.bind" % cls)
        bodies[cls] = [norm(s) for s in fn.body]

        def walk_blocks(stmts):
            yield stmts
            for s in stmts:
                for f in ("body", "orelse", "finalbody"):
                    b = getattr(s, f, None)
                    if isinstance(b, list) and b and isinstance(b[0], ast.stmt):
                        yield from walk_blocks(b)

        def canon(e: ast.AST) -> str:
            # _coalesce(x, default=y) == _coalesce(x, y)
            if isinstance(e, ast.Call) and isinstance(e.func, ast.Name) and e.func.id == "_coalesce":
                args = [norm(a) for a in e.args] + [norm(k.value) for k in e.keywords]
                return "_coalesce(%s)" % ", ".join(args)
            return norm(e)

        for blk in walk_blocks(fn.body):
            writes = []
            dels = []
            for s in blk:
                if isinstance(s, ast.Assign) and len(s.targets) == 1 and isinstance(s.targets[0], ast.Subscript):
                    a = _self_attr(s.targets[0].value)
                    if a:
                        writes.append((a, canon(s.targets[0].slice), canon(s.value), s))
                if isinstance(s, ast.If) and len(s.body) == 1 and isinstance(s.body[0], ast.Delete):
                    d = s.body[0].targets[0]
                    if isinstance(d, ast.Subscript) and _self_attr(d.value):
                        dels.append((_self_attr(d.value), s))
                if isinstance(s, ast.Delete) and isinstance(s.targets[0], ast.Subscript) and _self_attr(s.targets[0].value) \
                        and not (len(blk) == 1 and isinstance(mem.parent.get(id(s)), ast.If)):
                    dels.append((_self_attr(s.targets[0].value), s))
            for a, k, v, s in writes:
                partner = [w for w in writes if w[0] != a and w[1] == v and w[2] == k]
                rep.ob("C17.e-dual-map-pairing", mem, cls + ".bind", s, bool(partner),
                       "paired with %s" % norm(partner[0][3]) if partner else
                       "write to %s has no inverse write to the other dict in the same block" % a, node=s)
            if dels:
                attrs = {a for a, _ in dels}
                rep.ob("C17.e-dual-map-pairing", mem, cls + ".bind", dels[0][1], len(attrs) == 2,
                       "stale entries deleted from both dicts" if len(attrs) == 2 else "stale entry deleted from %s only" % sorted(attrs), node=dels[0][1])
    same = bodies["Memory"] == bodies["SimpleMemory"]
    rep.ob("C17.e-dual-map-pairing", mem, "Memory.bind", "Memory.bind == SimpleMemory.bind (normalised statements)", same,
           "identical" if same else "the two in-memory stores' bind() differ: %s" % [
               (a, b) for a, b in zip(bodies["Memory"], bodies["SimpleMemory"]) if a != b][:2], node=mem.func("Memory.bind"))
    memo_tuple_coherence(repo, rep)
    shared_manager_rule(repo, rep)


def memo_tuple_coherence(repo: Repo, rep: Report) -> None:
    """(f) the memoised (prefix, namespace, local) triple is internally coherent"""
    ns = repo.mod("rdflib.namespace")
    rep.rule("C17.f-memo-tuple-coherent",
             "in compute_qname / compute_qname_strict the tuple written to a memo is (P, N, L); the write is made only after a membership test of that memo for the IRI has answered no "
             "(every path to it takes such a branch edge, however the test is spelt: `if iri not in memo:` + block, `if iri in memo: return` + the rest), and in what runs from there on every "
             "`P = self.store.prefix(X)` has X == N, every `self.bind(P, Y)` has Y == N, and N, L come from the same split of the IRI: the "
             "prefix returned for an IRI is the prefix bound to the namespace returned with it", floor=4)
    from vlib import h_c17 as H

    for mname in ("compute_qname", "compute_qname_strict"):
        f = ns.func("NamespaceManager." + mname)
        g = None
        for n in own_nodes(f):
            if not (isinstance(n, ast.Assign) and isinstance(n.targets[0], ast.Subscript) and _self_attr(n.targets[0].value) and isinstance(n.value, ast.Tuple) and len(n.value.elts) == 3):
                continue
            P, N, L = [norm(e) for e in n.value.elts]
            # the computing region: what is executed after the membership test of this memo for this key has answered "not there".
            # The write is made only on a miss (every path from the entry to it takes a branch edge that implies `key not in memo`,
            # whichever way the test is spelt: `if k not in M:` + body, `if k in M: return ..` + the rest, `if not (k in M)` ...), and the
            # region is everything that can run from such an edge on.
            memo_attr, key = _self_attr(n.targets[0].value), norm(n.targets[0].slice)

            def miss(e: ast.AST, memo_attr=memo_attr, key=key):
                if isinstance(e, ast.Compare) and len(e.ops) == 1 and isinstance(e.ops[0], (ast.In, ast.NotIn)) \
                        and _self_attr(e.comparators[0]) == memo_attr and norm(e.left) == key:
                    return isinstance(e.ops[0], ast.NotIn)
                return None

            if g is None:
                g = CFG(f)
            edges = H.fact_edges(g, miss)
            wn = g.node_of(n, ns)
            if not edges or wn in H.reach_edges(g, [g.entry], cut=edges):
                raise AnalysisError("%s: the memo write `%s` is not made only after a test `%s in self.%s` has answered no" % (mname, norm(n)[:60], key, memo_attr))
            region = H.reach_edges(g, [b for _, b in edges])
            stmts = [x for nid in sorted(region) for x in H.cfg_node_exprs(g.nodes[nid])]
            for x in stmts:
                if isinstance(x, ast.Assign) and norm(x.targets[0]) == P and isinstance(x.value, ast.Call) and norm(x.value.func) == "self.store.prefix":
                    a = norm(x.value.args[0])
                    ok = a == N
                    rep.ob("C17.f-memo-tuple-coherent", ns, "NamespaceManager." + mname, x, ok,
                           "prefix looked up for the namespace that is returned with it" if ok else
                           "the prefix is looked up for %s but the tuple returns namespace %s: prefix and namespace of the answer do not belong together (namespace + local != IRI / prefix bound elsewhere)" % (a, N), node=x)
                if isinstance(x, ast.Call) and norm(x.func) == "self.bind" and len(x.args) >= 2 and norm(x.args[0]) == P:
                    b = norm(x.args[1])
                    ok = b == N
                    rep.ob("C17.f-memo-tuple-coherent", ns, "NamespaceManager." + mname, x, ok,
                           "generated prefix bound to the returned namespace" if ok else "a prefix is generated and bound for %s but the tuple returns namespace %s" % (b, N), node=x)
            # N and L from the same split
            splits = [x for x in stmts if isinstance(x, ast.Assign) and isinstance(x.targets[0], ast.Tuple) and isinstance(x.value, ast.Call) and norm(x.value.func) == "split_uri"]
            for sp in splits:
                tg = [norm(e) for e in sp.targets[0].elts]
                ok = tg == [N, L]
                rep.ob("C17.f-memo-tuple-coherent", ns, "NamespaceManager." + mname, sp, ok,
                       "namespace and local name of the tuple come from one split" if ok else "split_uri unpacks into %s but the tuple returns (%s, %s)" % (tg, N, L), node=sp)


def shared_manager_rule(repo: Repo, rep: Report) -> None:
    gm = repo.mod("rdflib.graph")
    ns = repo.mod("rdflib.namespace")
    rep.rule("C17.g-views-share-one-manager",
             "every Graph view that ConjunctiveGraph/Dataset create on their own store is given namespace_manager=self.namespace_manager, so there is "
             "one qname memo per store and a bind through any view invalidates it for all", floor=1)
    n = 0
    for cls in ("ConjunctiveGraph", "Dataset"):
        for mname, f in gm.methods(cls).items():
            for c in own_nodes(f):
                if isinstance(c, ast.Call) and norm(c.func) == "Graph" and any(k.arg == "store" and norm(k.value) == "self.store" for k in c.keywords):
                    n += 1
                    ok = any(k.arg == "namespace_manager" and norm(k.value) == "self.namespace_manager" for k in c.keywords)
                    rep.ob("C17.g-views-share-one-manager", gm, "%s.%s" % (cls, mname), c, ok,
                           "shares the dataset's manager" if ok else "the view gets a NamespaceManager of its own: its qname memo is not invalidated by binds made through the dataset (and vice versa)", node=c)
    if n == 0:
        raise AnalysisError("no Graph(store=self.store, ...) view construction found in ConjunctiveGraph/Dataset")
    # normalizeUri joins prefix and local name of ONE compute_qname result
    f = ns.func("NamespaceManager.normalizeUri")
    from vlib import h_c17 as H

    # every expression that builds `e1:e2[:..]` - ":".join([..]), "%s:%s" % (..), f"{..}:{..}", .format, `+` (H.joined_by)
    joins = [(c, es) for c in ast.walk(f) for es in [H.joined_by(c, ":")] if es is not None]
    def roots_of(e: ast.expr, seen: frozenset = frozenset()) -> set[str]:
        """the subscripted variables a part of the qname is derived from (through local names: `name = parts[-1]`, `name = name.replace(...)`)"""
        if isinstance(e, ast.Subscript):
            return {norm(e.value)}
        if isinstance(e, ast.Call) and isinstance(e.func, ast.Attribute):
            return roots_of(e.func.value, seen)  # a method of the string itself (escaping)
        if isinstance(e, ast.Name) and e.id in seen:
            return set()  # derived from itself: adds no other source
        if isinstance(e, ast.Name):
            defs = [a.value for a in own_nodes(f) if isinstance(a, ast.Assign) and norm(a.targets[0]) == e.id]
            if defs:
                out: set[str] = set()
                for d in defs:
                    out |= roots_of(d, seen | {e.id})
                return out
        return {"?" + norm(e)}
    for j, elts in joins:
        roots = set()
        for e in elts:
            roots |= roots_of(e)
        src_ok = len(roots) == 1 and not next(iter(roots)).startswith("?")
        if src_ok:
            var = next(iter(roots))
            src_ok = any(isinstance(a, ast.Assign) and norm(a.targets[0]) == var and isinstance(a.value, ast.Call) and "compute_qname" in norm(a.value.func) for a in own_nodes(f))
        rep.ob("C17.f-memo-tuple-coherent", ns, "NamespaceManager.normalizeUri", j, src_ok,
               "prefix and local name come from one compute_qname() result" if src_ok else
               "the qname is assembled from parts of different computations (%s): the prefix may belong to a shorter namespace than the one the local name was cut from" % sorted(roots), node=j)


from vlib.core import layer as _layer  # noqa: E402

_run_base = run


def run(repo: Repo, rep: Report) -> None:  # noqa: F811
    _layer(rep, _run_base, repo)
    from vlib import memo

    rep.rule("C17.h-namespace-memos-key-complete",
             "every memo in rdflib.namespace and in the in-memory stores' prefix tables (a dict attribute a method both looks up and fills under the same key) is keyed by "
             "every re-bindable instance attribute its value is computed from, or re-binding that attribute invalidates the memo", floor=4)
    memo.scan(repo, rep, "C17.h-namespace-memos-key-complete", ["rdflib.namespace", "rdflib.plugins.stores.memory"])

    # ------------------------------------------------------------------ (i)
    rep.rule("C17.i-bind-writes-only-the-requested-pair",
             "Memory.bind / SimpleMemory.bind write into the two prefix maps only the pair they were asked to bind (key and value are the parameters prefix / namespace). "
             "The looked-up existing bindings (the namespace the prefix has, the prefix the namespace has) come from two different entries; a write that combines them "
             "(`P[bound_namespace or namespace] = bound_prefix or prefix` together with its mirror) binds the prefix of one existing entry to the namespace of the other when "
             "both are in use, and the maps stop being inverse", floor=4)
    mem = repo.mod("rdflib.plugins.stores.memory")
    for cls in ("Memory", "SimpleMemory"):
        fn = mem.func(cls + ".bind")
        params = {a.arg for a in fn.args.args[1:3]}
        for st in own_nodes(fn):
            if isinstance(st, ast.Assign) and len(st.targets) == 1 and isinstance(st.targets[0], ast.Subscript) and _self_attr(st.targets[0].value):
                names = {n.id for part in (st.targets[0].slice, st.value) for n in ast.walk(part) if isinstance(n, ast.Name)} - {"_coalesce"}
                foreign = sorted(names - params)
                rep.ob("C17.i-bind-writes-only-the-requested-pair", mem, cls + ".bind", st, not foreign,
                       "the requested pair" if not foreign else
                       "the entry written is assembled from looked-up bindings (%s): with override=False, bind('p', N2) while p -> N1 and q -> N2 exist writes q -> N1 and N1 -> q, leaving p -> N1 and N2 -> q behind: "
                       "two prefixes for N1, and qname(N2 + x) = 'q:x' expands to N1 + x" % ", ".join(foreign), node=st)


_run_base2 = run


def run(repo: Repo, rep: Report) -> None:  # noqa: F811
    _layer(rep, _run_base2, repo)
    rep.rule("C17.j-prefix-registered-for-every-non-verb-term",
             "TurtleSerializer / LongTurtleSerializer.preprocessTriple register the prefix of every term of a triple (self.getQName) except where a `continue` skips it; the skips are "
             "for PREDICATE-position special cases only (the `a` keyword, a predicate in the base namespace): each `continue` is control-dependent on `i == VERB`. label() writes `a` "
             "only for a predicate; rdf:type as subject or object is written rdf:type and needs the rdf: prefix declared", floor=4)
    for modname, cname in (("rdflib.plugins.serializers.turtle", "TurtleSerializer"), ("rdflib.plugins.serializers.longturtle", "LongTurtleSerializer")):
        mod = repo.mod(modname)
        f = mod.func(cname + ".preprocessTriple")
        loops_ = [n for n in own_nodes(f) if isinstance(n, ast.For) and "enumerate" in norm(n.iter)]
        if not loops_:
            raise AnalysisError("%s.preprocessTriple: loop over the positions not found" % cname)
        lp = loops_[0]
        ivar = norm(lp.target.elts[0]) if isinstance(lp.target, ast.Tuple) else None
        conts = [n for n in ast.walk(lp) if isinstance(n, ast.Continue)]
        if not conts:
            rep.ob("C17.j-prefix-registered-for-every-non-verb-term", mod, cname + ".preprocessTriple", "no position is skipped", True, "", node=lp)
        for c in conts:
            guarded = False
            child = c
            for p_ in mod.parents(c):
                if isinstance(p_, ast.If) and any(child is x or any(child is y for y in ast.walk(x)) for x in p_.body):
                    if any(isinstance(t, ast.Compare) and norm(t.left) == ivar and norm(t.comparators[0]) == "VERB" and isinstance(t.ops[0], ast.Eq) for t in ast.walk(p_.test)):
                        # the position test must be a conjunct (not an alternative) of the condition
                        top = p_.test
                        disj = isinstance(top, ast.BoolOp) and isinstance(top.op, ast.Or)
                        guarded = guarded or not disj
                if p_ is lp:
                    break
                child = p_
            rep.ob("C17.j-prefix-registered-for-every-non-verb-term", mod, cname + ".preprocessTriple", "continue @%s" % norm(mod.parent.get(id(c)).test if isinstance(mod.parent.get(id(c)), ast.If) else c)[:60], guarded,
                   "only in predicate position" if guarded else
                   "the prefix registration is skipped for subjects and objects too: a graph that uses rdf:type as subject or object (`ex:kind rdfs:subPropertyOf rdf:type`) is written with `rdf:type` but without a PREFIX rdf: line", node=c)


_run_base3 = run


# ======================================================================================================================
# rules k - s: one structural necessary condition per defect repaired by the audit round (F90, F91, F97, F98, F164-F169)
# ======================================================================================================================
def _store_classes(repo: Repo) -> list[tuple[str, str, "ast.ClassDef"]]:
    """(module name, class name, ClassDef) of every Store subclass defined in the package"""
    out = []
    for full in sorted(repo.typed.subclasses("rdflib.store.Store")):
        mname, _, cname = full.rpartition(".")
        mod = repo.modules.get(mname)
        if mod is not None and isinstance(mod.defs.get(cname), ast.ClassDef):
            out.append((mname, cname, mod.defs[cname]))
    if len(out) < 4:
        raise AnalysisError("fewer than 4 Store subclasses resolved (typed facts lost?)")
    return out


def _discover_memos(ns) -> set[str]:
    """the qname memo attributes of NamespaceManager: dict attributes written `self.M[<IRI parameter>] = (p, n, l)`"""
    memos = set()
    for mname, m in ns.methods("NamespaceManager").items():
        params = [a.arg for a in m.args.args[1:]]
        for n in own_nodes(m):
            if isinstance(n, ast.Assign):
                for t in n.targets:
                    if isinstance(t, ast.Subscript) and _self_attr(t.value) and isinstance(t.slice, ast.Name) and params \
                            and t.slice.id == params[0] and isinstance(n.value, ast.Tuple):
                        memos.add(_self_attr(t.value))
    if len(memos) < 2:
        raise AnalysisError("expected two qname memo dicts in NamespaceManager, discovered %s" % sorted(memos))
    return memos


def rule_k_prefix_identity(repo: Repo, rep: Report) -> None:
    """(k) '' is a prefix: the result of a namespace->prefix lookup is compared with None, never truth-tested"""
    from vlib import truthy

    RID = "C17.k-prefix-lookup-decided-by-identity"
    rep.rule(RID,
             "the value of a namespace->prefix lookup (Store.prefix() of any store, a read of the table a store's own prefix() reads, _coalesce() of such, "
             "or a local assigned from one) says 'this namespace has no prefix' only by being None: it is never truth-tested (if p / not p / p and .. / p or ..). "
             "'' is the empty prefix: after bind('', N), a truth test takes N for unbound - bind('p', N, override=True) leaves '' -> N behind (N listed under two "
             "prefixes), compute_qname(N) raises instead of answering ':'", floor=10)
    typed = repo.typed
    stores = _store_classes(repo)
    # the namespace->prefix table of each store class: what its prefix() reads with .get()/[...] directly on self.<attr>
    tables: dict[tuple[str, str], set[str]] = {}
    for mname, cname, cdef in stores:
        mod = repo.mod(mname)
        if mod.has(cname + ".prefix"):
            f = mod.func(cname + ".prefix")
            t = set()
            for n in own_nodes(f):
                if isinstance(n, ast.Call) and isinstance(n.func, ast.Attribute) and n.func.attr == "get" and _self_attr(n.func.value):
                    t.add(_self_attr(n.func.value))
                if isinstance(n, ast.Subscript) and isinstance(n.ctx, ast.Load) and _self_attr(n.value):
                    t.add(_self_attr(n.value))
            tables[(mname, cname)] = t
    store_mods = {m for m, _, _ in stores}
    scope = sorted(store_mods | {"rdflib.namespace"} | {m for m in repo.modules if m.startswith("rdflib.plugins.serializers")})
    for mname in scope:
        mod = repo.mod(mname)
        for q, fn in mod.functions():
            if "." in q and isinstance(mod.defs.get(q.rsplit(".", 1)[0]), (ast.FunctionDef, ast.AsyncFunctionDef)):
                continue  # nested defs are walked with their parent
            cls = q.split(".")[0] if "." in q else ""
            tabs = tables.get((mname, cls), set())
            in_binding_class = (mname, cls) in tables or (mname == "rdflib.namespace" and cls == "NamespaceManager")

            def is_lookup(e: ast.AST) -> bool:
                if not isinstance(e, (ast.Call, ast.Subscript)):
                    return False
                if isinstance(e, ast.Subscript):
                    return isinstance(e.ctx, ast.Load) and _self_attr(e.value) in tabs
                cal = typed.callees(mname, e)
                if any(c.endswith(".prefix") and typed.is_subclass(c.rsplit(".", 1)[0], "rdflib.store.Store") for c in cal):
                    return True
                if isinstance(e.func, ast.Attribute):
                    if e.func.attr == "prefix" and len(e.args) == 1 and not cal and in_binding_class:
                        return True  # unresolved (untyped receiver) inside a store / the manager
                    if e.func.attr == "get" and _self_attr(e.func.value) in tabs:
                        return True
                return False

            if not any(is_lookup(n) for n in own_nodes(fn, include_nested=True)):
                continue
            rep.analysed("%s:%s" % (mod.rel, q))
            derived: set[str] = set()
            pairs = [(t, v) for t, v in _assignments_nested(fn)]
            changed = True

            def valued(e: ast.AST) -> bool:
                """the expression IS a looked-up prefix (not merely computed from one)"""
                if is_lookup(e):
                    return True
                if isinstance(e, ast.Name):
                    return e.id in derived
                if isinstance(e, ast.Call) and isinstance(e.func, ast.Name) and e.func.id == "_coalesce":
                    return any(valued(a) for a in e.args)
                if isinstance(e, ast.IfExp):
                    return valued(e.body) or valued(e.orelse)
                return False

            while changed:
                changed = False
                for t, v in pairs:
                    if isinstance(t, ast.Name) and t.id not in derived and valued(v):
                        derived.add(t.id)
                        changed = True
            nonec = truthy.none_constants(mod)
            for n in own_nodes(fn, include_nested=True):
                if isinstance(n, ast.Compare) and len(n.ops) == 1 and isinstance(n.ops[0], (ast.Is, ast.IsNot, ast.Eq, ast.NotEq)):
                    l, r = n.left, n.comparators[0]
                    other = l if truthy._is_none(r, nonec) else (r if truthy._is_none(l, nonec) else None)
                    if other is not None and valued(other):
                        rep.ob(RID, mod, q, n, True, "bound-ness of the looked-up prefix decided by identity with None", node=n)
            seen: set[int] = set()
            for e, owner, kind in truthy.bool_contexts(fn):
                if id(e) in seen or isinstance(e, (ast.Compare, ast.Constant)):
                    continue
                seen.add(id(e))
                if valued(e):
                    ctx = norm(owner.test) if hasattr(owner, "test") else norm(owner)
                    rep.ob(RID, mod, q, "%s [in %s: %s]" % (norm(e), kind, ctx[:100]), False,
                           "the looked-up prefix is truth-tested: the empty prefix '' (a namespace bound with bind('', N)) is taken for 'no prefix'", node=e)


def _assignments_nested(fn: ast.AST):
    for n in own_nodes(fn, include_nested=True):
        if isinstance(n, ast.Assign):
            for t in n.targets:
                yield t, n.value
        elif isinstance(n, ast.AnnAssign) and n.value is not None:
            yield n.target, n.value
        elif isinstance(n, ast.NamedExpr):
            yield n.target, n.value


def rule_l_override_false(repo: Repo, rep: Report) -> None:
    """(l) bind(.., override=False) writes only a pair whose prefix and namespace are both free"""
    from vlib import h_c17 as H

    RID = "C17.l-bind-without-override-writes-only-a-free-pair"
    rep.rule(RID,
             "in every Store subclass whose bind(prefix, namespace, override) writes its own binding table(s): with override false, each table write is reached only "
             "through a test that override does not decide and that looks at the existing binding of BOTH the prefix and the namespace. Otherwise bind('q', N, "
             "override=False) while p -> N exists (NamespaceManager(bind_namespaces=..) over a store that has user bindings does this) leaves N under two prefixes, "
             "or gives an existing prefix another namespace", floor=9)
    for mname, cname, cdef in _store_classes(repo):
        mod = repo.mod(mname)
        if not mod.has(cname + ".bind"):
            continue
        fn = mod.func(cname + ".bind")
        ps = H.params_of(fn)
        if "override" not in ps or len(ps) < 3:
            continue
        writes = [n for n in own_nodes(fn) if isinstance(n, ast.Assign) and any(isinstance(t, ast.Subscript) and _self_attr(t.value) for t in n.targets)]
        if not writes:
            continue  # delegates to a wrapped store
        rep.analysed("%s:%s.bind" % (mod.rel, cname))
        g = CFG(fn)
        env = {"override": False}
        p_prefix, p_ns = ps[1], ps[2]
        guards = []
        for t in H.undecided_tests(g, env):
            cl = H.closure_names(fn, g.nodes[t].ast.test)
            if p_prefix in cl and p_ns in cl:
                guards.append(t)
        free = H.reach_under(g, env, avoid=guards)
        live = H.reach_under(g, env)
        for w in writes:
            wn = g.node_of(w, mod)
            if wn not in live:
                rep.ob(RID, mod, cname + ".bind", w, True, "not executed when override is false", node=w)
                continue
            ok = wn not in free
            rep.ob(RID, mod, cname + ".bind", w, ok,
                   "with override false, reached only through a test of the existing bindings of both %s and %s" % (p_prefix, p_ns) if ok else
                   "with override false this write is reached without any test of whether %s and %s are free: an existing binding is overwritten / the namespace "
                   "ends up under two prefixes" % (p_prefix, p_ns), node=w)


def rule_m_memo_validated(repo: Repo, rep: Report) -> None:
    """(m) a memoised qname is checked against the store before it is used"""
    RID = "C17.m-memo-checked-against-store-before-use"
    rep.rule(RID,
             "the bindings live in the store, which other graphs (other NamespaceManagers) share and which can be bound directly: every membership test `iri in "
             "self.<memo>` that decides whether a memoised (prefix, namespace, name) is returned is preceded on every path by a validation of that memo's entry for the "
             "same IRI - an `if` that compares store.namespace(entry prefix) / store.prefix(entry namespace) with the entry and resets both memos (inline or in a "
             "self-method given the entry). Otherwise g1.qname(N+'x') -> 'p:x'; g2 (same store) bind('p', M, replace=True); g1.qname(N+'x') still answers 'p:x', "
             "which now expands to M+'x'", floor=2)
    ns = repo.mod("rdflib.namespace")
    typed = repo.typed
    methods = ns.methods("NamespaceManager")
    memos = _discover_memos(ns)

    def store_lookup(e: ast.AST) -> bool:
        return isinstance(e, ast.Call) and any(
            (c.endswith(".namespace") or c.endswith(".prefix")) and typed.is_subclass(c.rsplit(".", 1)[0], "rdflib.store.Store") for c in typed.callees(ns.name, e))

    def validating_if(st: ast.AST, about: set[str]) -> bool:
        """`if <.. store lookup of a part of X .. compared ..>: reset every memo` with X among the names `about`"""
        if not isinstance(st, ast.If):
            return False
        looks = [c for c in ast.walk(st.test) if store_lookup(c) and any(isinstance(a, ast.Subscript) and isinstance(a.value, ast.Name) and a.value.id in about
                                                                          for arg in c.args for a in ast.walk(arg))]
        if not looks or not any(isinstance(c, ast.Compare) and any(l is x for l in looks for x in ast.walk(c)) for c in ast.walk(st.test)):
            return False
        got = set()
        for s in st.body:
            got |= _resets_in(s, memos)
        return got == memos

    validators: dict[str, str] = {}  # method -> the parameter that carries the entry
    for mname, m in methods.items():
        ps = [a.arg for a in m.args.args[1:]]
        for st in own_nodes(m):
            for p in ps:
                if validating_if(st, {p}):
                    validators[mname] = p
    n_tests = 0
    for mname, m in methods.items():
        tests = [c for c in own_nodes(m) if isinstance(c, ast.Compare) and len(c.ops) == 1 and isinstance(c.ops[0], (ast.In, ast.NotIn))
                 and _self_attr(c.comparators[0]) in memos]
        if not tests:
            continue
        g = CFG(m)
        for c in tests:
            n_tests += 1
            memo = _self_attr(c.comparators[0])
            key = norm(c.left)

            def entry_expr(e: ast.AST) -> bool:
                """self.<memo>.get(key) / self.<memo>[key]"""
                if isinstance(e, ast.Call) and isinstance(e.func, ast.Attribute) and e.func.attr == "get" and _self_attr(e.func.value) == memo and e.args:
                    return norm(e.args[0]) == key
                return isinstance(e, ast.Subscript) and _self_attr(e.value) == memo and norm(e.slice) == key

            entry_names = {t.id for t, v in _assignments_nested(m) if isinstance(t, ast.Name) and entry_expr(v)}
            vnodes = set()
            for nd in g.nodes:
                if nd.ast is None or nd.kind != "stmt":
                    if nd.ast is not None and nd.kind == "test" and validating_if(nd.ast, entry_names):
                        vnodes.add(nd.id)
                    continue
                for x in ast.walk(nd.ast):
                    if isinstance(x, ast.Call) and isinstance(x.func, ast.Attribute) and isinstance(x.func.value, ast.Name) and x.func.value.id == "self" \
                            and x.func.attr in validators and any(entry_expr(a) or (isinstance(a, ast.Name) and a.id in entry_names) for a in x.args):
                        vnodes.add(nd.id)
            cn = g.node_of(c, ns)
            ok = bool(vnodes) and cn not in vnodes and g.must_pass_before(cn, vnodes)
            rep.ob(RID, ns, "NamespaceManager." + mname, c, ok,
                   "the entry of %s for %s is checked against the store on every path to this test" % (memo, key) if ok else
                   "the memoised qname in %s is used without being checked against the store: a prefix rebound through another graph on the same store (or through "
                   "the store) is still answered for the old namespace" % memo, node=c)
    if n_tests == 0:
        raise AnalysisError("no `iri in self.<memo>` test found in NamespaceManager")


def rule_n_wrapper_shares_manager(repo: Repo, rep: Report) -> None:
    """(n) a Dataset/ConjunctiveGraph wrapped around another graph's store uses that graph's namespace manager"""
    RID = "C17.n-wrapper-over-a-graphs-store-shares-its-manager"
    rep.rule(RID,
             "package-wide: a ConjunctiveGraph/Dataset constructed over `<g>.store` of another graph g (a parser wrapping its target) is given g's namespace manager "
             "(`w.namespace_manager = g.namespace_manager` on every path after the construction, or the namespace_manager= argument). A wrapper left with a manager "
             "of its own creates it on first use (get_context(), bind()) and that binds the ~30 default prefixes with override into the shared store: g.bind('dct', "
             "DCTERMS); g.parse(quads) -> 'dct' is gone, DCTERMS is now 'dcterms', behind g's qname memo", floor=5)
    typed = repo.typed
    n_inst = 0
    for mname, mod in repo.modules.items():
        for q, fn in mod.functions():
            g = None
            for c in own_nodes(fn):
                if not isinstance(c, ast.Call):
                    continue
                cal = typed.callees(mname, c)
                if not any(x.endswith(".__init__") and typed.is_subclass(x[: -len(".__init__")], "rdflib.graph.ConjunctiveGraph") for x in cal):
                    continue
                store = next((k.value for k in c.keywords if k.arg == "store"), c.args[0] if c.args else None)
                if not (isinstance(store, ast.Attribute) and store.attr == "store"):
                    continue
                owner = store.value
                if isinstance(owner, ast.Name) and owner.id == "self":
                    continue  # a view a graph makes of its own store: rule g
                tf = typed.type_of(mname, owner)
                if tf is None or not any(typed.is_subclass(i, "rdflib.graph.Graph") for i in tf.items):
                    continue
                n_inst += 1
                rep.analysed("%s:%s" % (mod.rel, q))
                want = norm(owner) + ".namespace_manager"
                if any(k.arg == "namespace_manager" and norm(k.value) == want for k in c.keywords):
                    rep.ob(RID, mod, q, c, True, "constructed with the target's namespace manager", node=c)
                    continue
                # the name(s) the wrapper is assigned to
                par = mod.parent.get(id(c))
                tnames = []
                if isinstance(par, ast.Assign) and par.value is c:
                    tnames = [norm(t) for t in par.targets]
                elif isinstance(par, ast.AnnAssign) and par.value is c:
                    tnames = [norm(par.target)]
                if g is None:
                    g = CFG(fn)
                shares = set()
                for nd in g.nodes:
                    st = nd.ast
                    if nd.kind == "stmt" and isinstance(st, ast.Assign) and norm(st.value) == want and any(
                            isinstance(t, ast.Attribute) and t.attr == "namespace_manager" and norm(t.value) in tnames for t in st.targets):
                        shares.add(nd.id)
                ok = bool(shares) and g.must_pass_after(g.node_of(c, mod), shares, skip_exc=True)
                rep.ob(RID, mod, q, c, ok,
                       "followed on every path by %s.namespace_manager = %s" % ((tnames or ["?"])[0], want) if ok else
                       "the wrapper keeps a namespace manager of its own over the store of %s: its first use binds the default prefixes over the user's bindings "
                       "in the shared store" % norm(owner), node=c)
    if n_inst == 0:
        raise AnalysisError("no ConjunctiveGraph/Dataset wrapper over another graph's store found (typed resolution lost?)")


def _ns_shortcuts(repo: Repo, mod, fn: ast.AST):
    """`if U.startswith(C) ..: return <.. U ..>` with U a parameter and C a module-level / imported constant: a fixed-namespace
    shortcut of a function that splits or compacts an IRI.  yields (if-node, U, C-name, return-node)"""
    from vlib import h_c17 as H

    ps = set(H.params_of(fn))
    local = {nm for t, _ in H.assignments(fn) for nm in H.target_names(t)} | {
        nm for n in own_nodes(fn) if isinstance(n, (ast.For, ast.comprehension)) for nm in H.target_names(n.target)}
    for st in own_nodes(fn):
        if not isinstance(st, ast.If):
            continue
        for cj in H.conjuncts(st.test):
            if isinstance(cj, ast.Call) and isinstance(cj.func, ast.Attribute) and cj.func.attr == "startswith" and isinstance(cj.func.value, ast.Name) \
                    and cj.func.value.id in ps and len(cj.args) == 1 and isinstance(cj.args[0], ast.Name) and cj.args[0].id not in local | ps \
                    and H.resolve_name(repo, mod, cj.args[0].id) is not None:
                u, cn = cj.func.value.id, cj.args[0].id
                for r in st.body:
                    if isinstance(r, ast.Return) and r.value is not None and u in H.names_in(r.value):
                        yield st, u, cn, r


def _rest_slice(e: ast.AST, u: str, cn: str) -> bool:
    """U[len(C):]"""
    return (isinstance(e, ast.Subscript) and isinstance(e.value, ast.Name) and e.value.id == u and isinstance(e.slice, ast.Slice)
            and e.slice.upper is None and e.slice.step is None and e.slice.lower is not None and norm(e.slice.lower) == "len(%s)" % cn)


def rule_o_shortcut(repo: Repo, rep: Report) -> None:
    """(o) a fixed-namespace shortcut cuts the local part by position and checks that it is a name"""
    from vlib import h_c17 as H

    RID = "C17.o-fixed-namespace-shortcut-checks-the-rest"
    rep.rule(RID,
             "in rdflib.namespace and the serializers: a shortcut `if iri.startswith(NS) ..: return <NS / its prefix, rest>` for a fixed namespace NS takes the rest "
             "by position (iri[len(NS):], not iri.split(NS)[1], which stops at a second occurrence of NS) and is taken only if is_ncname(rest). Otherwise every IRI "
             "that merely starts with the XML namespace IRI is compacted: split_uri(XMLNS + '#x') -> (XMLNS, '#x') -> 'xml:#x', which is no prefixed name and does "
             "not expand back", floor=1)
    n = 0
    for mname in sorted(m for m in repo.modules if m == "rdflib.namespace" or m.startswith("rdflib.plugins.serializers")):
        mod = repo.mod(mname)
        for q, fn in mod.functions():
            for st, u, cn, r in _ns_shortcuts(repo, mod, fn):
                n += 1
                rep.analysed("%s:%s" % (mod.rel, q))
                uses = [x for x in ast.walk(r.value) if isinstance(x, ast.Name) and x.id == u]
                by_pos = all(_rest_slice(mod.parent.get(id(x)), u, cn) for x in uses)
                checked = any(isinstance(cj, ast.Call) and isinstance(cj.func, ast.Name) and cj.func.id == "is_ncname" and len(cj.args) == 1
                              and _rest_slice(cj.args[0], u, cn) for cj in H.conjuncts(st.test))
                ok = by_pos and checked
                why = []
                if not by_pos:
                    why.append("the local part is not %s[len(%s):] (a split at the namespace IRI stops at its second occurrence)" % (u, cn))
                if not checked:
                    why.append("the shortcut is taken without is_ncname(%s[len(%s):]): any IRI that starts with the namespace IRI is compacted, e.g. %s + '#x'" % (u, cn, cn))
                rep.ob(RID, mod, q, st.test, ok, "rest cut by position and checked to be a name" if ok else "; ".join(why), node=st)
    if n == 0:
        raise AnalysisError("no fixed-namespace shortcut found in rdflib.namespace / serializers")


def rule_p_xml_names_declared(repo: Repo, rep: Report) -> None:
    """(p) a constant name written through XMLWriter belongs to a namespace that is declared up-front or built into XML"""
    from vlib import h_c17 as H

    RID = "C17.p-xmlwriter-names-declared-or-built-in"
    rep.rule(RID,
             "every serializer class that writes through XMLWriter: the namespace of each CONSTANT element/attribute name it passes to push/attribute/element is one "
             "the class declares before (registered from nm.compute_qname_strict(<constant>) into the xmlns table, or given as extra_ns), or the XML namespace "
             "provided XMLWriter.qname answers names of it with the built-in prefix xml without asking the namespace manager. A name of any other namespace gets "
             "whatever prefix the manager has or generates at that moment - for xml:lang / xml:base after `bind('xml', other, replace=True)` a generated nsN that "
             "no xmlns attribute declares", floor=20)
    typed = repo.typed
    WR = "rdflib.plugins.serializers.xmlwriter.XMLWriter"
    xw = repo.mod("rdflib.plugins.serializers.xmlwriter")
    nsmod = repo.mod("rdflib.namespace")
    xmlns = H.const_string(repo, nsmod, ast.Name(id="XMLNS", ctx=ast.Load()))
    if not xmlns:
        raise AnalysisError("rdflib.namespace.XMLNS is not a constant any more")
    # built in: XMLWriter.qname has a checked shortcut for a constant that is the XML namespace
    builtin = set()
    qn = xw.func("XMLWriter.qname")
    for st, u, cn, r in _ns_shortcuts(repo, xw, qn):
        if H.namespace_of_container(repo, xw, cn) == xmlns and not any(isinstance(x, ast.Attribute) and _self_attr(x) for x in ast.walk(r.value)):
            builtin.add(xmlns)
    n_cls = 0
    for mname in sorted(m for m in repo.modules if m.startswith("rdflib.plugins.serializers")):
        mod = repo.mod(mname)
        for cname, cdef in [(k, v) for k, v in mod.defs.items() if isinstance(v, ast.ClassDef) and "." not in k]:
            meths = mod.methods(cname)
            ctor = [c for m in meths.values() for c in own_nodes(m) if isinstance(c, ast.Call) and any(x == WR + ".__init__" for x in typed.callees(mname, c))]
            if not ctor:
                continue
            n_cls += 1
            declared = set(builtin)
            for c in ctor:
                for k in c.keywords:
                    if k.arg == "extra_ns" and isinstance(k.value, ast.Dict):
                        for v in k.value.values:
                            s = H.const_string(repo, mod, v)
                            if s:
                                declared.add(s)
            known = set(declared) | {xmlns}
            for m in meths.values():
                for c in own_nodes(m):
                    if isinstance(c, ast.Call) and isinstance(c.func, ast.Attribute) and c.func.attr == "compute_qname_strict" and c.args:
                        s = H.constant_iri_namespace(repo, mod, c.args[0], known)
                        par = mod.parent.get(id(c))
                        if s is not None and isinstance(par, ast.Assign):
                            declared.add(s)
            for mn, m in meths.items():
                rep.analysed("%s:%s.%s" % (mod.rel, cname, mn))
                for c in own_nodes(m):
                    if not (isinstance(c, ast.Call) and any(x in (WR + ".push", WR + ".attribute", WR + ".element") for x in typed.callees(mname, c)) and c.args):
                        continue
                    names = [c.args[0]]
                    for k in c.keywords:
                        if k.arg == "attributes" and isinstance(k.value, ast.Dict):
                            names.extend(x for x in k.value.keys if x is not None)
                    for e in names:
                        s = H.constant_iri_namespace(repo, mod, e, known | declared)
                        if s is None:
                            continue  # a name taken from the graph: declared by the loops over the predicates / types
                        ok = s in declared
                        rep.ob(RID, mod, "%s.%s" % (cname, mn), c, ok,
                               "namespace %s is declared by the class / built into XML" % s if ok else
                               "%s is a name of %s, which the class never declares and XMLWriter.qname does not write with a built-in prefix: it is written with the "
                               "prefix the namespace manager has or generates for that namespace at that moment, without an xmlns declaration" % (norm(e), s), node=c)
    if n_cls < 2:
        raise AnalysisError("fewer than two serializer classes constructing an XMLWriter found")


def rule_q_no_hardwired_prefix(repo: Repo, rep: Report) -> None:
    """(q) XML output templates carry no hard-wired prefix of a namespace the graph can bind otherwise"""
    import re

    RID = "C17.q-no-hard-wired-prefix-in-xml-templates"
    rep.rule(RID,
             "serializers: a string template does not spell out a prefixed XML name (`<p:local`, ` p:local=`) with a fixed prefix p other than the built-in xml / "
             "xmlns: the prefix has to be the one the bindings give for the namespace at that moment (a %s filled from compute_qname_strict). A fixed 'rdf:' is only "
             "right while rdf is bound to the RDF namespace - g.bind('rdf', other, replace=True); g.serialize(format='xml') then cannot be written correctly "
             "(it failed with a bare AssertionError)", floor=3)
    pat = re.compile(r"(?:</?|\s)([A-Za-z_][\w.\-]*):[A-Za-z_][\w.\-]*(?=[\s=>/]|$)")
    for mname in sorted(m for m in repo.modules if m.startswith("rdflib.plugins.serializers")):
        mod = repo.mod(mname)
        for q, fn in mod.functions():
            doc = [s.value for s in fn.body[:1] if isinstance(s, ast.Expr) and isinstance(s.value, ast.Constant)]
            for n in own_nodes(fn):
                if not (isinstance(n, ast.Constant) and isinstance(n.value, str)) or any(n is d for d in doc):
                    continue
                par = mod.parent.get(id(n))
                if isinstance(par, ast.Expr):
                    continue  # a bare string statement
                for m in pat.finditer(n.value):
                    ok = m.group(1) in ("xml", "xmlns")
                    rep.ob(RID, mod, q, n, ok, "built-in prefix %s" % m.group(1) if ok else
                           "the template writes the fixed prefix %r: it is the right one only while the graph binds %r to the namespace meant here" % (m.group(1), m.group(1)), node=n)


def rule_r_unbinding_rebuilds_trie(repo: Repo, rep: Report) -> None:
    """(r) taking a prefix away from a namespace rebuilds the longest-namespace trie"""
    RID = "C17.r-unbinding-a-namespace-rebuilds-the-trie"
    rep.rule(RID,
             "NamespaceManager: a call that reaches Store.bind for a prefix P, made under a test that P's current namespace (a value of store.namespace(P)) differs from "
             "the new one, leaves the old namespace without a prefix; on every path after it the trie compute_qname takes the longest matching namespace from is rebuilt "
             "(all trie attributes - the instance state the manager hands to the trie functions, not a method it hands over as predicate - reset, directly or by a "
             "self-method; the call is one of a manager method that reaches Store.bind, or Store.bind itself). A trie that still holds the old namespace makes it win over a shorter bound one: bind('a', "
             "'http://e/'); bind('b', 'http://e/x/'); bind('b', 'http://o/', replace=True); curie('http://e/x/y', generate=False) -> KeyError instead of 'a:x/y'", floor=1)
    ns = repo.mod("rdflib.namespace")
    typed = repo.typed
    methods = ns.methods("NamespaceManager")
    trie_fns = {"insert_trie", "insert_strie", "get_longest_namespace"}
    # the trie attributes: instance STATE of the manager (an attribute some method assigns) handed to a trie function - not a bound method
    # of the manager that is handed over as the "is this namespace bound" predicate (a lambda before, or any other callable)
    state = {_self_attr(t) for m in methods.values() for t, _ in _assignments_nested(m) if _self_attr(t)} - set(methods)
    tries = set()
    for m in methods.values():
        for c in own_nodes(m):
            if isinstance(c, ast.Call) and isinstance(c.func, ast.Name) and c.func.id in trie_fns:
                for a in list(c.args) + [k.value for k in c.keywords]:
                    base = a.value if isinstance(a, ast.Subscript) else a
                    if _self_attr(base) in state:
                        tries.add(_self_attr(base))
    if not tries:
        raise AnalysisError("no trie attribute of NamespaceManager discovered")

    def rebuilds(stmts) -> set[str]:
        got = set()
        for s in stmts:
            got |= _resets_in(s, tries)
        return got

    rebuilders = {mn for mn, m in methods.items() if mn != "__init__" and rebuilds([s for s in own_nodes(m) if isinstance(s, ast.stmt)]) == tries}
    binders = {mn for mn, m in methods.items() if any(
        isinstance(c, ast.Call) and any(x.endswith(".bind") and typed.is_subclass(x.rsplit(".", 1)[0], "rdflib.store.Store") for x in typed.callees(ns.name, c))
        for c in own_nodes(m))}
    if not binders:
        raise AnalysisError("no NamespaceManager method calls Store.bind")
    n = 0
    for mn, m in methods.items():
        g = None
        looked = {}  # local name -> prefix expression whose namespace it holds
        for t, v in _assignments_nested(m):
            if isinstance(t, ast.Name):
                for c in ast.walk(v):
                    if isinstance(c, ast.Call) and c.args and any(x.endswith(".namespace") and typed.is_subclass(x.rsplit(".", 1)[0], "rdflib.store.Store")
                                                                  for x in typed.callees(ns.name, c)):
                        looked.setdefault(t.id, set()).add(norm(c.args[0]))
        for c in own_nodes(m):
            # a call that reaches Store.bind: through a method of the manager that does, or Store.bind itself (where the private wrapper is written out)
            if not (isinstance(c, ast.Call) and c.args and (
                    isinstance(c.func, ast.Attribute) and isinstance(c.func.value, ast.Name) and c.func.value.id == "self" and c.func.attr in binders
                    or any(x.endswith(".bind") and typed.is_subclass(x.rsplit(".", 1)[0], "rdflib.store.Store") for x in typed.callees(ns.name, c)))):
                continue
            p = norm(c.args[0])
            from vlib import h_c17 as H
            # "made under a test that P's current namespace differs": a local that holds store.namespace(P) is, on every path to the call, found unequal
            # to something by a branch taken after the local got its value - the `!=` outcome of a test, whichever way the test is spelt (`a and b != n` taken,
            # `not a or b == n` not taken, an early exit on `b == n`, a loop test) - or, as before, the call lies in the body of an `if` whose test holds such a `!=`
            holders = {nm for nm, ps in looked.items() if p in ps}
            differs = False
            for iff in H.in_true_branch(ns, _stmt_of(ns, c), m):
                for cmp_ in ast.walk(iff.test):
                    if isinstance(cmp_, ast.Compare) and len(cmp_.ops) == 1 and isinstance(cmp_.ops[0], ast.NotEq):
                        for side in (cmp_.left, cmp_.comparators[0]):
                            if isinstance(side, ast.Name) and side.id in holders:
                                differs = True
            if not differs and holders:
                if g is None:
                    g = CFG(m)
                at = g.node_of(c, ns)
                for nm in sorted(holders):
                    def unequal(e: ast.AST, nm=nm):
                        # e true <=> the local differs from the other operand (True) / equals it (False); anything else says nothing
                        if isinstance(e, ast.Compare) and len(e.ops) == 1 and isinstance(e.ops[0], (ast.NotEq, ast.Eq)) and any(
                                isinstance(side, ast.Name) and side.id == nm for side in (e.left, e.comparators[0])):
                            return isinstance(e.ops[0], ast.NotEq)
                        return None
                    if at is not None and H.fact_since_definition(g, at, nm, unequal):
                        differs = True
                        break
            if not differs:
                continue
            n += 1
            if g is None:
                g = CFG(m)
            rb = set()
            for nd in g.nodes:
                if nd.kind == "stmt" and nd.ast is not None:
                    if rebuilds([nd.ast]) == tries or any(
                            isinstance(x, ast.Call) and isinstance(x.func, ast.Attribute) and isinstance(x.func.value, ast.Name) and x.func.value.id == "self"
                            and x.func.attr in rebuilders for x in ast.walk(nd.ast)):
                        rb.add(nd.id)
            ok = bool(rb) and g.must_pass_after(g.node_of(c, ns), rb, skip_exc=True)
            rep.ob(RID, ns, "NamespaceManager." + mn, c, ok,
                   "followed on every path by a rebuild of %s" % sorted(tries) if ok else
                   "the prefix %s is taken away from its namespace here and the trie (%s) is not rebuilt afterwards: the namespace that lost its prefix still wins the "
                   "longest-namespace lookup in compute_qname" % (p, ", ".join(sorted(tries))), node=c)
    if n == 0:
        raise AnalysisError("NamespaceManager: no Store.bind call under a `current namespace != new namespace` test found")


def _stmt_of(mod, node: ast.AST) -> ast.AST:
    if isinstance(node, ast.stmt):
        return node
    for p in mod.parents(node):
        if isinstance(p, ast.stmt):
            return p
    return node


def rule_s_pname_sanitised(repo: Repo, rep: Report) -> None:
    """(s) the functions that write an N3/Turtle prefixed name from compute_qname() sanitise the local part alike"""
    from vlib import h_c17 as H

    RID = "C17.s-n3-prefixed-name-local-part-sanitised-alike"
    rep.rule(RID,
             "TurtleSerializer.getQName, LongTurtleSerializer.getQName and NamespaceManager.normalizeUri (URIRef.n3(namespace_manager)) all turn compute_qname()'s "
             "(prefix, namespace, local) into a Turtle prefixed name; each applies to the local part every character escape (.replace(c, esc)) and every "
             "`endswith(c)` -> not-a-prefixed-name test that the Turtle serializer applies. compute_qname allows '(', ')' and a trailing '.' in a local part; "
             "unescaped, URIRef('http://e/f(x)').n3(nm) = 'p:f(x)' and 'p:v1.' do not read back as the IRI", floor=6)
    sites = [("rdflib.plugins.serializers.turtle", "TurtleSerializer.getQName"), ("rdflib.plugins.serializers.longturtle", "LongTurtleSerializer.getQName"),
             ("rdflib.namespace", "NamespaceManager.normalizeUri")]
    facts = {}
    for mname, q in sites:
        mod = repo.mod(mname)
        fn = mod.func(q)
        rep.analysed("%s:%s" % (mod.rel, q))

        def is_src(e: ast.AST) -> bool:
            return isinstance(e, ast.Call) and isinstance(e.func, ast.Attribute) and e.func.attr == "compute_qname"

        if not any(is_src(x) for x in own_nodes(fn)):
            raise AnalysisError("%s does not call compute_qname any more" % q)
        der = H.derived_names(fn, is_src)

        def root(e: ast.AST) -> ast.AST:
            while True:
                if isinstance(e, ast.Call) and isinstance(e.func, ast.Attribute):
                    e = e.func.value
                elif isinstance(e, (ast.Attribute, ast.Subscript)):
                    e = e.value
                else:
                    return e

        reps, ends = set(), set()
        for c in own_nodes(fn):
            if isinstance(c, ast.Call) and isinstance(c.func, ast.Attribute) and isinstance(root(c.func.value), ast.Name) and root(c.func.value).id in der:
                if c.func.attr == "replace" and len(c.args) == 2 and all(isinstance(a, ast.Constant) and isinstance(a.value, str) for a in c.args):
                    reps.add((c.args[0].value, c.args[1].value))
                if c.func.attr == "endswith" and len(c.args) == 1 and isinstance(c.args[0], ast.Constant) and any(
                        isinstance(p, ast.If) and any(c is x for x in ast.walk(p.test)) for p in mod.parents(c)):
                    ends.add(c.args[0].value)
            # ... or the not-a-local-part test is a compiled pattern applied to the local part: `if PATTERN.search(local):`
            if isinstance(c, ast.Call) and isinstance(c.func, ast.Attribute) and c.func.attr in ("search", "match", "fullmatch") and isinstance(c.func.value, ast.Name) and c.args \
                    and isinstance(root(c.args[0]), ast.Name) and root(c.args[0]).id in der \
                    and any(isinstance(p, ast.If) and any(c is x for x in ast.walk(p.test)) for p in mod.parents(c)):
                a0 = c.args[0]
                # (a test of the PREFIX part - parts[0], or the first name of `prefix, namespace, local = parts` - is not about the local part)
                is_prefix_part = isinstance(a0, ast.Subscript) and isinstance(a0.slice, ast.Constant) and a0.slice.value == 0 or isinstance(a0, ast.Name) and any(
                    isinstance(x, ast.Assign) and isinstance(x.targets[0], ast.Tuple) and x.targets[0].elts and norm(x.targets[0].elts[0]) == a0.id for x in own_nodes(fn))
                if is_prefix_part:
                    continue
                pat = None
                for mm in (mod, repo.mod("rdflib.namespace")):
                    for st in mm.tree.body:
                        if isinstance(st, ast.Assign) and norm(st.targets[0]) == c.func.value.id and isinstance(st.value, ast.Call) and norm(st.value.func) in ("re.compile", "compile") and st.value.args:
                            try:
                                pat = ast.literal_eval(st.value.args[0])
                            except Exception:
                                pat = norm(st.value.args[0])
                    if pat is not None:
                        break
                ends.add("pattern %s.%s(%r)" % (c.func.value.id, c.func.attr, pat))
        facts[q] = (mod, fn, reps, ends)
    ref_q = sites[0][1]
    _, _, rreps, rends = facts[ref_q]
    if len(rreps) < 2 or not rends:
        raise AnalysisError("%s: the escapes of the local part were not recognised (%s, %s)" % (ref_q, sorted(rreps), sorted(rends)))
    want_r = set().union(*[f[2] for f in facts.values()])
    want_e = set().union(*[f[3] for f in facts.values()])
    for q, (mod, fn, reps, ends) in facts.items():
        for pair in sorted(want_r):
            ok = pair in reps
            rep.ob(RID, mod, q, "local part: %r -> %r" % pair, ok, "escaped as in the sibling functions" if ok else
                   "%r in the local part is not escaped to %r here, as %s does: the prefixed name written does not read back as the same IRI" % (pair[0], pair[1], ref_q), node=fn)
        for e in sorted(want_e):
            ok = e in ends
            rep.ob(RID, mod, q, "local part ending with %r is not written as a prefixed name" % e, ok, "tested as in the sibling functions" if ok else
                   "a local part ending with %r is still written as a prefixed name here (%s falls back to the IRI form): 'p:v1.' reads back as p:v1 followed by '.'" % (e, ref_q), node=fn)


def _each_in_its_own_layer(repo: Repo, rep: Report, rules) -> None:
    """one rule, one layer (DESIGN §14.2): a rule that loses its anchor on the tree or on one equivalent view does not take its
    neighbours with it, and the per-rule merge over the views can take every rule from the view that shows it best"""
    for f in rules:
        _layer(rep, f, repo)


def run(repo: Repo, rep: Report) -> None:  # noqa: F811
    _layer(rep, _run_base3, repo)
    _each_in_its_own_layer(repo, rep, (
        rule_k_prefix_identity, rule_l_override_false, rule_m_memo_validated, rule_n_wrapper_shares_manager, rule_o_shortcut,
        rule_p_xml_names_declared, rule_q_no_hardwired_prefix, rule_r_unbinding_rebuilds_trie, rule_s_pname_sanitised))


_run_base4 = run


# ======================================================================================================================
# rules t - z: one structural necessary condition per defect repaired by the second audit round (F229 - F235).
# Several of them ask what a guard of the code answers for a probe value (vlib.h_c17.StrEval: the regular expressions and
# string tests are the library's own, taken from the source; only `re`/`str` of the standard library run, on the probes).
# ======================================================================================================================
_GOOD = ("ex", "http://example.org/", "abc")
_BAD_LOCAL = (("-1", "begins with '-'"), (".x", "begins with '.'"), ("x.", "ends with '.'"), ("100%", "has a '%' that is no %HH escape"),
              ("a%zzb", "has a '%' that is no %HH escape"))
_BAD_PREFIX = (("3d", "begins with a digit"), ("v1.", "ends with '.'"), ("_", "'_:x' is a blank node label"), ("_x", "begins with '_'"),
               ("-a", "begins with '-'"))


def _n3_pname_writers(repo: Repo) -> list[tuple["object", str, ast.FunctionDef]]:
    """the functions that write a Turtle / N3 prefixed name from compute_qname(): what URIRef.n3(namespace_manager) calls on the
    manager, and every function of a serializer module that calls compute_qname itself"""
    typed = repo.typed
    out = []
    tm = repo.mod("rdflib.term")
    ns = repo.mod("rdflib.namespace")
    called = set()
    for q, fn in tm.functions():
        if q.endswith(".n3"):
            for c in own_nodes(fn):
                if isinstance(c, ast.Call):
                    for full in typed.callees(tm.name, c):
                        if full.startswith("rdflib.namespace.NamespaceManager."):
                            called.add(full.rsplit(".", 1)[1])
    for m in sorted(called):
        if ns.has("NamespaceManager." + m):
            out.append((ns, "NamespaceManager." + m, ns.func("NamespaceManager." + m)))
    if not out:
        raise AnalysisError("no n3() method of rdflib.term calls a NamespaceManager method any more (typed resolution lost?)")
    for mname in sorted(m for m in repo.modules if m.startswith("rdflib.plugins.serializers")):
        mod = repo.mod(mname)
        for q, fn in mod.functions():
            if any(isinstance(c, ast.Call) and isinstance(c.func, ast.Attribute) and c.func.attr == "compute_qname" for c in own_nodes(fn)) \
                    and _pname_returns(repo, mod, fn):
                out.append((mod, q, fn))
    # (a site that vanished shows in the floors of the rules)
    return out


def _qname_hook(probe):
    def hook(c: ast.Call):
        from vlib import h_c17 as H

        if isinstance(c.func, ast.Attribute) and c.func.attr == "compute_qname":
            return probe
        return H.UNK
    return hook


def _pname_returns(repo: Repo, mod, fn: ast.AST) -> list[ast.Return]:
    """the return statements that answer '<prefix>:<local>' of a compute_qname() result"""
    from vlib import h_c17 as H

    ev = H.probe_env(repo, mod, fn, _qname_hook(_GOOD))
    rets = []
    for r in own_nodes(fn):
        if isinstance(r, ast.Return) and r.value is not None and H.pname_parts(r.value) is not None:
            pe, le = H.pname_parts(r.value)
            # (rule f reports a prefix that is not the one compute_qname answered together with the local part)
            if ev.ev(le) == _GOOD[2] or ev.ev(pe) == _GOOD[0]:
                rets.append(r)
    return rets


def _rejected(repo: Repo, mod, fn: ast.AST, g: CFG, ret: ast.Return, probe) -> bool:
    """with compute_qname() answering `probe`, no path reaches the return: an `if` on the way sends the probe elsewhere"""
    from vlib import h_c17 as H

    ev = H.probe_env(repo, mod, fn, _qname_hook(probe))

    def decide(node):
        t = H.truth(ev.ev(node.ast.test))
        return None if t is H.UNK else t

    return g.node_of(ret, mod) not in H.reach_decided(g, decide)


def rule_t_pn_local(repo: Repo, rep: Report) -> None:
    """(t) what follows the namespace is written after the prefix only if it is a PN_LOCAL"""
    RID = "C17.t-prefixed-name-only-for-a-pn-local"
    rep.rule(RID,
             "every function that writes a Turtle / N3 prefixed name from compute_qname()'s (prefix, namespace, local) - NamespaceManager.normalizeUri (URIRef.n3) and each "
             "serializer function that calls compute_qname - reaches its `prefix:local` return only when the local part can be one: for a local part that begins with '-' or "
             "'.', ends with '.', or has a '%' that is no %HH escape, an `if` on every path to that return (a test of the local part: a pattern of the library applied to it, "
             "startswith / endswith ...) answers so that the <iri> form / None is returned instead. compute_qname cuts the IRI where an NCName can start, which is not where a "
             "PN_LOCAL can: bind('ex', 'http://e/t/'); URIRef('http://e/t/-1').n3(nm) = 'ex:-1', <http://e/t/100%> is written ex:100% - no Turtle reader accepts either", floor=15)
    for mod, q, fn in _n3_pname_writers(repo):
        rep.analysed("%s:%s" % (mod.rel, q))
        rets = _pname_returns(repo, mod, fn)
        g = CFG(fn)
        for ret in rets:
            for loc, what in _BAD_LOCAL:
                ok = _rejected(repo, mod, fn, g, ret, (_GOOD[0], _GOOD[1], loc))
                rep.ob(RID, mod, q, "local part %r (%s) -> %s" % (loc, what, norm(ret.value)), ok,
                       "not written as a prefixed name" if ok else
                       "a local part like %r (%s) still reaches `%s`: %s:%s is no prefixed name of Turtle / SPARQL and is not read back as the IRI" % (loc, what, norm(ret), _GOOD[0], loc), node=ret)


def _prefix_sanitiser_ok(repo: Repo, mod, q: str, fn: ast.AST, pos: int) -> list[tuple[str, bool, str]]:
    """obligations on a method the prefix is passed through (serializer.addNamespace): for a prefix that is no PN_PREFIX the branch that
    replaces it is taken, and the replacement is not a concatenation with the prefix as it is"""
    from vlib import h_c17 as H

    ps = H.params_of(fn)
    if pos >= len(ps):
        return [("parameter %d of %s" % (pos, q), False, "the prefix is not a parameter of the method it is passed to")]
    p = ps[pos]
    rewrites = [i for i in own_nodes(fn) if isinstance(i, ast.If) and any(
        isinstance(a, ast.Assign) and any(isinstance(t, ast.Name) and t.id == p for t in a.targets) for s in i.body for a in ast.walk(s))]
    # (also an `if` around the table write that the later `p = table.get(p, p)` reads)
    out = []
    for bad, what in _BAD_PREFIX:
        ev = H.StrEval(repo, mod, {p: bad})
        taken = [i for i in rewrites if H.truth(ev.ev(i.test)) is True]
        out.append(("prefix %r (%s) is replaced in %s" % (bad, what, q), bool(taken),
                    "the branch that gives the namespace another prefix is taken" if taken else
                    "a bound prefix like %r (%s) is not replaced: `@prefix %s: <..>` and %s:x are written, which no Turtle reader accepts%s" % (
                        bad, what, bad, bad, " (it is read as a blank node)" if bad == "_" else "")))
    def concat_of_p(b: ast.AST) -> bool:
        """a string built with the prefix as it is as one of its pieces (`"p" + prefix`, "p%s" % prefix, f"p{prefix}", .format, join)"""
        if isinstance(b, ast.BinOp) and isinstance(b.op, (ast.Add, ast.Mod)) and any(isinstance(x, ast.Name) and x.id == p for x in (b.left, b.right)):
            return True
        parts = H.str_parts(b)
        return parts is not None and len(parts) >= 2 and any(isinstance(x, ast.Name) and x.id == p for x in parts)

    raw = [b for i in rewrites for s in i.body for b in ast.walk(s) if concat_of_p(b)]
    out.append(("the replacement prefix in %s" % q, not raw,
                "built character by character / not from the prefix as it is" if not raw else
                "the replacement is `%s`: the prefix that is no PN_PREFIX concatenated as it is - for 'v1.' the new prefix 'pv1.' is none either" % norm(raw[0])))
    if not rewrites:
        out.append(("%s replaces the prefix" % q, False, "no branch of the method assigns another prefix"))
    return out


def rule_u_pn_prefix(repo: Repo, rep: Report) -> None:
    """(u) the prefix written before ':' is a PN_PREFIX"""
    from vlib import h_c17 as H

    RID = "C17.u-prefixed-name-only-with-a-pn-prefix"
    rep.rule(RID,
             "every function that writes a Turtle / N3 prefixed name from compute_qname() (as in rule t): for a bound prefix that is no PN_PREFIX ('3d', 'v1.', '_', '-a') either an "
             "`if` on every path to the `prefix:local` return sends it elsewhere (<iri> form), or the prefix written is the answer of a method of the class that the bound prefix "
             "was passed through on every path (addNamespace), which for each such prefix takes the branch that assigns another one and does not build that one by concatenating the "
             "prefix as it is. bind() accepts any string: bind('3d', N) makes URIRef(N+'p').n3(nm) '3d:p', bind('_', N) makes it '_:p' - a blank node label", floor=17)
    typed = repo.typed
    for mod, q, fn in _n3_pname_writers(repo):
        rets = _pname_returns(repo, mod, fn)
        g = CFG(fn)
        for ret in rets:
            pe, _ = H.pname_parts(ret.value)
            escaped = [(bad, what) for bad, what in _BAD_PREFIX if not _rejected(repo, mod, fn, g, ret, (bad, _GOOD[1], _GOOD[2]))]
            if not escaped:
                for bad, what in _BAD_PREFIX:
                    rep.ob(RID, mod, q, "prefix %r (%s) -> %s" % (bad, what, norm(ret.value)), True, "not written as a prefixed name", node=ret)
                continue
            # the prefix written is what a method of the class made of the bound one
            san = None
            if isinstance(pe, ast.Name):
                ev = H.probe_env(repo, mod, fn, _qname_hook(_GOOD))
                for st in own_nodes(fn):
                    if isinstance(st, ast.Assign) and any(isinstance(t, ast.Name) and t.id == pe.id for t in st.targets) and isinstance(st.value, ast.Call) \
                            and isinstance(st.value.func, ast.Attribute) and isinstance(st.value.func.value, ast.Name) and st.value.func.value.id == "self":
                        pos = [i for i, a in enumerate(st.value.args) if ev.ev(a) == _GOOD[0]]
                        if pos and g.must_pass_before(g.node_of(ret, mod), {g.node_of(st, mod)}):
                            for full in typed.callees(mod.name, st.value):
                                mq = H.module_qual(repo, full)
                                if mq is not None and mq[0].has(mq[1]):
                                    san = (mq[0], mq[1], mq[0].func(mq[1]), pos[0] + 1)
            if san is None:
                for bad, what in escaped:
                    rep.ob(RID, mod, q, "prefix %r (%s) -> %s" % (bad, what, norm(ret.value)), False,
                           "a bound prefix like %r (%s) still reaches `%s` as it is: %s:%s is no prefixed name and is not read back as the IRI" % (
                               bad, what, norm(ret), bad, _GOOD[2]), node=ret)
                continue
            smod, sq, sfn, spos = san
            rep.analysed("%s:%s" % (smod.rel, sq))
            for what, ok, why in _prefix_sanitiser_ok(repo, smod, sq, sfn, spos):
                rep.ob(RID, smod, sq, what, ok, why, node=sfn)


def rule_v_jsonld_context_terms(repo: Repo, rep: Report) -> None:
    """(v) the context generated from the bindings has no term '_' (nor '')"""
    from vlib import h_c17 as H

    RID = "C17.v-generated-jsonld-context-leaves-out-unusable-prefixes"
    rep.rule(RID,
             "serializers/jsonld.py: a comprehension / loop over `<graph>.namespaces()` whose (prefix, namespace) pairs become the terms of a generated @context filters out "
             "the prefix '_' and the empty prefix (its `if` conditions are false for them) and keeps an ordinary pair. With a term '_', the compact form of N+'s' is '_:s', "
             "which every JSON-LD reader takes for a blank node identifier: g.bind('_', N); g.serialize(format='json-ld', auto_compact=True) reads back with blank nodes in "
             "place of the IRIs", floor=2)
    jm = repo.mod("rdflib.plugins.serializers.jsonld")
    n = 0
    for q, fn in jm.functions():
        for c in own_nodes(fn):
            gens = []
            if isinstance(c, (ast.GeneratorExp, ast.ListComp, ast.DictComp, ast.SetComp)):
                gens = [(g.target, g.iter, list(g.ifs)) for g in c.generators]
            elif isinstance(c, ast.For):
                # `for p, n in g.namespaces(): if <cond>: table[p] = n`
                conds = [s.test for s in c.body if isinstance(s, ast.If)] if len(c.body) == 1 else []
                gens = [(c.target, c.iter, conds)]
            for tgt, it, ifs in gens:
                if not (isinstance(it, ast.Call) and isinstance(it.func, ast.Attribute) and it.func.attr == "namespaces" and isinstance(tgt, ast.Tuple)
                        and len(tgt.elts) == 2 and all(isinstance(x, ast.Name) for x in tgt.elts)):
                    continue
                n += 1
                rep.analysed("%s:%s" % (jm.rel, q))
                pn, nn = tgt.elts[0].id, tgt.elts[1].id  # type: ignore[attr-defined]

                def kept(pfx: str, nsiri: str):
                    ev = H.StrEval(repo, jm, {pn: pfx, nn: nsiri})
                    v = True
                    for t in ifs:
                        tv = H.truth(ev.ev(t))
                        if tv is False:
                            return False
                        if tv is H.UNK:
                            v = H.UNK
                    return v

                if kept("ex", "http://example.org/") is not True:
                    raise AnalysisError("%s: the conditions of the context generated from %s are not decided for an ordinary binding" % (q, norm(it)))
                for pfx, what in (("_", "'_:s' is a blank node identifier"), ("", "the empty string is no term")):
                    ok = kept(pfx, "http://example.org/") is False
                    rep.ob(RID, jm, q, "prefix %r in the context generated from %s" % (pfx, norm(it)), ok, "left out" if ok else
                           "a binding of the prefix %r becomes a term of the generated context (%s): IRIs of its namespace are written %s:local and do not read back as "
                           "those IRIs" % (pfx, what, pfx), node=c)
    # (a context that is no longer generated from graph.namespaces() shows in the floor)


def rule_w_trie_answer_bound(repo: Repo, rep: Report) -> None:
    """(w) a namespace taken from the trie is a bound one"""
    from vlib import h_c17 as H
    from vlib import truthy

    RID = "C17.w-longest-namespace-from-the-trie-is-a-bound-one"
    rep.rule(RID,
             "NamespaceManager keeps in its trie every namespace it was asked about (insert_strie of the split of the IRI asked, in compute_qname* / normalizeUri), bound or not. "
             "Every call of the trie look-up (get_longest_namespace) from the manager therefore gives a predicate that says whether a namespace is bound - a lambda / function "
             "whose body compares a Store.prefix() look-up with None - and the look-up answers a key only under a call of that predicate on the key, passing it on when it "
             "recurses. Otherwise bind('ex', 'http://e/'); a failed compute_qname_strict('http://e/a/1') leaves 'http://e/a/' in the trie; then curie('http://e/a/b', "
             "generate=False) raises KeyError instead of 'ex:a/b', and URIRef('http://e/a/b').n3(nm) binds a new prefix ns1. (Counted: one obligation per call of the "
             "look-up from the manager and one per place where the look-up answers a key - at least one of each, or the rule has lost its anchor - and one per call of "
             "itself, of which a look-up that walks the levels in a loop has none)", floor=2)
    ns = repo.mod("rdflib.namespace")
    typed = repo.typed
    methods = ns.methods("NamespaceManager")
    LOOK = "get_longest_namespace"  # a public name of rdflib.namespace; the function is taken where it lives now (it may be imported)
    found = H.resolve_function(repo, ns, LOOK)
    if found is None:
        raise AnalysisError("anchor vanished: %s:%s not found (neither defined in nor imported into the module)" % (ns.rel, LOOK))
    lmod, lf = found
    rep.analysed("%s:%s" % (lmod.rel, lf.name))
    # the trie also holds namespaces that were only looked at: an insertion of (a part of) the split of a parameter
    looked = []
    for mn, m in methods.items():
        ps = {a.arg for a in m.args.args[1:]}
        split_names = H.derived_names(m, lambda e: isinstance(e, ast.Call) and isinstance(e.func, ast.Name) and e.func.id == "split_uri" and bool(
            e.args) and isinstance(e.args[0], ast.Name) and e.args[0].id in ps)
        for c in own_nodes(m):
            if isinstance(c, ast.Call) and isinstance(c.func, ast.Name) and c.func.id in ("insert_strie", "insert_trie") and any(
                    isinstance(x, ast.Name) and x.id in split_names for a in c.args for x in ast.walk(a)):
                looked.append((mn, c))
    if not looked:
        rep.ob(RID, ns, "NamespaceManager", "no namespace that was only looked at is put in the trie", True, "the trie holds bound namespaces only", node=ns.cls("NamespaceManager"))
        return
    lparams = H.params_of(lf)
    nonec = truthy.none_constants(ns)
    # the predicate parameter(s) of the look-up, by role: the parameters it calls
    pred_params = [p for p in lparams if any(isinstance(c, ast.Call) and isinstance(c.func, ast.Name) and c.func.id == p for c in own_nodes(lf))]

    def says_bound(body: ast.AST) -> bool:
        """the callable's body compares a Store.prefix() look-up with None"""
        for c in ast.walk(body):
            if isinstance(c, ast.Compare) and len(c.ops) == 1 and isinstance(c.ops[0], (ast.Is, ast.IsNot)) and truthy._is_none(c.comparators[0], nonec):
                for x in ast.walk(c.left):
                    if isinstance(x, ast.Call) and isinstance(x.func, ast.Attribute) and x.func.attr == "prefix" and (
                            any(f.endswith(".prefix") and typed.is_subclass(f.rsplit(".", 1)[0], "rdflib.store.Store") for f in typed.callees(ns.name, x))
                            or norm(x.func.value) == "self.store"):
                        return True
        return False

    def bound_predicate(e: ast.AST, m: ast.AST) -> bool:
        """every callable the argument can evaluate to (a lambda, a function, a method of the manager, a local bound to one) is such a predicate"""
        bodies = H.callable_bodies(repo, ns, methods, m, e)
        return bool(bodies) and all(says_bound(b) for b in bodies)

    n_sites = 0
    for mn, m in methods.items():
        for c in own_nodes(m):
            if not (isinstance(c, ast.Call) and isinstance(c.func, ast.Name) and c.func.id == LOOK):
                continue
            n_sites += 1
            bound = H.bound_arguments(lf, c) or {}
            ok = any(bound_predicate(e, m) for p, e in bound.items() if p in pred_params)
            rep.ob(RID, ns, "NamespaceManager." + mn, c, ok,
                   "only a namespace that has a prefix is taken from the trie" if ok else
                   "the longest namespace of the trie is taken whether it is bound or not (the trie also has every namespace %s was asked about): a namespace that was merely "
                   "looked at hides the bound shorter one - KeyError with generate=False, a new nsN prefix otherwise" % looked[0][0], node=c)
    if n_sites == 0:
        raise AnalysisError("NamespaceManager: no call of %s found (the trie is filled with looked-at namespaces, but how it is read was not recognised)" % LOOK)
    # the look-up honours the predicate: whatever it answers besides None and the answer of a call of itself (a key of the trie, however the
    # levels are walked - recursion, a loop that collects the chain of matching keys and tries them from the deepest ...) was accepted by the
    # predicate: on every path to the return, after the last binding of the name answered, a branch is taken that `pred(name)` being true
    # (or no predicate having been given) implies
    g = CFG(lf)

    def is_self_call(e: ast.AST) -> bool:
        return isinstance(e, ast.Call) and isinstance(e.func, ast.Name) and e.func.id in (LOOK, lf.name)

    def value_kinds(name: str) -> set[str]:
        """what a local of the look-up can hold: 'none', 'sub' (the answer of a call of itself), 'key' (anything else)"""
        kinds = set()
        for t, v in H.assignments(lf):
            if isinstance(t, ast.Name) and t.id == name:
                kinds.add("none" if truthy._is_none(v, nonec) else "sub" if is_self_call(v) else "key")
            elif name in H.target_names(t):
                kinds.add("key")
        for n in own_nodes(lf):
            if isinstance(n, (ast.For, ast.AsyncFor)) and name in H.target_names(n.target):
                kinds.add("key")
            if isinstance(n, ast.withitem) and n.optional_vars is not None and name in H.target_names(n.optional_vars):
                kinds.add("key")
        if name in lparams:
            kinds.add("key")
        return kinds

    def accepted_fact(key: str):
        def atom(e: ast.AST):
            if isinstance(e, ast.Call) and isinstance(e.func, ast.Name) and e.func.id in pred_params and len(e.args) == 1 and not e.keywords and norm(e.args[0]) == key:
                return True
            # no predicate given: every namespace is accepted (the manager gives one at each of its calls, see above)
            if isinstance(e, ast.Compare) and len(e.ops) == 1 and isinstance(e.ops[0], (ast.Is, ast.IsNot)) and isinstance(e.left, ast.Name) \
                    and e.left.id in pred_params and truthy._is_none(e.comparators[0], nonec):
                return isinstance(e.ops[0], ast.Is)
            return None
        return atom

    def accepted_at(name: str, at: int, depth: int) -> bool:
        """at the CFG node `at`, the local `name` holds None, an answer of a call of itself, or a key the predicate has accepted: every binding of it is
        one of the first two, a copy `name = k` made where k is such a value, or (a loop variable, an element taken from a container ...) followed, on
        every path from it to `at`, by a branch that `pred(name)` being true implies"""
        if depth > 3:
            return False
        direct: set[int] = set()
        for nid in H.definition_nodes(g, name):
            st = g.nodes[nid].ast
            v = st.value if g.nodes[nid].kind == "stmt" and isinstance(st, (ast.Assign, ast.AnnAssign)) and all(isinstance(t, ast.Name) for t in (
                st.targets if isinstance(st, ast.Assign) else [st.target])) else None
            if v is not None and (truthy._is_none(v, nonec) or is_self_call(v)):
                continue
            if isinstance(v, ast.Name) and v.id != name and v.id not in pred_params:
                if not accepted_at(v.id, nid, depth + 1):
                    return False
                continue
            direct.add(nid)
        if name in lparams:
            direct.add(g.entry)
        return not direct or H.fact_since_definition(g, at, name, accepted_fact(name), defs=direct)

    n_answers = 0
    for r in own_nodes(lf):
        if not (isinstance(r, ast.Return) and r.value is not None) or truthy._is_none(r.value, nonec) or is_self_call(r.value):
            continue
        if isinstance(r.value, ast.Name) and "key" not in value_kinds(r.value.id):
            continue  # None / what the call of itself answered: judged where that answer was made
        n_answers += 1
        ok = bool(pred_params) and isinstance(r.value, ast.Name) and accepted_at(r.value.id, g.node_of(r, lmod), 0)
        # (an answer computed in a form that is not followed is not shown to have been accepted)
        rep.ob(RID, lmod, lf.name, r, ok, "answered only if the predicate accepts the key" if ok else
               "a key of the trie is answered without asking the caller's predicate: an unbound namespace can be the answer", node=r)
    if n_answers == 0:
        raise AnalysisError("%s: the return of a key of the trie was not recognised" % LOOK)
    for c in own_nodes(lf):
        if is_self_call(c):
            bound = H.bound_arguments(lf, c) or {}
            ok = bool(pred_params) and any(isinstance(bound.get(p), ast.Name) and bound[p].id == p for p in pred_params)
            rep.ob(RID, lmod, lf.name, c, ok, "the predicate is passed on" if ok else "the recursion into the sub-trie drops the predicate", node=c)


def rule_x_from_n3_unescapes(repo: Repo, rep: Report) -> None:
    """(x) from_n3 undoes the escapes the writers of prefixed names apply to the local part"""
    from vlib import h_c17 as H

    RID = "C17.x-from-n3-decodes-the-local-part-escapes"
    rep.rule(RID,
             "rdflib.util.from_n3 is the inverse of n3(): for every escape c -> \\c that a writer of prefixed names (rule t's functions) applies to the local part "
             "(`.replace(c, '\\\\' + c)`), the part of from_n3 that splits 'prefix:local' (an assignment from a string method of its parameter given ':' that yields ('ex', .., 'abc') for 'ex:abc' - split, partition, unpacked or indexed) turns the escaped local part back before it is appended to the namespace: evaluated on "
             "'f' + esc + 'x', the statements between the split and the return give 'f' + c + 'x' to the returned IRI. URIRef('http://example.org/f(x)').n3(nm) is 'ex:f\\(x\\)'; "
             "from_n3 of that returned <http://example.org/f\\(x\\)>", floor=2)
    pairs = set()
    for mod, q, fn in _n3_pname_writers(repo):
        der = H.derived_names(fn, lambda e: isinstance(e, ast.Call) and isinstance(e.func, ast.Attribute) and e.func.attr == "compute_qname")
        for c in own_nodes(fn):
            if isinstance(c, ast.Call) and isinstance(c.func, ast.Attribute) and c.func.attr == "replace" and len(c.args) == 2 and all(
                    isinstance(a, ast.Constant) and isinstance(a.value, str) for a in c.args):
                r = c.func.value
                while isinstance(r, ast.Call) and isinstance(r.func, ast.Attribute):
                    r = r.func.value
                if isinstance(r, ast.Name) and r.id in der:
                    pairs.add((c.args[0].value, c.args[1].value))
    if len(pairs) < 2:
        raise AnalysisError("the escapes of the local part in the writers of prefixed names were not recognised: %s" % sorted(pairs))
    um = repo.mod("rdflib.util")
    fn = um.func("from_n3")
    rep.analysed("%s:from_n3" % um.rel)
    ps = set(H.params_of(fn))
    # the split of 'prefix:local', by what it computes: an assignment from a string method of a parameter, given ":", that for the text
    # 'ex:abc' gives a sequence that begins with 'ex' and ends with 'abc' - s.split(":", 1), s.partition(":") ..., unpacked into two or
    # three names or kept under one name and indexed
    probe_txt = "%s:%s" % (_GOOD[0], _GOOD[2])
    splits = []
    for a in own_nodes(fn):
        if not (isinstance(a, ast.Assign) and len(a.targets) == 1 and isinstance(a.value, ast.Call) and isinstance(a.value.func, ast.Attribute)
                and isinstance(a.value.func.value, ast.Name) and a.value.func.value.id in ps and a.value.args
                and isinstance(a.value.args[0], ast.Constant) and a.value.args[0].value == ":"):
            continue
        got = H.StrEval(repo, um, {a.value.func.value.id: probe_txt}).ev(a.value)
        if isinstance(got, (tuple, list)) and len(got) >= 2 and got[0] == _GOOD[0] and got[-1] == _GOOD[2]:
            splits.append(a)
    if not splits:
        raise AnalysisError("from_n3: the split of 'prefix:local' was not found")
    for sp in splits:
        blk = None
        par = um.parent.get(id(sp))
        for f in ("body", "orelse", "finalbody"):
            b = getattr(par, f, None)
            if isinstance(b, list) and any(s is sp for s in b):
                blk = b
        if blk is None:
            raise AnalysisError("from_n3: block of the split not found")
        after = blk[[i for i, s in enumerate(blk) if s is sp][0] + 1:]
        src = sp.value.func.value.id  # type: ignore[attr-defined]

        def run_block(ev, stmts):
            """the string values that go into the returned term, or None when no return is reached on a decided path"""
            for st in stmts:
                if isinstance(st, (ast.Assign, ast.AnnAssign)) and st.value is not None:
                    tg = st.targets if isinstance(st, ast.Assign) else [st.target]
                    v = ev.ev(st.value)
                    for t in tg:
                        for nm in H.target_names(t):
                            ev.env[nm] = v if isinstance(t, ast.Name) else H.UNK
                elif isinstance(st, ast.If):
                    tv = H.truth(ev.ev(st.test))
                    if tv is H.UNK:
                        raise AnalysisError("from_n3: `if %s` after the split of 'prefix:local' is not decided for a probe" % norm(st.test)[:60])
                    r = run_block(ev, st.body if tv else st.orelse)
                    if r is not None:
                        return r
                elif isinstance(st, ast.Return) and st.value is not None:
                    vals = [ev.ev(x) for x in ast.walk(st.value) if isinstance(x, (ast.Name, ast.Call, ast.BinOp, ast.Subscript))]
                    return [v for v in vals if isinstance(v, str) and v != _GOOD[0]]
                elif not isinstance(st, (ast.Expr, ast.Pass, ast.Assert)):
                    raise AnalysisError("from_n3: statement form %s after the split of 'prefix:local' is not modelled" % type(st).__name__)
            return None

        for c, esc in sorted(pairs):
            ev = H.StrEval(repo, um, {src: "%s:f%sx" % (_GOOD[0], esc)})
            # (the names the split is unpacked into get the pieces the split gives for this text)
            H.bind_target(ev.env, sp.targets[0], ev.ev(sp.value))
            del ev.env[src]  # what follows is judged on the pieces alone
            got = run_block(ev, after)
            if got is None:
                raise AnalysisError("from_n3: no return follows the split of 'prefix:local'")
            want = "f" + c + "x"
            ok = bool(got) and all(v.endswith(want) for v in got)
            rep.ob(RID, um, "from_n3", "local part %r of a prefixed name (written for %r)" % ("f" + esc + "x", want), ok,
                   "decoded to %r" % want if ok else
                   "the local part goes into the IRI as %s: the escape %r that n3() writes for %r is not undone, from_n3(x.n3(nm), nsm=nm) != x" % (
                       got if got else "a value the statements do not decide", esc, c), node=sp)


def _is_emptiness_test(test: ast.AST, what: str) -> bool:
    """the expression (normalised text `what`) is truth-tested or compared with '' somewhere in the condition"""
    for x in ast.walk(test):
        if isinstance(x, ast.UnaryOp) and isinstance(x.op, ast.Not) and norm(x.operand) == what:
            return True
        if isinstance(x, ast.BoolOp) and any(norm(v) == what for v in x.values):
            return True
        if isinstance(x, ast.Compare) and len(x.ops) == 1 and isinstance(x.ops[0], (ast.Eq, ast.NotEq)) and (
                norm(x.left) == what and isinstance(x.comparators[0], ast.Constant) and x.comparators[0].value == ""
                or norm(x.comparators[0]) == what and isinstance(x.left, ast.Constant) and x.left.value == ""):
            return True
    return norm(test) == what


def rule_y_rdf_prefix_not_empty(repo: Repo, rep: Report) -> None:
    """(y) the prefix the RDF names are written with is not the empty one"""
    from vlib import h_c17 as H

    RID = "C17.y-prefix-of-the-rdf-names-looked-up-tested-declared"
    rep.rule(RID,
             "RDF/XML serializers: a prefix taken from compute_qname_strict(<a constant name of the RDF namespace>) - the prefix rdf:about, rdf:resource, rdf:datatype, rdf:nodeID "
             "are written with - is tested for being empty (truth test / comparison with '') on every path from the look-up on, before it is declared and used: an XML attribute "
             "without a prefix is in no namespace. g.bind('', RDF); g.serialize(format='pretty-xml') wrote about=\"..\" datatype=\"..\", which reads back as other triples "
             "(format='xml' wrote '<:RDF' when 'rdf' was taken as well). And the RDF namespace is declared under that very prefix: on every path from the look-up on there is "
             "a write `table[<that prefix>] = <the namespace of the same look-up>` into an xmlns table - a declaration under a fixed 'rdf' while the names are written with the "
             "prefix the manager answered (bind('r', RDF)) leaves <r:RDF> undeclared. And a class that writes its tags with string templates fills the prefix slot of a name "
             "(`%s:RDF`, ` %s:about=`) from a value that has a look-up among its definitions (followed through locals and self attributes): a slot that only ever receives "
             "constants is a hard-wired prefix (rule q), right only while the graph binds it to that namespace - g.bind('rdf', other, replace=True); "
             "g.serialize(format='xml') failed with a bare AssertionError", floor=12)
    nsm = repo.mod("rdflib.namespace")
    rdfns = H.namespace_of_container(repo, nsm, "RDF")
    if not rdfns:
        raise AnalysisError("rdflib.namespace.RDF: namespace IRI not resolved")
    n = 0
    for mname in sorted(m for m in repo.modules if m.startswith("rdflib.plugins.serializers")):
        mod = repo.mod(mname)
        for q, fn in mod.functions():
            g = None
            lev = None
            for st in own_nodes(fn):
                if not isinstance(st, ast.Assign) or len(st.targets) != 1:
                    continue
                v = st.value
                idx = None
                if isinstance(v, ast.Subscript) and isinstance(v.slice, ast.Constant):
                    idx, v = v.slice.value, v.value
                if not (isinstance(v, ast.Call) and isinstance(v.func, ast.Attribute) and v.func.attr in ("compute_qname_strict", "compute_qname") and v.args):
                    continue
                # a constant of the RDF namespace?
                s = H.constant_iri_namespace(repo, mod, v.args[0], [rdfns])
                if s is None:
                    if lev is None:
                        lev = H.probe_env(repo, mod, fn, None)
                    cv = lev.ev(v.args[0])
                    s = rdfns if isinstance(cv, str) and cv.startswith(rdfns) else None
                if s != rdfns:
                    continue
                t = st.targets[0]
                nsn = None
                if idx is None and isinstance(t, ast.Tuple) and len(t.elts) == 3:
                    pfx = norm(t.elts[0])
                    nsn = {x.id for x in ast.walk(t.elts[1]) if isinstance(x, ast.Name)}
                elif idx == 0:
                    pfx = norm(t)
                else:
                    continue
                n += 1
                rep.analysed("%s:%s" % (mod.rel, q))
                if g is None:
                    g = CFG(fn)
                tests = {nd.id for nd in g.nodes if nd.kind == "test" and isinstance(nd.ast, (ast.If, ast.While)) and _is_emptiness_test(nd.ast.test, pfx)}
                ok = bool(tests) and g.must_pass_after(g.node_of(st, mod), tests, skip_exc=True)
                rep.ob(RID, mod, q, st, ok, "%s is tested for being empty before it is used" % pfx if ok else
                       "the prefix bound to the RDF namespace (%s) is used for the RDF names without a test for the empty prefix: with bind('', RDF) the attributes rdf:about / "
                       "rdf:resource / rdf:datatype are written without a prefix, i.e. in no namespace" % pfx, node=st)
                if lev is None:
                    lev = H.probe_env(repo, mod, fn, None)
                decls = set()
                for nd in g.nodes:
                    w = nd.ast
                    if nd.kind == "stmt" and isinstance(w, ast.Assign) and len(w.targets) == 1 and isinstance(w.targets[0], ast.Subscript) and norm(w.targets[0].slice) == pfx:
                        wv = lev.ev(w.value)
                        if (nsn and H.names_in(w.value) & nsn) or (isinstance(wv, str) and wv == rdfns):
                            decls.add(nd.id)
                ok2 = bool(decls) and g.must_pass_after(g.node_of(st, mod), decls, skip_exc=True)
                rep.ob(RID, mod, q, "the RDF namespace is declared under %s (looked up by %s)" % (pfx, norm(st.value)), ok2,
                       "declared under the prefix that was looked up, on every path" if ok2 else
                       "on some path after the look-up the RDF namespace is not declared under the prefix that was looked up (%s), which is the one the RDF names are written "
                       "with: after bind('r', RDF) the document has <r:RDF ..> and no xmlns:r" % pfx, node=st)
    # the prefix slot of a name in a tag template is filled from a looked-up value
    for mname in sorted(m for m in repo.modules if m.startswith("rdflib.plugins.serializers")):
        mod = repo.mod(mname)
        for q, fn in mod.functions():
            cname = q.split(".")[0] if "." in q and isinstance(mod.defs.get(q.split(".")[0]), ast.ClassDef) else ""
            for tmpl, slot, e, shown in _prefix_slots(mod, fn):
                src = _prefix_slot_sources(mod, cname, fn, e, set())
                if "other" in src and "lookup" not in src:
                    continue  # filled from a parameter / a computed name: not a prefix the class chose
                rep.analysed("%s:%s" % (mod.rel, q))
                ok = "lookup" in src
                rep.ob(RID, mod, q, "%s in %s, filled from %s" % (slot, shown[:50], norm(e)), ok,
                       "the prefix has a look-up among its definitions" if ok else
                       "the prefix slot of %s only ever receives constants (%s): a hard-wired prefix - when the graph binds it to another namespace the RDF names are written "
                       "in that namespace (or serialisation fails)" % (slot, norm(e)), node=tmpl)


def _prefix_slot_sources(mod, cname: str, fn: ast.AST, e: ast.AST, seen: set) -> set[str]:
    """kinds of the definitions a value is made of: 'const', 'lookup' (of compute_qname*), 'other'; locals and self attributes are followed"""
    key = norm(e)
    if key in seen:
        return set()
    seen = seen | {key}
    if isinstance(e, ast.Constant):
        return {"const"}
    if any(isinstance(c, ast.Call) and isinstance(c.func, ast.Attribute) and c.func.attr in ("compute_qname", "compute_qname_strict") for c in ast.walk(e)):
        return {"lookup"}
    if isinstance(e, ast.BinOp) and isinstance(e.op, (ast.Mod, ast.Add)):
        l, r = _prefix_slot_sources(mod, cname, fn, e.left, seen), _prefix_slot_sources(mod, cname, fn, e.right, seen)
        # ("rdf%s" % num: a constant with a counter)
        return (l | r) - {"other"} if "const" in l else l | r
    if isinstance(e, (ast.JoinedStr, ast.Call)):
        # the same in another spelling: f"rdf{num}", "rdf{}".format(num), "".join(["rdf", num])
        from vlib import h_c17 as H

        parts = H.str_parts(e)
        if parts is not None and any(not isinstance(x, str) for x in parts):
            out0: set[str] = set()
            for x in parts:
                out0 |= {"const"} if isinstance(x, str) else _prefix_slot_sources(mod, cname, fn, x, seen)
            return out0 - {"other"} if any(isinstance(x, str) for x in parts) else out0
    if isinstance(e, ast.Tuple):
        out: set[str] = set()
        for x in e.elts:
            out |= _prefix_slot_sources(mod, cname, fn, x, seen)
        return out
    if isinstance(e, ast.Name):
        defs = [v for t, v in _assignments_nested(fn) if isinstance(t, ast.Name) and t.id == e.id]
        if not defs:
            return {"other"}
        out = set()
        for v in defs:
            out |= _prefix_slot_sources(mod, cname, fn, v, seen)
        return out
    if _self_attr(e) and cname:
        out = set()
        n_defs = 0
        for m in mod.methods(cname).values():
            for t, v in _assignments_nested(m):
                if _self_attr(t) == _self_attr(e):
                    n_defs += 1
                    out |= _prefix_slot_sources(mod, cname, m, v, seen)
        return out if n_defs else {"other"}
    return {"other"}


def _prefix_slots(mod, fn: ast.AST):
    """(template node, slot text, the expression that fills it, the template as shown) of every value that a string template
    (%-format, f-string, str.format, `x + ":name"`: H.interpolations) puts in through str() right before ':' and a name"""
    import re

    from vlib import h_c17 as H

    seen: set[int] = set()
    for b in own_nodes(fn):
        for e, plain, after, shown in H.interpolations(b):
            if plain and len(after) >= 2 and after[0] == ":" and (after[1].isalpha() or after[1] == "_") and id(e) not in seen:
                seen.add(id(e))
                name = re.match(r"[\w.\-]+", after[1:])
                yield b, "%s:" + (name.group(0) if name else ""), e, shown


def rule_z_xml_namespace_not_declared(repo: Repo, rep: Report) -> None:
    """(z) no prefix is declared for the XML namespace; its names are written xml:name"""
    from vlib import h_c17 as H

    RID = "C17.z-xml-namespace-is-never-declared"
    rep.rule(RID,
             "RDF/XML serializers: (1) a (prefix, namespace) pair taken from compute_qname_strict(<an IRI of the graph>) is put in a table of xmlns declarations only under "
             "a test that the namespace is not the XML namespace (a comparison with the constant XMLNS): xml is the only prefix of that namespace and may not be declared; "
             "(2) a class that writes element names from qname_strict() itself (no XMLWriter, whose qname() has the xml: shortcut of rule o) replaces that name under a "
             "comparison of the IRI's namespace with XMLNS. g.add((s, URIRef(XMLNS + 'lang'), o)) without an 'xml' binding wrote xmlns:ns1=\"http://www.w3.org/XML/1998/namespace\" "
             "and <ns1:lang>, which no XML parser accepts", floor=4)
    nsm = repo.mod("rdflib.namespace")
    xmlns = H.const_string(repo, nsm, ast.Name(id="XMLNS", ctx=ast.Load()))
    if not xmlns:
        raise AnalysisError("rdflib.namespace.XMLNS is not a constant any more")
    rdfns = H.namespace_of_container(repo, nsm, "RDF")

    def mentions_xmlns(mod, test: ast.AST, names: set[str], ops) -> bool:
        for c in ast.walk(test):
            if isinstance(c, ast.Compare) and len(c.ops) == 1 and isinstance(c.ops[0], ops):
                sides = (c.left, c.comparators[0])
                for a, b in (sides, sides[::-1]):
                    if isinstance(a, ast.Name) and H.const_string(repo, mod, a) == xmlns and (H.names_in(b) & names):
                        return True
        return False

    n = 0
    for mname in sorted(m for m in repo.modules if m.startswith("rdflib.plugins.serializers")):
        mod = repo.mod(mname)
        for q, fn in mod.functions():
            lev = None
            # (1) registrations of looked-up pairs
            unpacks = []  # (prefix name, namespace name, argument)
            for st in own_nodes(fn):
                if isinstance(st, ast.Assign) and len(st.targets) == 1 and isinstance(st.targets[0], ast.Tuple) and len(st.targets[0].elts) == 3 \
                        and all(isinstance(x, ast.Name) for x in st.targets[0].elts) and isinstance(st.value, ast.Call) and isinstance(st.value.func, ast.Attribute) \
                        and st.value.func.attr == "compute_qname_strict" and st.value.args:
                    arg = st.value.args[0]
                    const_ns = H.constant_iri_namespace(repo, mod, arg, [xmlns, rdfns or ""])
                    if const_ns is None and not isinstance(arg, ast.Name):
                        if lev is None:
                            lev = H.probe_env(repo, mod, fn, None)
                        if isinstance(lev.ev(arg), str):
                            const_ns = "const"
                    if const_ns is not None:
                        continue  # a name of a fixed vocabulary (the RDF names): rules p and y
                    unpacks.append((st, st.targets[0].elts[0].id, st.targets[0].elts[1].id))  # type: ignore[attr-defined]
            for ust, pn, nn in unpacks:
                blk_parent = mod.parent.get(id(ust))
                for w in own_nodes(fn):
                    if isinstance(w, ast.Assign) and len(w.targets) == 1 and isinstance(w.targets[0], ast.Subscript) and isinstance(w.targets[0].slice, ast.Name) \
                            and w.targets[0].slice.id == pn and nn in H.names_in(w.value):
                        # the write that belongs to this look-up: same enclosing block chain
                        if not any(p is blk_parent for p in [mod.parent.get(id(w))] + list(mod.parents(w))):
                            continue
                        n += 1
                        rep.analysed("%s:%s" % (mod.rel, q))
                        ok = any(mentions_xmlns(mod, iff.test, {nn}, (ast.NotEq,)) for iff in H.in_true_branch(mod, w, fn))
                        rep.ob(RID, mod, q, w, ok, "not for the XML namespace" if ok else
                               "the pair looked up for an IRI of the graph is declared whatever the namespace: for a predicate / type in the XML namespace "
                               "xmlns:<p>=\"%s\" is written (with a generated prefix nsN when 'xml' is not bound), which is not namespace-well-formed" % xmlns, node=w)
            # (2) element names taken from qname_strict() by a class that writes the tags itself
            for st in own_nodes(fn):
                if isinstance(st, ast.Assign) and len(st.targets) == 1 and isinstance(st.targets[0], ast.Name) and isinstance(st.value, ast.Call) \
                        and isinstance(st.value.func, ast.Attribute) and st.value.func.attr == "qname_strict" and st.value.args:
                    n += 1
                    rep.analysed("%s:%s" % (mod.rel, q))
                    tn = st.targets[0].id
                    argn = H.names_in(st.value.args[0])
                    ok = any(isinstance(i, ast.If) and mentions_xmlns(mod, i.test, argn, (ast.Eq,)) and any(
                        isinstance(a, ast.Assign) and any(isinstance(t, ast.Name) and t.id == tn for t in a.targets) for a in i.body) for i in own_nodes(fn))
                    rep.ob(RID, mod, q, st, ok, "replaced by xml:<name> for an IRI of the XML namespace" if ok else
                           "the element name is whatever qname_strict() answers: for a predicate in the XML namespace that is <nsN:name> with a generated prefix, "
                           "which cannot be declared for that namespace", node=st)


def run(repo: Repo, rep: Report) -> None:  # noqa: F811
    _layer(rep, _run_base4, repo)
    _each_in_its_own_layer(repo, rep, (
        rule_t_pn_local, rule_u_pn_prefix, rule_v_jsonld_context_terms, rule_w_trie_answer_bound, rule_x_from_n3_unescapes,
        rule_y_rdf_prefix_not_empty, rule_z_xml_namespace_not_declared))


_run_before_borrow = run


def run(repo: Repo, rep: Report) -> None:  # noqa: F811
    _layer(rep, _run_before_borrow, repo)
    from vlib.core import borrow

    borrow(repo, rep, "C17", "C03", ('C03.c',))
