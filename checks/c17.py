"""C17 - prefix bindings: memo invalidation and dual-map pairing (DESIGN.md §2 C17).

(a) bind => invalidate: in NamespaceManager, every path from a method's entry to
    its normal exit that passes a call reaching Store.bind also resets BOTH qname
    memo dicts (or the method only reaches it through a method that does).
(b) sibling: wherever one memo is reset, the other is reset too.
(c) memo entries are keyed by the IRI asked about, and only compute_qname*
    write them; a memo hit is returned only under the membership test of that key.
(d) who-may-call: Store.bind is called only from NamespaceManager._store_bind
    (and from Store subclasses' own bind wrappers) - any other caller bypasses the
    invalidation.
(e) dual-map pairing in the in-memory stores: every write P[a]=b of the
    namespace->prefix dict is paired in the same block with N[b]=a of the
    prefix->namespace dict; Memory.bind and SimpleMemory.bind are the same code.
(k) a looked-up prefix is compared with None, never truth-tested ('' is a prefix) - all stores, the manager, serializers.
(l) every store's bind(override=False) writes only behind a test of the existing bindings of both prefix and namespace.
(m) a memoised qname is validated against the (shared) store before the membership test that returns it.
(n) a Dataset/ConjunctiveGraph wrapped around another graph's store gets that graph's namespace manager (package-wide).
(o) a fixed-namespace shortcut (startswith(XMLNS)) cuts the rest by position and requires is_ncname(rest).
(p) constant names written through XMLWriter belong to a namespace the class declares or XMLWriter writes with a built-in prefix.
(q) no XML output template of a serializer spells a fixed prefix other than xml/xmlns.
(r) a Store.bind that takes a prefix away from its namespace is followed by a rebuild of the longest-namespace trie.
(s) the three writers of N3 prefixed names (turtle, longturtle getQName, normalizeUri) sanitise the local part alike.
"""
from __future__ import annotations

import ast

from vlib.cfg import CFG
from vlib.core import AnalysisError, Repo, Report, norm, own_nodes

EXPLANATION = (
    "Pairing rules over rdflib/namespace/__init__.py (NamespaceManager) and the bind() of the in-memory "
    "stores. Decides that a (qname, bind, qname) interleaving cannot see a stale memo because every path that "
    "changes a binding clears both memo dicts, and that the two prefix/namespace dicts are always written in "
    "pairs. Does NOT decide inverse-ness of the dicts for every history (value reasoning)."
)


def _self_attr(e: ast.AST) -> str | None:
    if isinstance(e, ast.Attribute) and isinstance(e.value, ast.Name) and e.value.id == "self":
        return e.attr
    return None


def _is_empty_dict(e: ast.AST) -> bool:
    return (isinstance(e, ast.Dict) and not e.keys) or (
        isinstance(e, ast.Call) and isinstance(e.func, ast.Name) and e.func.id == "dict" and not e.args and not e.keywords
    )


def _resets_in(stmt: ast.AST, memos: set[str]) -> set[str]:
    """memo attributes reset by one simple statement."""
    out = set()
    if isinstance(stmt, ast.Assign):
        for t in stmt.targets:
            a = _self_attr(t)
            if a in memos and _is_empty_dict(stmt.value):
                out.add(a)
    elif isinstance(stmt, ast.AnnAssign) and stmt.value is not None:
        a = _self_attr(stmt.target)
        if a in memos and _is_empty_dict(stmt.value):
            out.add(a)
    elif isinstance(stmt, ast.Expr) and isinstance(stmt.value, ast.Call):
        c = stmt.value
        if isinstance(c.func, ast.Attribute) and c.func.attr == "clear":
            a = _self_attr(c.func.value)
            if a in memos:
                out.add(a)
    return out


def run(repo: Repo, rep: Report) -> None:
    rep.extra["explanation"] = EXPLANATION
    ns = repo.mod("rdflib.namespace")
    typed = repo.typed
    NM = "NamespaceManager"
    methods = ns.methods(NM)
    for m in methods:
        rep.analysed("rdflib/namespace/__init__.py:%s.%s" % (NM, m))

    # ---- discover the memo dicts by role: dict attributes of __init__ that a
    # compute_qname* method writes under a key that is its own first parameter
    init = methods.get("__init__")
    if init is None:
        raise AnalysisError("NamespaceManager.__init__ vanished")
    dict_attrs = set()
    for st in own_nodes(init):
        if isinstance(st, (ast.Assign, ast.AnnAssign)):
            tg = st.targets if isinstance(st, ast.Assign) else [st.target]
            for t in tg:
                a = _self_attr(t)
                if a and st.value is not None and _is_empty_dict(st.value):
                    dict_attrs.add(a)
    memos: dict[str, set[str]] = {}  # attr -> writer methods
    for mname, m in methods.items():
        params = [a.arg for a in m.args.args[1:]]
        for n in own_nodes(m):
            if isinstance(n, ast.Assign):
                for t in n.targets:
                    if isinstance(t, ast.Subscript):
                        a = _self_attr(t.value)
                        if a in dict_attrs and isinstance(t.slice, ast.Name) and params and t.slice.id == params[0] and isinstance(n.value, ast.Tuple):
                            memos.setdefault(a, set()).add(mname)
    if len(memos) < 2:
        raise AnalysisError("expected two qname memo dicts in NamespaceManager, discovered %s" % sorted(memos))
    memoset = set(memos)
    rep.info["memo_attributes"] = {k: sorted(v) for k, v in memos.items()}

    # ---- which methods reach Store.bind, which reset memos (transitively through self.<m>())
    def self_calls(m: ast.AST) -> list[tuple[ast.Call, str]]:
        out = []
        for n in own_nodes(m):
            if isinstance(n, ast.Call) and isinstance(n.func, ast.Attribute):
                if isinstance(n.func.value, ast.Name) and n.func.value.id == "self" and n.func.attr in methods:
                    out.append((n, n.func.attr))
        return out

    def store_bind_calls(m: ast.AST) -> list[ast.Call]:
        out = []
        for n in own_nodes(m):
            if isinstance(n, ast.Call):
                cal = typed.callees(ns.name, n)
                if any(c.endswith(".bind") and typed.is_subclass(c.rsplit(".", 1)[0], "rdflib.store.Store") for c in cal):
                    out.append(n)
        return out

    direct_bind = {mname: store_bind_calls(m) for mname, m in methods.items()}
    if not any(direct_bind.values()):
        raise AnalysisError("no call resolving to Store.bind found in NamespaceManager (typed resolution lost?)")

    # summary: method M "always resets memo X before any Store.bind it reaches and on
    # every normal path through it" -- computed per method with the CFG, using
    # summaries of callees (fixpoint over the small self-call graph).
    always_resets: dict[str, set[str]] = {m: set() for m in methods}
    changed = True
    cfgs = {mname: CFG(m) for mname, m in methods.items()}
    while changed:
        changed = False
        for mname, m in methods.items():
            g = cfgs[mname]
            res = set()
            for memo in memoset:
                reset_nodes = set()
                for nd in g.nodes:
                    if nd.ast is None or nd.kind != "stmt":
                        continue
                    if memo in _resets_in(nd.ast, memoset):
                        reset_nodes.add(nd.id)
                    for c, callee in [(c, cal) for c, cal in self_calls(nd.ast) if True]:
                        if memo in always_resets.get(callee, set()):
                            reset_nodes.add(nd.id)
                # every path entry->exit passes a reset
                if reset_nodes and g.exit not in g.reach(g.entry, avoid=reset_nodes):
                    res.add(memo)
            if res != always_resets[mname]:
                always_resets[mname] = res
                changed = True

    reaches_bind: dict[str, bool] = {m: bool(direct_bind[m]) for m in methods}
    changed = True
    while changed:
        changed = False
        for mname, m in methods.items():
            if not reaches_bind[mname] and any(reaches_bind[c] for _, c in self_calls(m)):
                reaches_bind[mname] = True
                changed = True

    # ------------------------------------------------------------------ (a)
    rep.rule(
        "C17.a-bind-invalidates-memos",
        "whenever Store.bind is executed from NamespaceManager, both qname memo dicts are reset before control "
        "returns to the caller of the public method: at each direct Store.bind call site the resets are on every "
        "path to it or on every path from it to the normal exit; otherwise the obligation passes to every call "
        "site of that method (reset = `self.<memo> = {}` / `.clear()` / a self-method that always resets)",
        floor=3,
    )

    def reset_nodes_of(mname: str, memo: str) -> set[int]:
        g = cfgs[mname]
        out = set()
        for nd in g.nodes:
            if nd.ast is None:
                continue
            if nd.kind == "stmt" and memo in _resets_in(nd.ast, memoset):
                out.add(nd.id)
            if nd.kind in ("stmt", "test", "iter"):
                tgt = nd.ast
                if nd.kind == "stmt":
                    exprs = [tgt]
                elif nd.kind == "test":
                    exprs = [tgt.test]
                else:
                    exprs = [tgt.iter]
                for e in exprs:
                    for n2 in ast.walk(e):
                        if isinstance(n2, ast.Call) and isinstance(n2.func, ast.Attribute) and isinstance(n2.func.value, ast.Name) \
                                and n2.func.value.id == "self" and memo in always_resets.get(n2.func.attr, set()):
                            out.add(nd.id)
        return out

    def site_ok(mname: str, call: ast.Call, depth: int, trail: list[str]) -> tuple[bool, str]:
        g = cfgs[mname]
        cn = g.node_of(call, ns)
        missing = []
        for memo in sorted(memoset):
            rn = reset_nodes_of(mname, memo)
            if not (g.must_pass_before(cn, rn) or cn in rn or g.must_pass_after(cn, rn)):
                missing.append(memo)
        if not missing:
            return True, "memos reset on every path through %s in %s" % (norm(call)[:60], mname)
        # pass the obligation to the callers of this method
        callers = [(m2, c) for m2, mm in methods.items() for c, cal in self_calls(mm) if cal == mname]
        if not callers or depth > 4 or not mname.startswith("_"):
            return False, "memo(s) %s not reset on every path through %s in %s%s" % (
                missing, norm(call)[:60], mname, "" if mname.startswith("_") else " (public method)")
        for m2, c in callers:
            ok, why = site_ok(m2, c, depth + 1, trail + [mname])
            if not ok:
                return False, why + " <- via " + mname
        return True, "obligation discharged at every caller of %s" % mname

    for mname, m in methods.items():
        for call in direct_bind[mname]:
            ok, why = site_ok(mname, call, 0, [])
            rep.ob(
                "C17.a-bind-invalidates-memos", ns, "%s.%s" % (NM, mname), call, ok,
                why if ok else why + ": a later qname() may answer with a prefix that is no longer bound",
                node=call,
            )

    # ------------------------------------------------------------------ (b)
    rep.rule(
        "C17.b-memos-reset-together",
        "a block that resets one qname memo resets the other as well",
        floor=1,
    )
    for mname, m in methods.items():
        if mname == "__init__":
            continue
        # group reset statements by their containing block
        blocks: dict[int, set[str]] = {}
        first: dict[int, ast.AST] = {}
        for n in own_nodes(m):
            r = _resets_in(n, memoset)
            if r:
                par = ns.parent.get(id(n))
                blocks.setdefault(id(par), set()).update(r)
                first.setdefault(id(par), n)
        for bid, got in blocks.items():
            rep.ob("C17.b-memos-reset-together", ns, "%s.%s" % (NM, mname), first[bid], got == memoset,
                   "resets %s" % sorted(got) if got == memoset else "resets %s but not %s" % (sorted(got), sorted(memoset - got)),
                   node=first[bid])

    # ------------------------------------------------------------------ (c)
    rep.rule(
        "C17.c-memo-keyed-by-iri",
        "memo dicts are subscripted only with the IRI parameter of the computing method, written only after "
        "the prefix was read from the store in the same call, and read only under `uri in memo`/after the write",
        floor=4,
    )
    for mname, m in methods.items():
        params = [a.arg for a in m.args.args[1:]]
        for n in own_nodes(m):
            if isinstance(n, ast.Subscript):
                a = _self_attr(n.value)
                if a in memoset:
                    ok = isinstance(n.slice, ast.Name) and bool(params) and n.slice.id == params[0] and mname in memos[a]
                    rep.ob("C17.c-memo-keyed-by-iri", ns, "%s.%s" % (NM, mname), n, ok,
                           "keyed by the IRI parameter %r" % (params[0] if params else None) if ok else
                           "memo %s subscripted with %s outside its computing method or not by the IRI parameter" % (a, norm(n.slice)), node=n)

    # ------------------------------------------------------------------ (d)
    rep.rule(
        "C17.d-only-manager-binds-store",
        "Store.bind (any Store subclass) is called only from NamespaceManager._store_bind or from a Store "
        "subclass's own bind() wrapper; any other caller would change bindings without invalidating the memos",
        floor=3,
    )
    nsites = 0
    for name, mod in repo.modules.items():
        calls = typed.mods.get(name, {}).get("calls", {})
        if not any(any(c.endswith(".bind") for c in v) for v in calls.values()):
            continue
        for n in ast.walk(mod.tree):
            if not isinstance(n, ast.Call):
                continue
            cal = typed.callees(name, n)
            hit = [c for c in cal if c.endswith(".bind") and typed.is_subclass(c.rsplit(".", 1)[0], "rdflib.store.Store")]
            if not hit:
                continue
            nsites += 1
            q = mod.qual_of(n)
            cls = q.split(".")[0] if "." in q else ""
            full = "%s.%s" % (name, cls)
            ok = (name == "rdflib.namespace" and q == "NamespaceManager._store_bind") or (
                cls and typed.is_subclass(full, "rdflib.store.Store") and q.endswith(".bind")
            )
            rep.ob("C17.d-only-manager-binds-store", mod, q, n, bool(ok),
                   "sanctioned caller of %s" % hit[0] if ok else "calls %s directly: bypasses NamespaceManager's memo invalidation" % hit[0], node=n)

    # ------------------------------------------------------------------ (e)
    rep.rule(
        "C17.e-dual-map-pairing",
        "in Memory.bind / SimpleMemory.bind every write P[a]=b of one prefix dict is paired in the same block with "
        "N[b]=a of the other; deletes come in pairs; the two bind implementations are identical code",
        floor=5,
    )
    mem = repo.mod("rdflib.plugins.stores.memory")
    bodies = {}
    for cls in ("Memory", "SimpleMemory"):
        fn = mem.func(cls + ".bind")
        rep.analysed("rdflib/plugins/stores/memory.py:%s.bind" % cls)
        bodies[cls] = [norm(s) for s in fn.body]

        def walk_blocks(stmts):
            yield stmts
            for s in stmts:
                for f in ("body", "orelse", "finalbody"):
                    b = getattr(s, f, None)
                    if isinstance(b, list) and b and isinstance(b[0], ast.stmt):
                        yield from walk_blocks(b)

        def canon(e: ast.AST) -> str:
            # _coalesce(x, default=y) == _coalesce(x, y)
            if isinstance(e, ast.Call) and isinstance(e.func, ast.Name) and e.func.id == "_coalesce":
                args = [norm(a) for a in e.args] + [norm(k.value) for k in e.keywords]
                return "_coalesce(%s)" % ", ".join(args)
            return norm(e)

        for blk in walk_blocks(fn.body):
            writes = []
            dels = []
            for s in blk:
                if isinstance(s, ast.Assign) and len(s.targets) == 1 and isinstance(s.targets[0], ast.Subscript):
                    a = _self_attr(s.targets[0].value)
                    if a:
                        writes.append((a, canon(s.targets[0].slice), canon(s.value), s))
                if isinstance(s, ast.If) and len(s.body) == 1 and isinstance(s.body[0], ast.Delete):
                    d = s.body[0].targets[0]
                    if isinstance(d, ast.Subscript) and _self_attr(d.value):
                        dels.append((_self_attr(d.value), s))
                if isinstance(s, ast.Delete) and isinstance(s.targets[0], ast.Subscript) and _self_attr(s.targets[0].value) \
                        and not (len(blk) == 1 and isinstance(mem.parent.get(id(s)), ast.If)):
                    dels.append((_self_attr(s.targets[0].value), s))
            for a, k, v, s in writes:
                partner = [w for w in writes if w[0] != a and w[1] == v and w[2] == k]
                rep.ob("C17.e-dual-map-pairing", mem, cls + ".bind", s, bool(partner),
                       "paired with %s" % norm(partner[0][3]) if partner else
                       "write to %s has no inverse write to the other dict in the same block" % a, node=s)
            if dels:
                attrs = {a for a, _ in dels}
                rep.ob("C17.e-dual-map-pairing", mem, cls + ".bind", dels[0][1], len(attrs) == 2,
                       "stale entries deleted from both dicts" if len(attrs) == 2 else "stale entry deleted from %s only" % sorted(attrs), node=dels[0][1])
    same = bodies["Memory"] == bodies["SimpleMemory"]
    rep.ob("C17.e-dual-map-pairing", mem, "Memory.bind", "Memory.bind == SimpleMemory.bind (normalised statements)", same,
           "identical" if same else "the two in-memory stores' bind() differ: %s" % [
               (a, b) for a, b in zip(bodies["Memory"], bodies["SimpleMemory"]) if a != b][:2], node=mem.func("Memory.bind"))
    memo_tuple_coherence(repo, rep)
    shared_manager_rule(repo, rep)


def memo_tuple_coherence(repo: Repo, rep: Report) -> None:
    """(f) the memoised (prefix, namespace, local) triple is internally coherent"""
    ns = repo.mod("rdflib.namespace")
    rep.rule("C17.f-memo-tuple-coherent",
             "in compute_qname / compute_qname_strict the tuple written to a memo is (P, N, L) where, inside the computing block, every "
             "`P = self.store.prefix(X)` has X == N, every `self.bind(P, Y)` has Y == N, and N, L come from the same split of the IRI: the "
             "prefix returned for an IRI is the prefix bound to the namespace returned with it", floor=4)
    for mname in ("compute_qname", "compute_qname_strict"):
        f = ns.func("NamespaceManager." + mname)
        for n in own_nodes(f):
            if not (isinstance(n, ast.Assign) and isinstance(n.targets[0], ast.Subscript) and _self_attr(n.targets[0].value) and isinstance(n.value, ast.Tuple) and len(n.value.elts) == 3):
                continue
            P, N, L = [norm(e) for e in n.value.elts]
            # the enclosing computing block
            blk = None
            for p in ns.parents(n):
                if isinstance(p, ast.If) and any(n is x for s in p.body for x in ast.walk(s)) and "not in" in norm(p.test):
                    blk = p
            if blk is None:
                raise AnalysisError("%s: memo write is not inside an `if uri not in memo` block" % mname)
            stmts = [x for s in blk.body for x in ast.walk(s)]
            for x in stmts:
                if isinstance(x, ast.Assign) and norm(x.targets[0]) == P and isinstance(x.value, ast.Call) and norm(x.value.func) == "self.store.prefix":
                    a = norm(x.value.args[0])
                    ok = a == N
                    rep.ob("C17.f-memo-tuple-coherent", ns, "NamespaceManager." + mname, x, ok,
                           "prefix looked up for the namespace that is returned with it" if ok else
                           "the prefix is looked up for %s but the tuple returns namespace %s: prefix and namespace of the answer do not belong together (namespace + local != IRI / prefix bound elsewhere)" % (a, N), node=x)
                if isinstance(x, ast.Call) and norm(x.func) == "self.bind" and len(x.args) >= 2 and norm(x.args[0]) == P:
                    b = norm(x.args[1])
                    ok = b == N
                    rep.ob("C17.f-memo-tuple-coherent", ns, "NamespaceManager." + mname, x, ok,
                           "generated prefix bound to the returned namespace" if ok else "a prefix is generated and bound for %s but the tuple returns namespace %s" % (b, N), node=x)
            # N and L from the same split
            splits = [x for x in stmts if isinstance(x, ast.Assign) and isinstance(x.targets[0], ast.Tuple) and isinstance(x.value, ast.Call) and norm(x.value.func) == "split_uri"]
            for sp in splits:
                tg = [norm(e) for e in sp.targets[0].elts]
                ok = tg == [N, L]
                rep.ob("C17.f-memo-tuple-coherent", ns, "NamespaceManager." + mname, sp, ok,
                       "namespace and local name of the tuple come from one split" if ok else "split_uri unpacks into %s but the tuple returns (%s, %s)" % (tg, N, L), node=sp)


def shared_manager_rule(repo: Repo, rep: Report) -> None:
    gm = repo.mod("rdflib.graph")
    ns = repo.mod("rdflib.namespace")
    rep.rule("C17.g-views-share-one-manager",
             "every Graph view that ConjunctiveGraph/Dataset create on their own store is given namespace_manager=self.namespace_manager, so there is "
             "one qname memo per store and a bind through any view invalidates it for all", floor=1)
    n = 0
    for cls in ("ConjunctiveGraph", "Dataset"):
        for mname, f in gm.methods(cls).items():
            for c in own_nodes(f):
                if isinstance(c, ast.Call) and norm(c.func) == "Graph" and any(k.arg == "store" and norm(k.value) == "self.store" for k in c.keywords):
                    n += 1
                    ok = any(k.arg == "namespace_manager" and norm(k.value) == "self.namespace_manager" for k in c.keywords)
                    rep.ob("C17.g-views-share-one-manager", gm, "%s.%s" % (cls, mname), c, ok,
                           "shares the dataset's manager" if ok else "the view gets a NamespaceManager of its own: its qname memo is not invalidated by binds made through the dataset (and vice versa)", node=c)
    if n == 0:
        raise AnalysisError("no Graph(store=self.store, ...) view construction found in ConjunctiveGraph/Dataset")
    # normalizeUri joins prefix and local name of ONE compute_qname result
    f = ns.func("NamespaceManager.normalizeUri")
    joins = [c for c in ast.walk(f) if isinstance(c, ast.Call) and isinstance(c.func, ast.Attribute) and c.func.attr == "join" and c.args and isinstance(c.args[0], ast.List)]
    def roots_of(e: ast.expr, seen: frozenset = frozenset()) -> set[str]:
        """the subscripted variables a part of the qname is derived from (through local names: `name = parts[-1]`, `name = name.replace(...)`)"""
        if isinstance(e, ast.Subscript):
            return {norm(e.value)}
        if isinstance(e, ast.Call) and isinstance(e.func, ast.Attribute):
            return roots_of(e.func.value, seen)  # a method of the string itself (escaping)
        if isinstance(e, ast.Name) and e.id in seen:
            return set()  # derived from itself: adds no other source
        if isinstance(e, ast.Name):
            defs = [a.value for a in own_nodes(f) if isinstance(a, ast.Assign) and norm(a.targets[0]) == e.id]
            if defs:
                out: set[str] = set()
                for d in defs:
                    out |= roots_of(d, seen | {e.id})
                return out
        return {"?" + norm(e)}
    for j in joins:
        elts = j.args[0].elts
        roots = set()
        for e in elts:
            roots |= roots_of(e)
        src_ok = len(roots) == 1 and not next(iter(roots)).startswith("?")
        if src_ok:
            var = next(iter(roots))
            src_ok = any(isinstance(a, ast.Assign) and norm(a.targets[0]) == var and isinstance(a.value, ast.Call) and "compute_qname" in norm(a.value.func) for a in own_nodes(f))
        rep.ob("C17.f-memo-tuple-coherent", ns, "NamespaceManager.normalizeUri", j, src_ok,
               "prefix and local name come from one compute_qname() result" if src_ok else
               "the qname is assembled from parts of different computations (%s): the prefix may belong to a shorter namespace than the one the local name was cut from" % sorted(roots), node=j)


_run_base = run


def run(repo: Repo, rep: Report) -> None:  # noqa: F811
    _run_base(repo, rep)
    from vlib import memo

    rep.rule("C17.h-namespace-memos-key-complete",
             "every memo in rdflib.namespace and in the in-memory stores' prefix tables (a dict attribute a method both looks up and fills under the same key) is keyed by "
             "every re-bindable instance attribute its value is computed from, or re-binding that attribute invalidates the memo", floor=4)
    memo.scan(repo, rep, "C17.h-namespace-memos-key-complete", ["rdflib.namespace", "rdflib.plugins.stores.memory"])

    # ------------------------------------------------------------------ (i)
    rep.rule("C17.i-bind-writes-only-the-requested-pair",
             "Memory.bind / SimpleMemory.bind write into the two prefix maps only the pair they were asked to bind (key and value are the parameters prefix / namespace). "
             "The looked-up existing bindings (the namespace the prefix has, the prefix the namespace has) come from two different entries; a write that combines them "
             "(`P[bound_namespace or namespace] = bound_prefix or prefix` together with its mirror) binds the prefix of one existing entry to the namespace of the other when "
             "both are in use, and the maps stop being inverse", floor=4)
    mem = repo.mod("rdflib.plugins.stores.memory")
    for cls in ("Memory", "SimpleMemory"):
        fn = mem.func(cls + ".bind")
        params = {a.arg for a in fn.args.args[1:3]}
        for st in own_nodes(fn):
            if isinstance(st, ast.Assign) and len(st.targets) == 1 and isinstance(st.targets[0], ast.Subscript) and _self_attr(st.targets[0].value):
                names = {n.id for part in (st.targets[0].slice, st.value) for n in ast.walk(part) if isinstance(n, ast.Name)} - {"_coalesce"}
                foreign = sorted(names - params)
                rep.ob("C17.i-bind-writes-only-the-requested-pair", mem, cls + ".bind", st, not foreign,
                       "the requested pair" if not foreign else
                       "the entry written is assembled from looked-up bindings (%s): with override=False, bind('p', N2) while p -> N1 and q -> N2 exist writes q -> N1 and N1 -> q, leaving p -> N1 and N2 -> q behind: "
                       "two prefixes for N1, and qname(N2 + x) = 'q:x' expands to N1 + x" % ", ".join(foreign), node=st)


_run_base2 = run


def run(repo: Repo, rep: Report) -> None:  # noqa: F811
    _run_base2(repo, rep)
    rep.rule("C17.j-prefix-registered-for-every-non-verb-term",
             "TurtleSerializer / LongTurtleSerializer.preprocessTriple register the prefix of every term of a triple (self.getQName) except where a `continue` skips it; the skips are "
             "for PREDICATE-position special cases only (the `a` keyword, a predicate in the base namespace): each `continue` is control-dependent on `i == VERB`. label() writes `a` "
             "only for a predicate; rdf:type as subject or object is written rdf:type and needs the rdf: prefix declared", floor=4)
    for modname, cname in (("rdflib.plugins.serializers.turtle", "TurtleSerializer"), ("rdflib.plugins.serializers.longturtle", "LongTurtleSerializer")):
        mod = repo.mod(modname)
        f = mod.func(cname + ".preprocessTriple")
        loops_ = [n for n in own_nodes(f) if isinstance(n, ast.For) and "enumerate" in norm(n.iter)]
        if not loops_:
            raise AnalysisError("%s.preprocessTriple: loop over the positions not found" % cname)
        lp = loops_[0]
        ivar = norm(lp.target.elts[0]) if isinstance(lp.target, ast.Tuple) else None
        conts = [n for n in ast.walk(lp) if isinstance(n, ast.Continue)]
        if not conts:
            rep.ob("C17.j-prefix-registered-for-every-non-verb-term", mod, cname + ".preprocessTriple", "no position is skipped", True, "", node=lp)
        for c in conts:
            guarded = False
            child = c
            for p_ in mod.parents(c):
                if isinstance(p_, ast.If) and any(child is x or any(child is y for y in ast.walk(x)) for x in p_.body):
                    if any(isinstance(t, ast.Compare) and norm(t.left) == ivar and norm(t.comparators[0]) == "VERB" and isinstance(t.ops[0], ast.Eq) for t in ast.walk(p_.test)):
                        # the position test must be a conjunct (not an alternative) of the condition
                        top = p_.test
                        disj = isinstance(top, ast.BoolOp) and isinstance(top.op, ast.Or)
                        guarded = guarded or not disj
                if p_ is lp:
                    break
                child = p_
            rep.ob("C17.j-prefix-registered-for-every-non-verb-term", mod, cname + ".preprocessTriple", "continue @%s" % norm(mod.parent.get(id(c)).test if isinstance(mod.parent.get(id(c)), ast.If) else c)[:60], guarded,
                   "only in predicate position" if guarded else
                   "the prefix registration is skipped for subjects and objects too: a graph that uses rdf:type as subject or object (`ex:kind rdfs:subPropertyOf rdf:type`) is written with `rdf:type` but without a PREFIX rdf: line", node=c)


_run_base3 = run


# ======================================================================================================================
# rules k - s: one structural necessary condition per defect repaired by the audit round (F90, F91, F97, F98, F164-F169)
# ======================================================================================================================
def _store_classes(repo: Repo) -> list[tuple[str, str, "ast.ClassDef"]]:
    """(module name, class name, ClassDef) of every Store subclass defined in the package"""
    out = []
    for full in sorted(repo.typed.subclasses("rdflib.store.Store")):
        mname, _, cname = full.rpartition(".")
        mod = repo.modules.get(mname)
        if mod is not None and isinstance(mod.defs.get(cname), ast.ClassDef):
            out.append((mname, cname, mod.defs[cname]))
    if len(out) < 4:
        raise AnalysisError("fewer than 4 Store subclasses resolved (typed facts lost?)")
    return out


def _discover_memos(ns) -> set[str]:
    """the qname memo attributes of NamespaceManager: dict attributes written `self.M[<IRI parameter>] = (p, n, l)`"""
    memos = set()
    for mname, m in ns.methods("NamespaceManager").items():
        params = [a.arg for a in m.args.args[1:]]
        for n in own_nodes(m):
            if isinstance(n, ast.Assign):
                for t in n.targets:
                    if isinstance(t, ast.Subscript) and _self_attr(t.value) and isinstance(t.slice, ast.Name) and params \
                            and t.slice.id == params[0] and isinstance(n.value, ast.Tuple):
                        memos.add(_self_attr(t.value))
    if len(memos) < 2:
        raise AnalysisError("expected two qname memo dicts in NamespaceManager, discovered %s" % sorted(memos))
    return memos


def rule_k_prefix_identity(repo: Repo, rep: Report) -> None:
    """(k) '' is a prefix: the result of a namespace->prefix lookup is compared with None, never truth-tested"""
    from vlib import truthy

    RID = "C17.k-prefix-lookup-decided-by-identity"
    rep.rule(RID,
             "the value of a namespace->prefix lookup (Store.prefix() of any store, a read of the table a store's own prefix() reads, _coalesce() of such, "
             "or a local assigned from one) says 'this namespace has no prefix' only by being None: it is never truth-tested (if p / not p / p and .. / p or ..). "
             "'' is the empty prefix: after bind('', N), a truth test takes N for unbound - bind('p', N, override=True) leaves '' -> N behind (N listed under two "
             "prefixes), compute_qname(N) raises instead of answering ':'", floor=10)
    typed = repo.typed
    stores = _store_classes(repo)
    # the namespace->prefix table of each store class: what its prefix() reads with .get()/[...] directly on self.<attr>
    tables: dict[tuple[str, str], set[str]] = {}
    for mname, cname, cdef in stores:
        mod = repo.mod(mname)
        if mod.has(cname + ".prefix"):
            f = mod.func(cname + ".prefix")
            t = set()
            for n in own_nodes(f):
                if isinstance(n, ast.Call) and isinstance(n.func, ast.Attribute) and n.func.attr == "get" and _self_attr(n.func.value):
                    t.add(_self_attr(n.func.value))
                if isinstance(n, ast.Subscript) and isinstance(n.ctx, ast.Load) and _self_attr(n.value):
                    t.add(_self_attr(n.value))
            tables[(mname, cname)] = t
    store_mods = {m for m, _, _ in stores}
    scope = sorted(store_mods | {"rdflib.namespace"} | {m for m in repo.modules if m.startswith("rdflib.plugins.serializers")})
    for mname in scope:
        mod = repo.mod(mname)
        for q, fn in mod.functions():
            if "." in q and isinstance(mod.defs.get(q.rsplit(".", 1)[0]), (ast.FunctionDef, ast.AsyncFunctionDef)):
                continue  # nested defs are walked with their parent
            cls = q.split(".")[0] if "." in q else ""
            tabs = tables.get((mname, cls), set())
            in_binding_class = (mname, cls) in tables or (mname == "rdflib.namespace" and cls == "NamespaceManager")

            def is_lookup(e: ast.AST) -> bool:
                if not isinstance(e, (ast.Call, ast.Subscript)):
                    return False
                if isinstance(e, ast.Subscript):
                    return isinstance(e.ctx, ast.Load) and _self_attr(e.value) in tabs
                cal = typed.callees(mname, e)
                if any(c.endswith(".prefix") and typed.is_subclass(c.rsplit(".", 1)[0], "rdflib.store.Store") for c in cal):
                    return True
                if isinstance(e.func, ast.Attribute):
                    if e.func.attr == "prefix" and len(e.args) == 1 and not cal and in_binding_class:
                        return True  # unresolved (untyped receiver) inside a store / the manager
                    if e.func.attr == "get" and _self_attr(e.func.value) in tabs:
                        return True
                return False

            if not any(is_lookup(n) for n in own_nodes(fn, include_nested=True)):
                continue
            rep.analysed("%s:%s" % (mod.rel, q))
            derived: set[str] = set()
            pairs = [(t, v) for t, v in _assignments_nested(fn)]
            changed = True

            def valued(e: ast.AST) -> bool:
                """the expression IS a looked-up prefix (not merely computed from one)"""
                if is_lookup(e):
                    return True
                if isinstance(e, ast.Name):
                    return e.id in derived
                if isinstance(e, ast.Call) and isinstance(e.func, ast.Name) and e.func.id == "_coalesce":
                    return any(valued(a) for a in e.args)
                if isinstance(e, ast.IfExp):
                    return valued(e.body) or valued(e.orelse)
                return False

            while changed:
                changed = False
                for t, v in pairs:
                    if isinstance(t, ast.Name) and t.id not in derived and valued(v):
                        derived.add(t.id)
                        changed = True
            nonec = truthy.none_constants(mod)
            for n in own_nodes(fn, include_nested=True):
                if isinstance(n, ast.Compare) and len(n.ops) == 1 and isinstance(n.ops[0], (ast.Is, ast.IsNot, ast.Eq, ast.NotEq)):
                    l, r = n.left, n.comparators[0]
                    other = l if truthy._is_none(r, nonec) else (r if truthy._is_none(l, nonec) else None)
                    if other is not None and valued(other):
                        rep.ob(RID, mod, q, n, True, "bound-ness of the looked-up prefix decided by identity with None", node=n)
            seen: set[int] = set()
            for e, owner, kind in truthy.bool_contexts(fn):
                if id(e) in seen or isinstance(e, (ast.Compare, ast.Constant)):
                    continue
                seen.add(id(e))
                if valued(e):
                    ctx = norm(owner.test) if hasattr(owner, "test") else norm(owner)
                    rep.ob(RID, mod, q, "%s [in %s: %s]" % (norm(e), kind, ctx[:100]), False,
                           "the looked-up prefix is truth-tested: the empty prefix '' (a namespace bound with bind('', N)) is taken for 'no prefix'", node=e)


def _assignments_nested(fn: ast.AST):
    for n in own_nodes(fn, include_nested=True):
        if isinstance(n, ast.Assign):
            for t in n.targets:
                yield t, n.value
        elif isinstance(n, ast.AnnAssign) and n.value is not None:
            yield n.target, n.value
        elif isinstance(n, ast.NamedExpr):
            yield n.target, n.value


def rule_l_override_false(repo: Repo, rep: Report) -> None:
    """(l) bind(.., override=False) writes only a pair whose prefix and namespace are both free"""
    from vlib import h_c17 as H

    RID = "C17.l-bind-without-override-writes-only-a-free-pair"
    rep.rule(RID,
             "in every Store subclass whose bind(prefix, namespace, override) writes its own binding table(s): with override false, each table write is reached only "
             "through a test that override does not decide and that looks at the existing binding of BOTH the prefix and the namespace. Otherwise bind('q', N, "
             "override=False) while p -> N exists (NamespaceManager(bind_namespaces=..) over a store that has user bindings does this) leaves N under two prefixes, "
             "or gives an existing prefix another namespace", floor=9)
    for mname, cname, cdef in _store_classes(repo):
        mod = repo.mod(mname)
        if not mod.has(cname + ".bind"):
            continue
        fn = mod.func(cname + ".bind")
        ps = H.params_of(fn)
        if "override" not in ps or len(ps) < 3:
            continue
        writes = [n for n in own_nodes(fn) if isinstance(n, ast.Assign) and any(isinstance(t, ast.Subscript) and _self_attr(t.value) for t in n.targets)]
        if not writes:
            continue  # delegates to a wrapped store
        rep.analysed("%s:%s.bind" % (mod.rel, cname))
        g = CFG(fn)
        env = {"override": False}
        p_prefix, p_ns = ps[1], ps[2]
        guards = []
        for t in H.undecided_tests(g, env):
            cl = H.closure_names(fn, g.nodes[t].ast.test)
            if p_prefix in cl and p_ns in cl:
                guards.append(t)
        free = H.reach_under(g, env, avoid=guards)
        live = H.reach_under(g, env)
        for w in writes:
            wn = g.node_of(w, mod)
            if wn not in live:
                rep.ob(RID, mod, cname + ".bind", w, True, "not executed when override is false", node=w)
                continue
            ok = wn not in free
            rep.ob(RID, mod, cname + ".bind", w, ok,
                   "with override false, reached only through a test of the existing bindings of both %s and %s" % (p_prefix, p_ns) if ok else
                   "with override false this write is reached without any test of whether %s and %s are free: an existing binding is overwritten / the namespace "
                   "ends up under two prefixes" % (p_prefix, p_ns), node=w)


def rule_m_memo_validated(repo: Repo, rep: Report) -> None:
    """(m) a memoised qname is checked against the store before it is used"""
    RID = "C17.m-memo-checked-against-store-before-use"
    rep.rule(RID,
             "the bindings live in the store, which other graphs (other NamespaceManagers) share and which can be bound directly: every membership test `iri in "
             "self.<memo>` that decides whether a memoised (prefix, namespace, name) is returned is preceded on every path by a validation of that memo's entry for the "
             "same IRI - an `if` that compares store.namespace(entry prefix) / store.prefix(entry namespace) with the entry and resets both memos (inline or in a "
             "self-method given the entry). Otherwise g1.qname(N+'x') -> 'p:x'; g2 (same store) bind('p', M, replace=True); g1.qname(N+'x') still answers 'p:x', "
             "which now expands to M+'x'", floor=2)
    ns = repo.mod("rdflib.namespace")
    typed = repo.typed
    methods = ns.methods("NamespaceManager")
    memos = _discover_memos(ns)

    def store_lookup(e: ast.AST) -> bool:
        return isinstance(e, ast.Call) and any(
            (c.endswith(".namespace") or c.endswith(".prefix")) and typed.is_subclass(c.rsplit(".", 1)[0], "rdflib.store.Store") for c in typed.callees(ns.name, e))

    def validating_if(st: ast.AST, about: set[str]) -> bool:
        """`if <.. store lookup of a part of X .. compared ..>: reset every memo` with X among the names `about`"""
        if not isinstance(st, ast.If):
            return False
        looks = [c for c in ast.walk(st.test) if store_lookup(c) and any(isinstance(a, ast.Subscript) and isinstance(a.value, ast.Name) and a.value.id in about
                                                                          for arg in c.args for a in ast.walk(arg))]
        if not looks or not any(isinstance(c, ast.Compare) and any(l is x for l in looks for x in ast.walk(c)) for c in ast.walk(st.test)):
            return False
        got = set()
        for s in st.body:
            got |= _resets_in(s, memos)
        return got == memos

    validators: dict[str, str] = {}  # method -> the parameter that carries the entry
    for mname, m in methods.items():
        ps = [a.arg for a in m.args.args[1:]]
        for st in own_nodes(m):
            for p in ps:
                if validating_if(st, {p}):
                    validators[mname] = p
    n_tests = 0
    for mname, m in methods.items():
        tests = [c for c in own_nodes(m) if isinstance(c, ast.Compare) and len(c.ops) == 1 and isinstance(c.ops[0], (ast.In, ast.NotIn))
                 and _self_attr(c.comparators[0]) in memos]
        if not tests:
            continue
        g = CFG(m)
        for c in tests:
            n_tests += 1
            memo = _self_attr(c.comparators[0])
            key = norm(c.left)

            def entry_expr(e: ast.AST) -> bool:
                """self.<memo>.get(key) / self.<memo>[key]"""
                if isinstance(e, ast.Call) and isinstance(e.func, ast.Attribute) and e.func.attr == "get" and _self_attr(e.func.value) == memo and e.args:
                    return norm(e.args[0]) == key
                return isinstance(e, ast.Subscript) and _self_attr(e.value) == memo and norm(e.slice) == key

            entry_names = {t.id for t, v in _assignments_nested(m) if isinstance(t, ast.Name) and entry_expr(v)}
            vnodes = set()
            for nd in g.nodes:
                if nd.ast is None or nd.kind != "stmt":
                    if nd.ast is not None and nd.kind == "test" and validating_if(nd.ast, entry_names):
                        vnodes.add(nd.id)
                    continue
                for x in ast.walk(nd.ast):
                    if isinstance(x, ast.Call) and isinstance(x.func, ast.Attribute) and isinstance(x.func.value, ast.Name) and x.func.value.id == "self" \
                            and x.func.attr in validators and any(entry_expr(a) or (isinstance(a, ast.Name) and a.id in entry_names) for a in x.args):
                        vnodes.add(nd.id)
            cn = g.node_of(c, ns)
            ok = bool(vnodes) and cn not in vnodes and g.must_pass_before(cn, vnodes)
            rep.ob(RID, ns, "NamespaceManager." + mname, c, ok,
                   "the entry of %s for %s is checked against the store on every path to this test" % (memo, key) if ok else
                   "the memoised qname in %s is used without being checked against the store: a prefix rebound through another graph on the same store (or through "
                   "the store) is still answered for the old namespace" % memo, node=c)
    if n_tests == 0:
        raise AnalysisError("no `iri in self.<memo>` test found in NamespaceManager")


def rule_n_wrapper_shares_manager(repo: Repo, rep: Report) -> None:
    """(n) a Dataset/ConjunctiveGraph wrapped around another graph's store uses that graph's namespace manager"""
    RID = "C17.n-wrapper-over-a-graphs-store-shares-its-manager"
    rep.rule(RID,
             "package-wide: a ConjunctiveGraph/Dataset constructed over `<g>.store` of another graph g (a parser wrapping its target) is given g's namespace manager "
             "(`w.namespace_manager = g.namespace_manager` on every path after the construction, or the namespace_manager= argument). A wrapper left with a manager "
             "of its own creates it on first use (get_context(), bind()) and that binds the ~30 default prefixes with override into the shared store: g.bind('dct', "
             "DCTERMS); g.parse(quads) -> 'dct' is gone, DCTERMS is now 'dcterms', behind g's qname memo", floor=5)
    typed = repo.typed
    n_inst = 0
    for mname, mod in repo.modules.items():
        for q, fn in mod.functions():
            g = None
            for c in own_nodes(fn):
                if not isinstance(c, ast.Call):
                    continue
                cal = typed.callees(mname, c)
                if not any(x.endswith(".__init__") and typed.is_subclass(x[: -len(".__init__")], "rdflib.graph.ConjunctiveGraph") for x in cal):
                    continue
                store = next((k.value for k in c.keywords if k.arg == "store"), c.args[0] if c.args else None)
                if not (isinstance(store, ast.Attribute) and store.attr == "store"):
                    continue
                owner = store.value
                if isinstance(owner, ast.Name) and owner.id == "self":
                    continue  # a view a graph makes of its own store: rule g
                tf = typed.type_of(mname, owner)
                if tf is None or not any(typed.is_subclass(i, "rdflib.graph.Graph") for i in tf.items):
                    continue
                n_inst += 1
                rep.analysed("%s:%s" % (mod.rel, q))
                want = norm(owner) + ".namespace_manager"
                if any(k.arg == "namespace_manager" and norm(k.value) == want for k in c.keywords):
                    rep.ob(RID, mod, q, c, True, "constructed with the target's namespace manager", node=c)
                    continue
                # the name(s) the wrapper is assigned to
                par = mod.parent.get(id(c))
                tnames = []
                if isinstance(par, ast.Assign) and par.value is c:
                    tnames = [norm(t) for t in par.targets]
                elif isinstance(par, ast.AnnAssign) and par.value is c:
                    tnames = [norm(par.target)]
                if g is None:
                    g = CFG(fn)
                shares = set()
                for nd in g.nodes:
                    st = nd.ast
                    if nd.kind == "stmt" and isinstance(st, ast.Assign) and norm(st.value) == want and any(
                            isinstance(t, ast.Attribute) and t.attr == "namespace_manager" and norm(t.value) in tnames for t in st.targets):
                        shares.add(nd.id)
                ok = bool(shares) and g.must_pass_after(g.node_of(c, mod), shares, skip_exc=True)
                rep.ob(RID, mod, q, c, ok,
                       "followed on every path by %s.namespace_manager = %s" % ((tnames or ["?"])[0], want) if ok else
                       "the wrapper keeps a namespace manager of its own over the store of %s: its first use binds the default prefixes over the user's bindings "
                       "in the shared store" % norm(owner), node=c)
    if n_inst == 0:
        raise AnalysisError("no ConjunctiveGraph/Dataset wrapper over another graph's store found (typed resolution lost?)")


def _ns_shortcuts(repo: Repo, mod, fn: ast.AST):
    """`if U.startswith(C) ..: return <.. U ..>` with U a parameter and C a module-level / imported constant: a fixed-namespace
    shortcut of a function that splits or compacts an IRI.  yields (if-node, U, C-name, return-node)"""
    from vlib import h_c17 as H

    ps = set(H.params_of(fn))
    local = {nm for t, _ in H.assignments(fn) for nm in H.target_names(t)} | {
        nm for n in own_nodes(fn) if isinstance(n, (ast.For, ast.comprehension)) for nm in H.target_names(n.target)}
    for st in own_nodes(fn):
        if not isinstance(st, ast.If):
            continue
        for cj in H.conjuncts(st.test):
            if isinstance(cj, ast.Call) and isinstance(cj.func, ast.Attribute) and cj.func.attr == "startswith" and isinstance(cj.func.value, ast.Name) \
                    and cj.func.value.id in ps and len(cj.args) == 1 and isinstance(cj.args[0], ast.Name) and cj.args[0].id not in local | ps \
                    and H.resolve_name(repo, mod, cj.args[0].id) is not None:
                u, cn = cj.func.value.id, cj.args[0].id
                for r in st.body:
                    if isinstance(r, ast.Return) and r.value is not None and u in H.names_in(r.value):
                        yield st, u, cn, r


def _rest_slice(e: ast.AST, u: str, cn: str) -> bool:
    """U[len(C):]"""
    return (isinstance(e, ast.Subscript) and isinstance(e.value, ast.Name) and e.value.id == u and isinstance(e.slice, ast.Slice)
            and e.slice.upper is None and e.slice.step is None and e.slice.lower is not None and norm(e.slice.lower) == "len(%s)" % cn)


def rule_o_shortcut(repo: Repo, rep: Report) -> None:
    """(o) a fixed-namespace shortcut cuts the local part by position and checks that it is a name"""
    from vlib import h_c17 as H

    RID = "C17.o-fixed-namespace-shortcut-checks-the-rest"
    rep.rule(RID,
             "in rdflib.namespace and the serializers: a shortcut `if iri.startswith(NS) ..: return <NS / its prefix, rest>` for a fixed namespace NS takes the rest "
             "by position (iri[len(NS):], not iri.split(NS)[1], which stops at a second occurrence of NS) and is taken only if is_ncname(rest). Otherwise every IRI "
             "that merely starts with the XML namespace IRI is compacted: split_uri(XMLNS + '#x') -> (XMLNS, '#x') -> 'xml:#x', which is no prefixed name and does "
             "not expand back", floor=1)
    n = 0
    for mname in sorted(m for m in repo.modules if m == "rdflib.namespace" or m.startswith("rdflib.plugins.serializers")):
        mod = repo.mod(mname)
        for q, fn in mod.functions():
            for st, u, cn, r in _ns_shortcuts(repo, mod, fn):
                n += 1
                rep.analysed("%s:%s" % (mod.rel, q))
                uses = [x for x in ast.walk(r.value) if isinstance(x, ast.Name) and x.id == u]
                by_pos = all(_rest_slice(mod.parent.get(id(x)), u, cn) for x in uses)
                checked = any(isinstance(cj, ast.Call) and isinstance(cj.func, ast.Name) and cj.func.id == "is_ncname" and len(cj.args) == 1
                              and _rest_slice(cj.args[0], u, cn) for cj in H.conjuncts(st.test))
                ok = by_pos and checked
                why = []
                if not by_pos:
                    why.append("the local part is not %s[len(%s):] (a split at the namespace IRI stops at its second occurrence)" % (u, cn))
                if not checked:
                    why.append("the shortcut is taken without is_ncname(%s[len(%s):]): any IRI that starts with the namespace IRI is compacted, e.g. %s + '#x'" % (u, cn, cn))
                rep.ob(RID, mod, q, st.test, ok, "rest cut by position and checked to be a name" if ok else "; ".join(why), node=st)
    if n == 0:
        raise AnalysisError("no fixed-namespace shortcut found in rdflib.namespace / serializers")


def rule_p_xml_names_declared(repo: Repo, rep: Report) -> None:
    """(p) a constant name written through XMLWriter belongs to a namespace that is declared up-front or built into XML"""
    from vlib import h_c17 as H

    RID = "C17.p-xmlwriter-names-declared-or-built-in"
    rep.rule(RID,
             "every serializer class that writes through XMLWriter: the namespace of each CONSTANT element/attribute name it passes to push/attribute/element is one "
             "the class declares before (registered from nm.compute_qname_strict(<constant>) into the xmlns table, or given as extra_ns), or the XML namespace "
             "provided XMLWriter.qname answers names of it with the built-in prefix xml without asking the namespace manager. A name of any other namespace gets "
             "whatever prefix the manager has or generates at that moment - for xml:lang / xml:base after `bind('xml', other, replace=True)` a generated nsN that "
             "no xmlns attribute declares", floor=20)
    typed = repo.typed
    WR = "rdflib.plugins.serializers.xmlwriter.XMLWriter"
    xw = repo.mod("rdflib.plugins.serializers.xmlwriter")
    nsmod = repo.mod("rdflib.namespace")
    xmlns = H.const_string(repo, nsmod, ast.Name(id="XMLNS", ctx=ast.Load()))
    if not xmlns:
        raise AnalysisError("rdflib.namespace.XMLNS is not a constant any more")
    # built in: XMLWriter.qname has a checked shortcut for a constant that is the XML namespace
    builtin = set()
    qn = xw.func("XMLWriter.qname")
    for st, u, cn, r in _ns_shortcuts(repo, xw, qn):
        if H.namespace_of_container(repo, xw, cn) == xmlns and not any(isinstance(x, ast.Attribute) and _self_attr(x) for x in ast.walk(r.value)):
            builtin.add(xmlns)
    n_cls = 0
    for mname in sorted(m for m in repo.modules if m.startswith("rdflib.plugins.serializers")):
        mod = repo.mod(mname)
        for cname, cdef in [(k, v) for k, v in mod.defs.items() if isinstance(v, ast.ClassDef) and "." not in k]:
            meths = mod.methods(cname)
            ctor = [c for m in meths.values() for c in own_nodes(m) if isinstance(c, ast.Call) and any(x == WR + ".__init__" for x in typed.callees(mname, c))]
            if not ctor:
                continue
            n_cls += 1
            declared = set(builtin)
            for c in ctor:
                for k in c.keywords:
                    if k.arg == "extra_ns" and isinstance(k.value, ast.Dict):
                        for v in k.value.values:
                            s = H.const_string(repo, mod, v)
                            if s:
                                declared.add(s)
            known = set(declared) | {xmlns}
            for m in meths.values():
                for c in own_nodes(m):
                    if isinstance(c, ast.Call) and isinstance(c.func, ast.Attribute) and c.func.attr == "compute_qname_strict" and c.args:
                        s = H.constant_iri_namespace(repo, mod, c.args[0], known)
                        par = mod.parent.get(id(c))
                        if s is not None and isinstance(par, ast.Assign):
                            declared.add(s)
            for mn, m in meths.items():
                rep.analysed("%s:%s.%s" % (mod.rel, cname, mn))
                for c in own_nodes(m):
                    if not (isinstance(c, ast.Call) and any(x in (WR + ".push", WR + ".attribute", WR + ".element") for x in typed.callees(mname, c)) and c.args):
                        continue
                    names = [c.args[0]]
                    for k in c.keywords:
                        if k.arg == "attributes" and isinstance(k.value, ast.Dict):
                            names.extend(x for x in k.value.keys if x is not None)
                    for e in names:
                        s = H.constant_iri_namespace(repo, mod, e, known | declared)
                        if s is None:
                            continue  # a name taken from the graph: declared by the loops over the predicates / types
                        ok = s in declared
                        rep.ob(RID, mod, "%s.%s" % (cname, mn), c, ok,
                               "namespace %s is declared by the class / built into XML" % s if ok else
                               "%s is a name of %s, which the class never declares and XMLWriter.qname does not write with a built-in prefix: it is written with the "
                               "prefix the namespace manager has or generates for that namespace at that moment, without an xmlns declaration" % (norm(e), s), node=c)
    if n_cls < 2:
        raise AnalysisError("fewer than two serializer classes constructing an XMLWriter found")


def rule_q_no_hardwired_prefix(repo: Repo, rep: Report) -> None:
    """(q) XML output templates carry no hard-wired prefix of a namespace the graph can bind otherwise"""
    import re

    RID = "C17.q-no-hard-wired-prefix-in-xml-templates"
    rep.rule(RID,
             "serializers: a string template does not spell out a prefixed XML name (`<p:local`, ` p:local=`) with a fixed prefix p other than the built-in xml / "
             "xmlns: the prefix has to be the one the bindings give for the namespace at that moment (a %s filled from compute_qname_strict). A fixed 'rdf:' is only "
             "right while rdf is bound to the RDF namespace - g.bind('rdf', other, replace=True); g.serialize(format='xml') then cannot be written correctly "
             "(it failed with a bare AssertionError)", floor=3)
    pat = re.compile(r"(?:</?|\s)([A-Za-z_][\w.\-]*):[A-Za-z_][\w.\-]*(?=[\s=>/]|$)")
    for mname in sorted(m for m in repo.modules if m.startswith("rdflib.plugins.serializers")):
        mod = repo.mod(mname)
        for q, fn in mod.functions():
            doc = [s.value for s in fn.body[:1] if isinstance(s, ast.Expr) and isinstance(s.value, ast.Constant)]
            for n in own_nodes(fn):
                if not (isinstance(n, ast.Constant) and isinstance(n.value, str)) or any(n is d for d in doc):
                    continue
                par = mod.parent.get(id(n))
                if isinstance(par, ast.Expr):
                    continue  # a bare string statement
                for m in pat.finditer(n.value):
                    ok = m.group(1) in ("xml", "xmlns")
                    rep.ob(RID, mod, q, n, ok, "built-in prefix %s" % m.group(1) if ok else
                           "the template writes the fixed prefix %r: it is the right one only while the graph binds %r to the namespace meant here" % (m.group(1), m.group(1)), node=n)


def rule_r_unbinding_rebuilds_trie(repo: Repo, rep: Report) -> None:
    """(r) taking a prefix away from a namespace rebuilds the longest-namespace trie"""
    RID = "C17.r-unbinding-a-namespace-rebuilds-the-trie"
    rep.rule(RID,
             "NamespaceManager: a call that reaches Store.bind for a prefix P, made under a test that P's current namespace (a value of store.namespace(P)) differs from "
             "the new one, leaves the old namespace without a prefix; on every path after it the trie compute_qname takes the longest matching namespace from is rebuilt "
             "(all trie attributes reset, directly or by a self-method). A trie that still holds the old namespace makes it win over a shorter bound one: bind('a', "
             "'http://e/'); bind('b', 'http://e/x/'); bind('b', 'http://o/', replace=True); curie('http://e/x/y', generate=False) -> KeyError instead of 'a:x/y'", floor=1)
    ns = repo.mod("rdflib.namespace")
    typed = repo.typed
    methods = ns.methods("NamespaceManager")
    trie_fns = {"insert_trie", "insert_strie", "get_longest_namespace"}
    tries = set()
    for m in methods.values():
        for c in own_nodes(m):
            if isinstance(c, ast.Call) and isinstance(c.func, ast.Name) and c.func.id in trie_fns:
                for a in c.args:
                    base = a.value if isinstance(a, ast.Subscript) else a
                    if _self_attr(base):
                        tries.add(_self_attr(base))
    if not tries:
        raise AnalysisError("no trie attribute of NamespaceManager discovered")

    def rebuilds(stmts) -> set[str]:
        got = set()
        for s in stmts:
            got |= _resets_in(s, tries)
        return got

    rebuilders = {mn for mn, m in methods.items() if mn != "__init__" and rebuilds([s for s in own_nodes(m) if isinstance(s, ast.stmt)]) == tries}
    binders = {mn for mn, m in methods.items() if any(
        isinstance(c, ast.Call) and any(x.endswith(".bind") and typed.is_subclass(x.rsplit(".", 1)[0], "rdflib.store.Store") for x in typed.callees(ns.name, c))
        for c in own_nodes(m))}
    if not binders:
        raise AnalysisError("no NamespaceManager method calls Store.bind")
    n = 0
    for mn, m in methods.items():
        g = None
        looked = {}  # local name -> prefix expression whose namespace it holds
        for t, v in _assignments_nested(m):
            if isinstance(t, ast.Name):
                for c in ast.walk(v):
                    if isinstance(c, ast.Call) and c.args and any(x.endswith(".namespace") and typed.is_subclass(x.rsplit(".", 1)[0], "rdflib.store.Store")
                                                                  for x in typed.callees(ns.name, c)):
                        looked.setdefault(t.id, set()).add(norm(c.args[0]))
        for c in own_nodes(m):
            if not (isinstance(c, ast.Call) and isinstance(c.func, ast.Attribute) and isinstance(c.func.value, ast.Name) and c.func.value.id == "self"
                    and c.func.attr in binders and c.args):
                continue
            p = norm(c.args[0])
            from vlib import h_c17 as H
            differs = False
            for iff in H.in_true_branch(ns, _stmt_of(ns, c), m):
                for cmp_ in ast.walk(iff.test):
                    if isinstance(cmp_, ast.Compare) and len(cmp_.ops) == 1 and isinstance(cmp_.ops[0], ast.NotEq):
                        for side in (cmp_.left, cmp_.comparators[0]):
                            if isinstance(side, ast.Name) and p in looked.get(side.id, ()):
                                differs = True
            if not differs:
                continue
            n += 1
            if g is None:
                g = CFG(m)
            rb = set()
            for nd in g.nodes:
                if nd.kind == "stmt" and nd.ast is not None:
                    if rebuilds([nd.ast]) == tries or any(
                            isinstance(x, ast.Call) and isinstance(x.func, ast.Attribute) and isinstance(x.func.value, ast.Name) and x.func.value.id == "self"
                            and x.func.attr in rebuilders for x in ast.walk(nd.ast)):
                        rb.add(nd.id)
            ok = bool(rb) and g.must_pass_after(g.node_of(c, ns), rb, skip_exc=True)
            rep.ob(RID, ns, "NamespaceManager." + mn, c, ok,
                   "followed on every path by a rebuild of %s" % sorted(tries) if ok else
                   "the prefix %s is taken away from its namespace here and the trie (%s) is not rebuilt afterwards: the namespace that lost its prefix still wins the "
                   "longest-namespace lookup in compute_qname" % (p, ", ".join(sorted(tries))), node=c)
    if n == 0:
        raise AnalysisError("NamespaceManager: no Store.bind call under a `current namespace != new namespace` test found")


def _stmt_of(mod, node: ast.AST) -> ast.AST:
    if isinstance(node, ast.stmt):
        return node
    for p in mod.parents(node):
        if isinstance(p, ast.stmt):
            return p
    return node


def rule_s_pname_sanitised(repo: Repo, rep: Report) -> None:
    """(s) the functions that write an N3/Turtle prefixed name from compute_qname() sanitise the local part alike"""
    from vlib import h_c17 as H

    RID = "C17.s-n3-prefixed-name-local-part-sanitised-alike"
    rep.rule(RID,
             "TurtleSerializer.getQName, LongTurtleSerializer.getQName and NamespaceManager.normalizeUri (URIRef.n3(namespace_manager)) all turn compute_qname()'s "
             "(prefix, namespace, local) into a Turtle prefixed name; each applies to the local part every character escape (.replace(c, esc)) and every "
             "`endswith(c)` -> not-a-prefixed-name test that the Turtle serializer applies. compute_qname allows '(', ')' and a trailing '.' in a local part; "
             "unescaped, URIRef('http://e/f(x)').n3(nm) = 'p:f(x)' and 'p:v1.' do not read back as the IRI", floor=6)
    sites = [("rdflib.plugins.serializers.turtle", "TurtleSerializer.getQName"), ("rdflib.plugins.serializers.longturtle", "LongTurtleSerializer.getQName"),
             ("rdflib.namespace", "NamespaceManager.normalizeUri")]
    facts = {}
    for mname, q in sites:
        mod = repo.mod(mname)
        fn = mod.func(q)
        rep.analysed("%s:%s" % (mod.rel, q))

        def is_src(e: ast.AST) -> bool:
            return isinstance(e, ast.Call) and isinstance(e.func, ast.Attribute) and e.func.attr == "compute_qname"

        if not any(is_src(x) for x in own_nodes(fn)):
            raise AnalysisError("%s does not call compute_qname any more" % q)
        der = H.derived_names(fn, is_src)

        def root(e: ast.AST) -> ast.AST:
            while True:
                if isinstance(e, ast.Call) and isinstance(e.func, ast.Attribute):
                    e = e.func.value
                elif isinstance(e, (ast.Attribute, ast.Subscript)):
                    e = e.value
                else:
                    return e

        reps, ends = set(), set()
        for c in own_nodes(fn):
            if isinstance(c, ast.Call) and isinstance(c.func, ast.Attribute) and isinstance(root(c.func.value), ast.Name) and root(c.func.value).id in der:
                if c.func.attr == "replace" and len(c.args) == 2 and all(isinstance(a, ast.Constant) and isinstance(a.value, str) for a in c.args):
                    reps.add((c.args[0].value, c.args[1].value))
                if c.func.attr == "endswith" and len(c.args) == 1 and isinstance(c.args[0], ast.Constant) and any(
                        isinstance(p, ast.If) and any(c is x for x in ast.walk(p.test)) for p in mod.parents(c)):
                    ends.add(c.args[0].value)
            # ... or the not-a-local-part test is a compiled pattern applied to the local part: `if PATTERN.search(local):`
            if isinstance(c, ast.Call) and isinstance(c.func, ast.Attribute) and c.func.attr in ("search", "match", "fullmatch") and isinstance(c.func.value, ast.Name) and c.args \
                    and isinstance(root(c.args[0]), ast.Name) and root(c.args[0]).id in der \
                    and any(isinstance(p, ast.If) and any(c is x for x in ast.walk(p.test)) for p in mod.parents(c)):
                a0 = c.args[0]
                # (a test of the PREFIX part - parts[0], or the first name of `prefix, namespace, local = parts` - is not about the local part)
                is_prefix_part = isinstance(a0, ast.Subscript) and isinstance(a0.slice, ast.Constant) and a0.slice.value == 0 or isinstance(a0, ast.Name) and any(
                    isinstance(x, ast.Assign) and isinstance(x.targets[0], ast.Tuple) and x.targets[0].elts and norm(x.targets[0].elts[0]) == a0.id for x in own_nodes(fn))
                if is_prefix_part:
                    continue
                pat = None
                for mm in (mod, repo.mod("rdflib.namespace")):
                    for st in mm.tree.body:
                        if isinstance(st, ast.Assign) and norm(st.targets[0]) == c.func.value.id and isinstance(st.value, ast.Call) and norm(st.value.func) in ("re.compile", "compile") and st.value.args:
                            try:
                                pat = ast.literal_eval(st.value.args[0])
                            except Exception:
                                pat = norm(st.value.args[0])
                    if pat is not None:
                        break
                ends.add("pattern %s.%s(%r)" % (c.func.value.id, c.func.attr, pat))
        facts[q] = (mod, fn, reps, ends)
    ref_q = sites[0][1]
    _, _, rreps, rends = facts[ref_q]
    if len(rreps) < 2 or not rends:
        raise AnalysisError("%s: the escapes of the local part were not recognised (%s, %s)" % (ref_q, sorted(rreps), sorted(rends)))
    want_r = set().union(*[f[2] for f in facts.values()])
    want_e = set().union(*[f[3] for f in facts.values()])
    for q, (mod, fn, reps, ends) in facts.items():
        for pair in sorted(want_r):
            ok = pair in reps
            rep.ob(RID, mod, q, "local part: %r -> %r" % pair, ok, "escaped as in the sibling functions" if ok else
                   "%r in the local part is not escaped to %r here, as %s does: the prefixed name written does not read back as the same IRI" % (pair[0], pair[1], ref_q), node=fn)
        for e in sorted(want_e):
            ok = e in ends
            rep.ob(RID, mod, q, "local part ending with %r is not written as a prefixed name" % e, ok, "tested as in the sibling functions" if ok else
                   "a local part ending with %r is still written as a prefixed name here (%s falls back to the IRI form): 'p:v1.' reads back as p:v1 followed by '.'" % (e, ref_q), node=fn)


def run(repo: Repo, rep: Report) -> None:  # noqa: F811
    _run_base3(repo, rep)
    rule_k_prefix_identity(repo, rep)
    rule_l_override_false(repo, rep)
    rule_m_memo_validated(repo, rep)
    rule_n_wrapper_shares_manager(repo, rep)
    rule_o_shortcut(repo, rep)
    rule_p_xml_names_declared(repo, rep)
    rule_q_no_hardwired_prefix(repo, rep)
    rule_r_unbinding_rebuilds_trie(repo, rep)
    rule_s_pname_sanitised(repo, rep)


_run_before_borrow = run


def run(repo: Repo, rep: Report) -> None:  # noqa: F811
    _run_before_borrow(repo, rep)
    from vlib.core import borrow

    borrow(repo, rep, "C17", "C03", ('C03.c',))
