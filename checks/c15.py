"""C15 - query answers independent of form / preparation / store: state clauses (DESIGN.md §2 C15)."""
from __future__ import annotations

import ast

from vlib import loops, truthy
from vlib.cfg import CFG
from vlib.core import AnalysisError, Repo, Report, canon, norm, own_nodes

EXPLANATION = (
    "(a) the query algebra is immutable at evaluation time: in evaluate.py, evalutils.py, aggregates.py, update.py and the "
    "evaluation functions of operators.py no statement stores into, deletes from, or calls a mutating method on an object "
    "rooted in a CompValue/Expr-typed value or an alias of one of its attributes - so a prepared query answers every time "
    "like a freshly parsed one; the single sanctioned write is the solution that Expr.eval (itself, a method it calls through self, or a context manager "
    "of self it enters) puts on the node, which a finally covering the write must reset to None; "
    "(b) triple-pattern reordering builds a new list (sorted), never sorts the algebra's list in place; (c) the read-only "
    "aggregate evaluates a Path predicate once against the aggregate itself, not per member graph; (d) re-binding detection "
    "in QueryContext/Bindings is by key membership, not by the truthiness of the bound value (join operand order would "
    "otherwise matter for falsy values). Permutation/rename/prefix invariance and initBindings==VALUES are semantic and not decided."
)

MUTATING = {"sort", "append", "extend", "pop", "update", "clear", "reverse", "insert", "remove", "setdefault", "popitem", "__setitem__", "__delitem__"}
COPYING_CALLS = {"list", "tuple", "sorted", "set", "frozenset", "dict", "reversed", "copy", "deepcopy", "iter", "enumerate", "zip", "len", "bool", "str", "any", "all", "sum", "min", "max", "isinstance", "type", "repr"}
ALG = ("rdflib.plugins.sparql.parserutils.CompValue",)


def _alg_type_test(repo: Repo):
    typed = repo.typed

    def is_alg_type(modname: str, e: ast.AST) -> bool:
        tf = typed.type_of(modname, e)
        return tf is not None and any(typed.is_subclass(i, ALG[0]) for i in tf.items)

    return is_alg_type


def run(repo: Repo, rep: Report) -> None:
    """one rule, one layer: a rule that loses its anchor (on the tree or on one view of it) does not take its neighbours with it"""
    rep.extra["explanation"] = EXPLANATION
    _layer(rep, rule_a, repo)
    _layer(rep, lambda r, p: reordering_rule(r, p, _alg_type_test(r)), repo)
    _layer(rep, rule_c, repo)
    _layer(rep, lambda r, p: translation_cache_rule(r, p, "C15.e-translation-not-cached", ("translateQuery", "translateUpdate")), repo)
    _layer(rep, rule_f, repo)
    _layer(rep, rule_d, repo)


def rule_a(repo: Repo, rep: Report) -> None:
    typed = repo.typed
    is_alg_type = _alg_type_test(repo)
    mods = [repo.mod("rdflib.plugins.sparql." + m) for m in ("evaluate", "evalutils", "aggregates", "update", "operators")]

    # ------------------------------------------------------------------ (a)
    rep.rule("C15.a-algebra-immutable-at-eval",
             "no subscript/attribute store, del, or mutating method call has a receiver rooted in a CompValue/Expr-typed name "
             "(or in a local alias of an attribute of one) inside the evaluator modules; Expr.eval - with the methods it calls through self and the "
             "context managers of self it enters - takes back, in a `finally`, every attribute it sets on the node, and changes the node in no other way", floor=150)
    n_reads = 0
    for mod in mods:
        for q, f in mod.functions():
            if "." in q and isinstance(mod.defs.get(q.rsplit(".", 1)[0]), ast.FunctionDef):
                continue
            rep.analysed("%s:%s" % (mod.rel, q))
            # algebra-typed roots: parameters/locals whose static type is CompValue/Expr
            aliases: set[str] = set()
            for n in own_nodes(f, include_nested=True):
                if isinstance(n, ast.Assign) and len(n.targets) == 1 and isinstance(n.targets[0], ast.Name):
                    v = n.value
                    root = v
                    while isinstance(root, (ast.Attribute, ast.Subscript)):
                        root = root.value
                    if isinstance(v, (ast.Attribute, ast.Subscript)) and isinstance(root, ast.Name) and (is_alg_type(mod.name, root) or root.id in aliases):
                        aliases.add(n.targets[0].id)

            def rooted(e: ast.AST) -> bool:
                root = e
                depth = 0
                while isinstance(root, (ast.Attribute, ast.Subscript)):
                    root = root.value
                    depth += 1
                if not isinstance(root, ast.Name):
                    return False
                if root.id in aliases:
                    return True
                return is_alg_type(mod.name, root) and depth >= 0

            for n in own_nodes(f, include_nested=True):
                if isinstance(n, ast.Attribute) and isinstance(n.ctx, ast.Load) and isinstance(n.value, ast.Name) and is_alg_type(mod.name, n.value):
                    n_reads += 1
                site = None
                what = ""
                if isinstance(n, (ast.Assign, ast.AugAssign, ast.AnnAssign)):
                    tg = n.targets if isinstance(n, ast.Assign) else [n.target]
                    for t in tg:
                        if isinstance(t, (ast.Attribute, ast.Subscript)) and rooted(t.value):
                            site, what = n, "store into %s" % norm(t)
                if isinstance(n, ast.Delete):
                    for t in n.targets:
                        if isinstance(t, (ast.Attribute, ast.Subscript)) and rooted(t.value):
                            site, what = n, "del %s" % norm(t)
                if isinstance(n, ast.Call) and isinstance(n.func, ast.Attribute) and n.func.attr in MUTATING and rooted(n.func.value):
                    # receiver must itself be algebra-derived data, not a fresh local container
                    site, what = n, ".%s() on %s" % (n.func.attr, norm(n.func.value))
                if site is None:
                    continue
                why = {(a, canon(b)): w for (a, b), w in SANCTIONED.items()}.get((q, canon(site)))
                rep.ob("C15.a-algebra-immutable-at-eval", mod, q, site, why is not None,
                       "sanctioned (table): " + why if why else
                       "%s mutates the query algebra during evaluation: a prepared query evaluated again (or on another graph) no longer answers like a freshly parsed one" % what, node=site)
    # every read of an algebra attribute is an instance that holds
    rep.info["algebra_attribute_reads"] = n_reads
    # register the reads as one aggregate obligation per module to keep the evidence readable
    for mod in mods:
        cnt = 0
        for q, f in mod.functions():
            for n in own_nodes(f, include_nested=False):
                if isinstance(n, ast.Attribute) and isinstance(n.ctx, ast.Load) and isinstance(n.value, ast.Name) and is_alg_type(mod.name, n.value):
                    cnt += 1
                    if cnt <= 60:
                        rep.ob("C15.a-algebra-immutable-at-eval", mod, q, n, True, "read-only use of the algebra", node=n)
    if n_reads < 150:
        raise AnalysisError("expected >= 150 typed reads of algebra attributes in the evaluator modules, found %d (typed resolution lost?)" % n_reads)

    # who-calls fact for the sanctioned translation-time helper
    users = []
    for name, m in repo.modules.items():
        for n in ast.walk(m.tree):
            if isinstance(n, ast.Name) and n.id in ("simplify", "simplifyFilters") and isinstance(n.ctx, ast.Load):
                q = m.qual_of(n)
                if name.endswith("operators") and q == "simplify":
                    continue
                ref = typed.ref(name, n)
                if ref and ref.endswith("operators.simplify"):
                    users.append(name)
    bad_users = [u for u in users if not u.endswith("sparql.algebra")]
    rep.ob("C15.a-algebra-immutable-at-eval", repo.mod("rdflib.plugins.sparql.operators"), "simplify", "operators.simplify is used only by algebra.py", not bad_users and bool(users),
           "translation-time only (%d uses)" % len(users) if not bad_users and users else "operators.simplify (which rewrites expression nodes in place) is used from %s" % sorted(set(bad_users)), node=None)

    # Expr.eval (the public entry point of expression evaluation; the one place that may put evaluation state on a node of the
    # algebra): whatever it - or a method it calls through self, or a context manager of self it enters - sets on the node is reset
    # to None in a `finally` that covers the write, and nothing else of the node is changed.  Which attribute carries the
    # state, and whether the try/finally is written out in eval or lives in a helper / a @contextmanager, is not the rule's business.
    from vlib import h_c15 as H

    pu = repo.mod("rdflib.plugins.sparql.parserutils")
    f = pu.func("Expr.eval")
    rep.analysed("rdflib/plugins/sparql/parserutils.py:Expr.eval")
    state = H.SelfState(pu, "Expr")
    left = state.left_behind(f)
    for fn in state.visited:
        rep.analysed("rdflib/plugins/sparql/parserutils.py:%s" % pu.qual_of(fn))
    if left:
        detail = "Expr.eval leaves evaluation state on the expression node (%s)" % "; ".join(
            "%s in %s is not taken back by a `finally` that resets %s" % (norm(w)[:50], pu.qual_of(fn), "self." + a) if a is not None else
            "%s in %s changes the node" % (norm(w)[:50], pu.qual_of(fn)) for a, w, fn in left[:3])
    elif state.n_writes == 0:
        detail = "Expr.eval leaves evaluation state on the expression node (no store of the solution on the node is found in Expr.eval or what it calls through self: where do the node's parameters get their values from?)"
    else:
        detail = "evaluation state is cleared on every exit"
    rep.ob("C15.a-algebra-immutable-at-eval", pu, "Expr.eval", "what Expr.eval sets on the node is reset in a finally", not left and state.n_writes > 0, detail,
           node=left[0][1] if left else f)


def rule_c(repo: Repo, rep: Report) -> None:
    """(c) the read-only aggregate evaluates a path against itself"""
    from vlib import h_c15 as H

    typed = repo.typed
    RULE = "C15.c-aggregate-path-evaluated-once"
    rep.rule(RULE,
             "in ReadOnlyGraphAggregate.triples, whenever the predicate is a Path (every way through the method on which an isinstance(<predicate>, Path) test "
             "holds - as the body of `if isinstance(..)`, the else of `if not isinstance(..)`, after a guard clause, an arm of a conditional expression), the path is "
             "evaluated against the aggregate itself (<predicate>.eval(self, ...)) outside any loop over the member graphs, and the pattern is not handed to the "
             "member graphs one by one; no loop re-executes it with clobbered pattern variables", floor=1)
    gm = repo.mod("rdflib.graph")
    f = gm.func("ReadOnlyGraphAggregate.triples")
    rep.analysed("rdflib/graph.py:ReadOnlyGraphAggregate.triples")
    me = H.params_of(f)[0]
    PATH = "rdflib.paths.Path"

    def is_path_class(e: ast.AST) -> bool:
        if isinstance(e, ast.Tuple):
            return bool(e.elts) and any(is_path_class(x) for x in e.elts)
        if isinstance(e, (ast.Name, ast.Attribute)):
            ref = typed.ref(gm.name, e)
            if ref:
                return ref == PATH
            return norm(e).split(".")[-1] == "Path"
        return False

    def path_test(e: ast.AST) -> bool:
        return isinstance(e, ast.Call) and isinstance(e.func, ast.Name) and e.func.id == "isinstance" and len(e.args) == 2 and is_path_class(e.args[1])

    tested = {norm(e.args[0]) for e in own_nodes(f) if path_test(e)}  # type: ignore[attr-defined]

    def members(e: ast.AST) -> bool:
        """e is the collection of member graphs (or a part / copy of it)"""
        tf = typed.type_of(gm.name, e)
        items = H.collection_item_classes(tf.text) if tf is not None else []
        if items and all(typed.is_subclass(i, GRAPH_CLS) for i in items):
            return True
        return "graphs" in norm(e)

    def member_loop_vars(node: ast.AST) -> tuple[bool, set[str]]:
        """(node lies in a loop / comprehension over the member graphs, the names such loops bind)"""
        inside, names = False, set()
        child = node
        for p in gm.parents(node):
            if isinstance(p, (ast.For, ast.AsyncFor)) and members(p.iter) and child is not p.iter:
                inside = True
                names |= H.target_names(p.target)
            if isinstance(p, (ast.ListComp, ast.SetComp, ast.GeneratorExp, ast.DictComp)):
                for gen in p.generators:
                    # (the iterable itself is evaluated before the loop over it starts)
                    if members(gen.iter) and not any(x is node for x in ast.walk(gen.iter)):
                        inside = True
                        names |= H.target_names(gen.target)
            if p is f:
                break
            child = p
        return inside, names

    def assume_path(e: ast.AST, depth: int = 0) -> bool | None:
        """the truth of a condition when the predicate is a Path: the test itself, or a flag that holds its value (a local bound once, to
        an expression over names that are bound once)"""
        if path_test(e):
            return True
        if isinstance(e, ast.Name) and depth < 3 and e.id not in H.all_params(f):
            bs = H.bindings_of(f, e.id)
            if len(bs) == 1 and bs[0][0] == "is" and all(len(H.bindings_of(f, x.id)) <= 1 for x in ast.walk(bs[0][1]) if isinstance(x, ast.Name)):
                return H.tri_eval(bs[0][1], lambda x: assume_path(x, depth + 1))
        return None

    live = H.executed_assuming(f, assume_path) if tested else []
    evals, per_member, fanout = [], [], []
    for c in live:
        if not (isinstance(c, ast.Call) and isinstance(c.func, ast.Attribute)):
            continue
        inside, names = member_loop_vars(c)
        if c.func.attr == "eval" and norm(c.func.value) in tested and c.args and not isinstance(c.args[0], ast.Starred):
            if norm(c.args[0]) == me and not inside:
                evals.append(c)
            else:
                per_member.append(c)
        elif c.func.attr in TRIPLE_API and inside and isinstance(c.func.value, ast.Name) and c.func.value.id in names:
            fanout.append(c)
    ok = bool(evals) and not per_member and not fanout
    rep.ob(RULE, gm, "ReadOnlyGraphAggregate.triples", "if isinstance(p, Path): ... p.eval(self, s, o)", ok,
           "path evaluated over the union of the member graphs" if ok else
           "a Path predicate is not evaluated once against the aggregate (it is forwarded to each member graph separately or evaluated per member): paths crossing member graphs lose solutions"
           + (" [%s]" % norm((per_member + fanout)[0])[:60] if per_member or fanout else ""), node=(per_member + fanout + [f])[0])
    loops.clobber_scan(rep, RULE, gm, f, "ReadOnlyGraphAggregate.triples")
    for cls in ("ReadOnlyGraphAggregate",):
        for m, fn in gm.methods(cls).items():
            if m != "triples":
                loops.clobber_scan(rep, RULE, gm, fn, "%s.%s" % (cls, m))


def rule_f(repo: Repo, rep: Report) -> None:
    typed = repo.typed
    # (f) path objects keep no evaluation state
    rep.rule("C15.f-paths-are-stateless",
             "no eval() of a Path class (nor a helper nested in it) assigns an attribute of the path object: a path is a value that may be evaluated "
             "on any graph any number of times (a memo on the path goes stale when the graph changes)", floor=5)
    pth = repo.mod("rdflib.paths")
    for c in typed.subclasses("rdflib.paths.Path"):
        cname = c.rsplit(".", 1)[1]
        if not c.startswith("rdflib.paths.") or not pth.has(cname + ".eval"):
            continue
        f = pth.func(cname + ".eval")
        writes = []
        for n in own_nodes(f, include_nested=True):
            tgs = []
            if isinstance(n, ast.Assign):
                tgs = n.targets
            elif isinstance(n, (ast.AugAssign, ast.AnnAssign)):
                tgs = [n.target]
            for t in tgs:
                r = t
                while isinstance(r, ast.Subscript):
                    r = r.value
                if isinstance(r, ast.Attribute) and isinstance(r.value, ast.Name) and r.value.id == "self":
                    writes.append(n)
            if isinstance(n, ast.Call) and isinstance(n.func, ast.Attribute) and n.func.attr in ("setdefault", "update", "append", "add", "__setitem__") \
                    and isinstance(n.func.value, ast.Attribute) and isinstance(n.func.value.value, ast.Name) and n.func.value.value.id == "self":
                writes.append(n)
        rep.ob("C15.f-paths-are-stateless", pth, cname + ".eval", "eval() writes no attribute of self", not writes,
               "stateless" if not writes else "eval() stores state on the path object (%s): a second evaluation, or one on another/changed graph, is answered from it" % norm(writes[0])[:70], node=writes[0] if writes else f)


def rule_d(repo: Repo, rep: Report) -> None:
    # ------------------------------------------------------------------ (d)
    rep.rule("C15.d-rebinding-by-membership",
             "QueryContext / Bindings / FrozenBindings decide whether a variable is already bound by key membership or identity "
             "with None, never by the truthiness of the bound value (values are typed str in Bindings: treated as terms here)", floor=4)
    sp = repo.mod("rdflib.plugins.sparql.sparql")
    for cls in ("QueryContext", "Bindings", "FrozenBindings", "FrozenDict"):
        for m, fn in sp.methods(cls).items():
            truthy.scan(repo, rep, "C15.d-rebinding-by-membership", sp, fn, "%s.%s" % (cls, m), exempt=EXEMPT_D, extra_domain={"builtins.str"}, binding_maps=BMAPS)
            rep.analysed("rdflib/plugins/sparql/sparql.py:%s.%s" % (cls, m))


BMAPS = ("rdflib.plugins.sparql.sparql.Bindings", "rdflib.plugins.sparql.sparql.FrozenDict", "rdflib.plugins.sparql.sparql.QueryContext")
SANCTIONED = {
    ("simplify", "expr[k] = simplify(expr[k])"):
        "translation-time helper (filter simplification), not evaluation: referenced only from algebra.py's translate step - checked by the who-calls instance below",
    ("evalGraph", "x.ctx.graph = prev_graph"):
        "x is a solution (FrozenBindings) produced in this call, not the algebra; restores the active graph on the solution's context",
}
EXEMPT_D = {
    ("Bindings.__getitem__", "self.outer"):
        "Bindings.__len__ counts the whole outer chain: `not self.outer` is true only when no outer level holds any key",
    ("QueryContext.__init__", "bindings"): "`bindings or []`: an empty mapping and [] initialise the same empty dict",
    ("QueryContext.__init__", "initBindings"): "an empty initBindings mapping adds nothing either way",
}


def reordering_rule(repo: Repo, rep: Report, is_alg_type) -> None:
    """(b) the list of triple patterns a BGP node of the algebra holds is never reordered (or otherwise modified) in place"""
    from vlib import h_c08 as H8
    from vlib import h_c15 as H

    RULE = "C15.b-reordering-builds-new-list"
    rep.rule(RULE,
             "evalPart - itself, or a function it hands the node or its triples to: called by name, through a local bound to a function, or looked up in a "
             "module-level table of evaluators - reorders the triple patterns of a BGP by building a NEW list: the list the algebra node holds (`part.triples`, "
             "also read as part[\"triples\"] / .get / getattr, followed through locals, parameters and returned values) is handed to sorted() (or copied, and the copy "
             "sorted); in those functions no .sort()/.reverse()/shuffle()/other list mutator and no subscript store or del is applied to a value that may be the "
             "held list, and, where the held list is handled, no in-place sort to a value that is not certainly a container made there. Sorting the algebra's own "
             "list would make the second evaluation of a prepared query start from the order the first one left", floor=1)
    ev = repo.mod("rdflib.plugins.sparql.evaluate")
    entry = ev.func("evalPart")
    flow = H.HeldListFlow(repo, "triples", is_alg_type, H8.resolve_function)
    flow.run(ev, entry)
    good: list = []
    bad: list = []
    for m, f, _nodes, _held in list(flow.fns.values()):
        q = m.qual_of(f)
        handles = f is entry or flow.handles_list(f)
        if handles:
            rep.analysed("%s:%s" % (m.rel, q))
        for n in own_nodes(f, include_nested=True):
            if isinstance(n, ast.Call):
                tail = norm(n.func).split(".")[-1]
                if isinstance(n.func, ast.Attribute) and tail in H.LIST_MUTATORS:
                    cls = flow.classify(m, f, n.func.value)
                    if cls == "held":
                        bad.append((m, q, n, "`%s` is applied to the list the algebra node holds" % norm(n)[:60]))
                    elif cls == "unknown" and handles and tail in H.REORDER_IN_PLACE:
                        bad.append((m, q, n, "`%s` reorders in place a list that is not certainly one made in %s, which handles the algebra's list of triples" % (norm(n)[:60], q)))
                    elif cls == "new" and tail in H.REORDER_IN_PLACE and flow.computed_from_list(m, f, n.func.value):
                        good.append((m, q, n, "a copy of the held list is sorted"))
                elif tail in H.IN_PLACE_FUNCTIONS and n.args and flow.classify(m, f, n.args[0]) == "held":
                    bad.append((m, q, n, "`%s` reorders the list the algebra node holds" % norm(n)[:60]))
                elif isinstance(n.func, ast.Name) and n.func.id == "sorted" and not H.is_local(f, "sorted") and H8.resolve_function(repo, m, "sorted") is None \
                        and n.args and flow.classify(m, f, n.args[0]) == "held":
                    good.append((m, q, n, "sorted() of the held list: a new list"))
            tgs: list = []
            if isinstance(n, ast.Assign):
                tgs = list(n.targets)
            elif isinstance(n, (ast.AugAssign, ast.AnnAssign)):
                tgs = [n.target]
            elif isinstance(n, ast.Delete):
                tgs = list(n.targets)
            for t in [x for tg in tgs for x in ([tg] if not isinstance(tg, (ast.Tuple, ast.List)) else ast.walk(tg))]:
                if isinstance(t, ast.Subscript) and flow.classify(m, f, t.value) == "held":
                    bad.append((m, q, n, "`%s` stores into / deletes from the list the algebra node holds" % norm(n)[:60]))
                elif isinstance(n, ast.AugAssign) and isinstance(t, ast.Name) and flow.classify(m, f, t) == "held":
                    bad.append((m, q, n, "`%s` extends in place the list the algebra node holds" % norm(n)[:60]))
    for m, q, n, why in good:
        rep.ob(RULE, m, q, n, True, why, node=n)
    for m, q, n, why in bad:
        rep.ob(RULE, m, q, n, False, "BGP triples are reordered in place: %s - a prepared query evaluated again starts from the order this evaluation left" % why, node=n)
    if not good and not bad:
        rep.ob(RULE, ev, "evalPart", "triples = sorted(part.triples, key=...)", False,
               "BGP triples are reordered in place (or not through sorted()): no function that evalPart hands a BGP node or its triples to passes the list the node holds through sorted()", node=entry)


def translation_cache_rule(repo: Repo, rep: Report, RULE: str, which: tuple) -> None:
    """results of translateQuery / translateUpdate are per call unless keyed completely"""
    rep.rule(RULE,
             "in rdflib/plugins/sparql/processor.py the algebra produced by %s for a request text is used for that call only: it is not returned by "
             "an lru_cache/cache-decorated function nor stored in an attribute, class variable, dict or global. (For queries a memo is accepted when "
             "its key contains the text, the base and the namespace *items*; a translated update is never reusable: INSERT/DELETE DATA carry the "
             "blank nodes the parser created, which must be fresh per request.)" % "/".join(which), floor=1)
    pm = repo.mod("rdflib.plugins.sparql.processor")
    n_calls = 0
    for q, f in pm.functions():
        calls = [c for c in own_nodes(f, include_nested=True) if isinstance(c, ast.Call) and norm(c.func) in which]
        if not calls:
            continue
        n_calls += len(calls)
        cached_decl = [norm(d) for d in f.decorator_list if any(x in norm(d) for x in ("lru_cache", "cache", "memoize"))]
        for c in calls:
            kind = norm(c.func)
            problems = []
            if cached_decl:
                if kind == "translateUpdate":
                    problems.append("computed inside the %s-decorated function %s" % (cached_decl[0], q))
                else:
                    params = [a.arg for a in f.args.args]
                    if not any("items" in p.lower() or "ns" in p.lower() for p in params) or "base" not in " ".join(params).lower():
                        problems.append("computed inside the %s-decorated function %s whose parameters do not carry base and the namespace items" % (cached_decl[0], q))
            # stored?
            st = c
            for p in pm.parents(c):
                if isinstance(p, ast.stmt):
                    st = p
                    break
            names = set()
            if isinstance(st, (ast.Assign, ast.AnnAssign)):
                tgs = st.targets if isinstance(st, ast.Assign) else [st.target]
                for t in tgs:
                    if isinstance(t, (ast.Attribute, ast.Subscript)):
                        problems.append("stored in %s" % norm(t))
                    elif isinstance(t, ast.Name):
                        names.add(t.id)
            # a local holding it that is later stored
            for n in own_nodes(f, include_nested=True):
                if isinstance(n, ast.Assign) and isinstance(n.value, ast.Name) and n.value.id in names:
                    for t in n.targets:
                        if isinstance(t, (ast.Attribute, ast.Subscript)):
                            key = norm(t.slice) if isinstance(t, ast.Subscript) else ""
                            src = key
                            for a in own_nodes(f, include_nested=True):
                                if isinstance(a, ast.Assign) and norm(a.targets[0]) == key:
                                    src = norm(a.value)
                            complete = kind == "translateQuery" and "items()" in src and "base" in src
                            if not complete:
                                problems.append("stored in %s under the key %s" % (norm(t), src[:60]))
            rep.ob(RULE, pm, q, c, not problems,
                   "translated for this call only" if not problems else
                   "the translated algebra is reused across calls (%s): a later request with the same text is answered with an algebra resolved for other namespaces / carrying the first request's blank nodes" % "; ".join(problems), node=c)
    if n_calls == 0:
        raise AnalysisError("processor.py: no call to %s found" % "/".join(which))


from vlib.core import layer as _layer  # noqa: E402

_run_base = run


def run(repo: Repo, rep: Report) -> None:  # noqa: F811
    _layer(rep, _run_base, repo)
    sp = repo.mod("rdflib.plugins.sparql.sparql")
    pm = repo.mod("rdflib.plugins.sparql.parser")
    # ------------------------------------------------------------------ (g)
    rep.rule("C15.g-every-declared-prefix-resolves",
             "Prologue.bind records every (prefix, namespace) declaration of a request in a map of its own and Prologue.resolvePName answers from that map. The namespace manager it "
             "also feeds keeps ONE prefix per namespace (a later prefix for the same namespace replaces the earlier one), so a prologue that resolves through the manager's store alone "
             "forgets the first of two prefixes declared for one namespace: `PREFIX a: <N> PREFIX b: <N> ... a:x` raises Unknown namespace prefix", floor=2)
    bind = sp.func("Prologue.bind")
    res = sp.func("Prologue.resolvePName")
    own_maps = set()
    for st in own_nodes(bind):
        if isinstance(st, ast.Assign) and isinstance(st.targets[0], ast.Subscript) and isinstance(st.targets[0].value, ast.Attribute) and norm(st.targets[0].value.value) == "self":
            own_maps.add(st.targets[0].value.attr)
    rep.ob("C15.g-every-declared-prefix-resolves", sp, "Prologue.bind", "records the declaration in a map owned by the prologue", bool(own_maps),
           "self.%s" % sorted(own_maps)[0] if own_maps else "bind only forwards to NamespaceManager.bind(replace=True): a second prefix for the same namespace unbinds the first", node=bind)
    reads = {a.attr for a in ast.walk(res) if isinstance(a, ast.Attribute) and norm(a.value) == "self"} & own_maps
    rep.ob("C15.g-every-declared-prefix-resolves", sp, "Prologue.resolvePName", "resolves from that map", bool(reads) or not own_maps and False,
           "reads self.%s" % sorted(reads)[0] if reads else "resolvePName asks only the namespace manager's store, which holds one prefix per namespace", node=res)

    # ------------------------------------------------------------------ (h)
    rep.rule("C15.h-pn-local-escapes-are-removed",
             "the SPARQL grammar's PN_LOCAL regex accepts PN_LOCAL_ESC (`\\\\.`, `\\\\~`, ...); the element therefore carries a parse action that removes the backslash, so that `p:a\\\\.b` "
             "and `<...a.b>` are the same IRI (the Turtle reader of the same package does this)", floor=1)
    accepts_esc = any(isinstance(st, ast.Assign) and norm(st.targets[0]) == "PLX_re" and "PN_LOCAL_ESC_re" in norm(st.value) for st in pm.tree.body)
    acts = [c for c in ast.walk(pm.tree) if isinstance(c, ast.Call) and isinstance(c.func, ast.Attribute) and c.func.attr in ("set_parse_action", "setParseAction", "add_parse_action", "addParseAction")
            and norm(c.func.value) == "PN_LOCAL"]
    if accepts_esc:
        rep.ob("C15.h-pn-local-escapes-are-removed", pm, "<grammar>", acts[0] if acts else "PN_LOCAL has a parse action", bool(acts),
               "escapes are processed" if acts else "PN_LOCAL accepts backslash escapes but nothing removes them: `PREFIX p: <http://e/> ... p:a\\\\.b` denotes <http://e/a\\\\.b> (with the backslash) instead of <http://e/a.b>", node=acts[0] if acts else pm.tree)
    else:
        rep.ob("C15.h-pn-local-escapes-are-removed", pm, "<grammar>", "PN_LOCAL does not accept escapes", True, "nothing to unescape", node=pm.tree)


# ====================================================================================================================
# rules i-l: pinned from repaired defects F192-F195
# ====================================================================================================================
import re  # noqa: E402

from vlib import h_c04 as H4  # noqa: E402
from vlib import h_c08 as H8  # noqa: E402
from vlib import h_c15 as H  # noqa: E402

GRAPH_CLS = "rdflib.graph.Graph"
# the pattern-matching API of a graph: each has set semantics on a single graph
TRIPLE_API = {"triples", "triples_choices", "subjects", "predicates", "objects", "subject_objects", "subject_predicates", "predicate_objects"}
RESTRICTORS = ("project", "remember", "forget")


def _sparql_mods(repo: Repo) -> list:
    ms = [m for n, m in sorted(repo.modules.items()) if n.startswith("rdflib.plugins.sparql.")]
    if len(ms) < 8:
        raise AnalysisError("anchor vanished: the rdflib.plugins.sparql package has %d modules" % len(ms))
    return ms


# ------------------------------------------------------------------------------------------------------------------ (i)
def _restriction(fn: ast.AST, e: ast.AST) -> ast.Call | None:
    """a `.project(..)/.remember(..)/.forget(..)` in the expressions the value of e is computed from (def-use closure in fn)
    whose own argument is computed from a part's `_vars` annotation or is handed in by the caller"""
    params = set(H.params_of(fn)) if isinstance(fn, (ast.FunctionDef, ast.AsyncFunctionDef)) else set()
    for x in H4.closure_nodes(fn, e):
        if isinstance(x, ast.Call) and isinstance(x.func, ast.Attribute) and x.func.attr in RESTRICTORS and (x.args or x.keywords):
            for s_ in list(x.args) + [k.value for k in x.keywords]:
                if any(isinstance(y, ast.Attribute) and y.attr == "_vars" for y in H4.closure_nodes(fn, s_)):
                    return x
                # a helper that is handed the set of variables by its caller
                if isinstance(s_, ast.Name) and s_.id in params and not H.binders_of(fn, s_.id) and not H4.local_defs(fn, s_.id):
                    return x
    return None


def _side_origin(fn: ast.FunctionDef, e: ast.AST, depth: int = 0) -> tuple[str, object]:
    """where one operand of a domain test comes from: ('restricted', call) | ('param', index) | ('unknown', None)"""
    r = _restriction(fn, e)
    if r is not None:
        return "restricted", r
    if isinstance(e, ast.Name) and depth < 4:
        ps = H.params_of(fn)
        if e.id in ps and not H.binders_of(fn, e.id) and not H4.local_defs(fn, e.id):
            return "param", ps.index(e.id)
        for _b, it in H.binders_of(fn, e.id):
            o = _side_origin(fn, it, depth + 1)
            if o[0] != "unknown":
                return o
        for v in H4.local_defs(fn, e.id):
            for nm in [x for x in ast.walk(v) if isinstance(x, ast.Name) and isinstance(x.ctx, ast.Load)]:
                if nm.id != e.id:
                    o = _side_origin(fn, nm, depth + 1)
                    if o[0] == "param":
                        return o
    return "unknown", None


def _arg_for(call: ast.Call, fn: ast.FunctionDef, idx: int) -> ast.AST | None:
    ps = H.params_of(fn)
    if idx < len(call.args) and not any(isinstance(a, ast.Starred) for a in call.args[: idx + 1]):
        return call.args[idx]
    for k in call.keywords:
        if k.arg == ps[idx]:
            return k.value
    return None


def rule_i(repo: Repo, rep: Report) -> None:
    RULE = "C15.i-domain-test-on-the-operands-own-variables"
    rep.rule(RULE,
             "a solution produced by evalPart(ctx, P) carries, besides the variables of P, every binding that was made outside of P (initBindings, the left side of a "
             "lazy join / OPTIONAL pushed into ctx). `compatible()` is insensitive to that, `disjointDomain()` is not: wherever the evaluator asks whether two solutions "
             "have a variable in common, at least one of the two must first have been restricted to its operand's own variables - `.project/.remember/.forget` with a set "
             "computed from the part's `_vars` - at the test itself or at every call of the helper that performs it. Otherwise `SELECT * { ?s :p ?o MINUS { ?a :q ?b } }` "
             "evaluated with initBindings {?z: 1} (or inside `{ ?z :r ?w } OPTIONAL/. { ... MINUS ... }`) removes every left-hand row: ?z is `shared`", floor=1)
    sp = repo.mod("rdflib.plugins.sparql.sparql")
    if not sp.has("FrozenDict.disjointDomain"):
        raise AnalysisError("anchor vanished: FrozenDict.disjointDomain (the domain-sensitive test on solutions)")
    mods = _sparql_mods(repo)
    n_sinks = 0

    def call_sites(tmod, tfn: ast.FunctionDef):
        for m in mods:
            for q, f in m.functions():
                for c in own_nodes(f):
                    if isinstance(c, ast.Call) and isinstance(c.func, ast.Name) and c.func.id == tfn.name:
                        r = H8.resolve_function(repo, m, c.func.id)
                        if r is not None and r[1] is tfn:
                            yield m, q, f, c

    def at_call_sites(hmod, hfn: ast.FunctionDef, idxs: list[int], what: str, depth: int) -> None:
        sites = list(call_sites(hmod, hfn))
        if not sites:
            raise AnalysisError("%s: the helper %s that performs it has no call site in the SPARQL package" % (what, hfn.name))
        for m, q, f, c in sites:
            rep.analysed("%s:%s" % (m.rel, q))
            g = CFG(f)
            restricted = None
            passthrough: list[int] = []
            for i in idxs:
                a = _arg_for(c, hfn, i)
                if a is None:
                    raise AnalysisError("%s: cannot match argument %d of the call %s in %s" % (RULE, i, norm(c)[:60], q))
                cands: list[ast.AST] = [a]
                if isinstance(a, ast.Name):
                    vals = H4.reaching_values(m, f, g, c, a.id)
                    cands = [H4.bound_value(st, a.id) or st for st in vals if st is not None]
                    if any(st is None for st in vals) and a.id in H.params_of(f):
                        passthrough.append(H.params_of(f).index(a.id))
                for v in cands:
                    r = _restriction(f, v) if not isinstance(v, ast.stmt) else None
                    if r is not None:
                        restricted = r
            if restricted is not None:
                rep.ob(RULE, m, q, c, True, "%s: an operand is restricted first (%s)" % (what, norm(restricted)[:60]), node=c)
            elif passthrough and len(passthrough) == len(idxs) and depth < 3:
                at_call_sites(m, f, passthrough, what, depth + 1)
            else:
                rep.ob(RULE, m, q, c, False,
                       "%s, and here it receives the solutions as evalPart() produced them: they still carry every binding made outside the operand "
                       "(initBindings, the left side of a lazy join / OPTIONAL), so two solutions whose operands share no variable are never domain-disjoint - "
                       "`{ ?s :p ?o MINUS { ?a :q ?b } }` with initBindings {?z: 1} loses all its rows" % what, node=c)

    for m in mods:
        for q, f in m.functions():
            for c in own_nodes(f):
                if not (isinstance(c, ast.Call) and isinstance(c.func, ast.Attribute) and c.func.attr == "disjointDomain" and len(c.args) == 1):
                    continue
                if m is sp and q.startswith("FrozenDict."):
                    continue
                n_sinks += 1
                rep.analysed("%s:%s" % (m.rel, q))
                what = "%s tests `%s`" % (q, norm(c)[:50])
                origins = [_side_origin(f, c.func.value), _side_origin(f, c.args[0])]
                if any(o[0] == "restricted" for o in origins):
                    r = [o[1] for o in origins if o[0] == "restricted"][0]
                    rep.ob(RULE, m, q, c, True, "an operand is restricted at the test (%s)" % norm(r)[:60], node=c)  # type: ignore[arg-type]
                elif all(o[0] == "param" for o in origins):
                    at_call_sites(m, f, [o[1] for o in origins], what, 0)  # type: ignore[misc]
                else:
                    raise AnalysisError("%s: cannot tell where the operands of %s in %s come from" % (RULE, norm(c)[:50], q))
    if n_sinks == 0:
        raise AnalysisError("anchor vanished: no use of disjointDomain() in the SPARQL evaluator (how is MINUS decided?)")


# ------------------------------------------------------------------------------------------------------------------ (j)
_ALPHA = "abcdefghijklmnopqrstuvwxyzABCDEFGHIJKLMNOPQRSTUVWXYZ"
_SCHEME_CH = _ALPHA + "0123456789+-."


def _scheme_probe(pat, method: str) -> str | None:
    """None when pat.<method> recognises exactly `a string that starts with an RFC 3986 scheme and a colon`; else a counterexample"""
    fn = getattr(pat, method)
    for c in _ALPHA:
        if not fn(c + ":x"):
            return "does not accept %r" % (c + ":x")
    for c in _SCHEME_CH:
        if not fn("a" + c + ":x"):
            return "does not accept %r" % ("a" + c + ":x")
    for s_ in ("http://e/", "urn:x", "mailto:a@b"):
        if not fn(s_):
            return "does not accept %r" % s_
    for s_ in ("", ":a", "#a:b", "./a:b", "/a:b", "a/b:c", "?a:b", "../a:b", "abc", "a", "#frag"):
        if fn(s_):
            return "takes %r for absolute" % s_
    others = [chr(i) for i in range(32, 127)] + ["é", "д", "\t", "\n"]
    for c in others:
        if c not in _ALPHA and fn(c + "a:x"):
            return "takes %r for absolute" % (c + "a:x")
        if c not in _SCHEME_CH and c != ":" and fn("a" + c + "b:x"):
            return "takes %r for absolute" % ("a" + c + "b:x")
    return None


def rule_j(repo: Repo, rep: Report) -> None:
    RULE = "C15.j-relative-iri-decided-by-scheme"
    rep.rule(RULE,
             "wherever the SPARQL package resolves an IRI reference against BASE (`URIRef(x, base=...)`, `urljoin`), every test on the text of x that guards the "
             "resolution recognises an absolute IRI by its scheme - a regular expression matched at the start of x that accepts exactly ALPHA *( ALPHA / DIGIT / + / - / . ) "
             "':' (RFC 3986, 3.1; the expression is taken from the source and probed over all of ASCII) - and never by a substring test such as `':' in x`: a relative "
             "reference may contain ':' in its fragment, query or any but the first path segment, so with `BASE <http://e/>` the spellings <#a:b>, <./a:b>, </a:b> and "
             "<http://e/#a:b> ... must denote the same IRIs and match the same triples", floor=1)
    n = 0
    for m in _sparql_mods(repo):
        for q, f in m.functions():
            for c in own_nodes(f):
                if not isinstance(c, ast.Call):
                    continue
                callee = norm(c.func).split(".")[-1]
                ref = None
                if callee == "URIRef" and c.args and (len(c.args) >= 2 or any(k.arg == "base" for k in c.keywords)):
                    ref = c.args[0]
                elif callee == "urljoin" and len(c.args) >= 2:
                    ref = c.args[1]
                if ref is None:
                    continue
                n += 1
                rep.analysed("%s:%s" % (m.rel, q))
                verdicts = []
                for t in _guards(m, f, c):
                    verdicts += _text_tests(repo, m, t, norm(ref), 0)
                if not verdicts:
                    rep.ob(RULE, m, q, c, True, "resolved whatever the text of the reference is (urljoin leaves an IRI with a scheme alone)", node=c)
                for atom, bad in verdicts:
                    rep.ob(RULE, m, q, atom, bad is None,
                           "absolute = starts with a scheme" if bad is None else
                           "whether %s is resolved against BASE is decided by `%s`, which %s: with `BASE <http://e/>` the reference <#a:b> (or <./a:b>, </a:b>) stays unresolved and "
                           "no longer equals <http://e/#a:b>" % (norm(ref), norm(atom)[:60], bad), node=atom)
    if n == 0:
        raise AnalysisError("anchor vanished: no resolution of an IRI reference against a base in the SPARQL package")


def _guards(mod, f: ast.AST, node: ast.AST) -> list[ast.expr]:
    """tests that decide whether `node` is reached: those of the enclosing if / elif / conditional expressions (either branch) and of
    earlier early-exit ifs of the enclosing blocks"""
    out: list[ast.expr] = []
    child = node
    for p in mod.parents(node):
        if isinstance(p, (ast.If, ast.IfExp, ast.While)) and child is not p.test:
            out.append(p.test)
        if isinstance(p, ast.BoolOp) and child in p.values:
            out += [v for v in p.values[: p.values.index(child)]]
        for field in ("body", "orelse", "finalbody"):
            blk = getattr(p, field, None)
            if isinstance(blk, list) and any(child is s_ for s_ in blk):
                for s_ in blk:
                    if s_ is child:
                        break
                    if isinstance(s_, ast.If) and s_.body and isinstance(s_.body[-1], (ast.Return, ast.Raise, ast.Continue, ast.Break)):
                        out.append(s_.test)
        if p is f:
            break
        child = p
    return out


def _text_tests(repo: Repo, mod, test: ast.AST, x: str, depth: int) -> list[tuple[ast.AST, str | None]]:
    """(atom, None | what is wrong with it) for every atomic test in `test` that inspects the text of the expression whose normal form is x"""
    if isinstance(test, ast.BoolOp):
        return [r for v in test.values for r in _text_tests(repo, mod, v, x, depth)]
    if isinstance(test, ast.UnaryOp) and isinstance(test.op, ast.Not):
        return _text_tests(repo, mod, test.operand, x, depth)
    if isinstance(test, ast.NamedExpr):
        return _text_tests(repo, mod, test.value, x, depth)
    is_x = lambda e: norm(e) == x  # noqa: E731
    if not any(is_x(s_) for s_ in ast.walk(test)):
        return []
    if is_x(test):
        return []  # presence / emptiness
    if isinstance(test, ast.Compare):
        if len(test.ops) == 1 and isinstance(test.ops[0], (ast.In, ast.NotIn)) and is_x(test.comparators[0]):
            return [(test, "is a substring test (true for a ':' anywhere in the reference)")]
        if all(isinstance(o, (ast.Eq, ast.NotEq, ast.Is, ast.IsNot)) for o in test.ops) and all(is_x(e) or not any(is_x(s_) for s_ in ast.walk(e)) for e in [test.left] + test.comparators):
            return []  # compared as a whole
        if all(not any(is_x(s_) for s_ in ast.walk(e)) or (isinstance(e, ast.Attribute) and is_x(e.value)) for e in [test.left] + test.comparators):
            return []  # a field of a structured value (x.name == ...)
        inner = [r for e in [test.left] + test.comparators for r in _text_tests(repo, mod, e, x, depth)]
        if inner:
            return inner
        raise AnalysisError("C15.j: unmodelled test on an IRI reference: %s" % norm(test)[:80])
    if isinstance(test, ast.Call):
        fn = norm(test.func)
        if fn == "isinstance" or fn == "len" or fn == "bool":
            return []
        if isinstance(test.func, ast.Attribute) and is_x(test.func.value):
            return [(test, "is a string-method test, not the scheme grammar")]
        if isinstance(test.func, ast.Attribute) and test.func.attr in ("match", "search", "fullmatch") and any(is_x(a) for a in test.args):
            if fn in ("re.match", "re.search", "re.fullmatch"):
                texts = H.fold_str(mod, test.args[0])
                pats = None if texts is None else [re.compile(t_, H._flags_of(test, 2)) for t_ in sorted(texts)]
            else:
                pats = H.compiled_patterns(mod, test.func.value)
            if not pats:
                raise AnalysisError("C15.j: the regular expression of `%s` is not a constant of the module" % norm(test)[:60])
            bad = None
            for p in pats:
                bad = bad or _scheme_probe(p, test.func.attr)
            return [(test, None if bad is None else "is not `starts with a scheme` (the expression %s)" % bad)]
        if isinstance(test.func, ast.Name) and depth < 2:
            r = H8.resolve_function(repo, mod, test.func.id)
            pos = [i for i, a in enumerate(test.args) if is_x(a)]
            if r is not None and pos:
                hm, hf = r
                ps = H.params_of(hf)
                if pos[0] < len(ps):
                    out: list = []
                    for s_ in own_nodes(hf):
                        if isinstance(s_, ast.Return) and s_.value is not None:
                            out += _text_tests(repo, hm, s_.value, ps[pos[0]], depth + 1)
                        elif isinstance(s_, (ast.If, ast.IfExp, ast.While)):
                            out += _text_tests(repo, hm, s_.test, ps[pos[0]], depth + 1)
                    return out
        raise AnalysisError("C15.j: unmodelled test on an IRI reference: %s" % norm(test)[:80])
    if isinstance(test, ast.Attribute) and is_x(test.value):
        return []
    if isinstance(test, ast.Subscript):
        return [(test, "looks at a slice of the reference, not at its scheme")]
    raise AnalysisError("C15.j: unmodelled test on an IRI reference: %s" % norm(test)[:80])


# ------------------------------------------------------------------------------------------------------------------ (k)
def rule_k(repo: Repo, rep: Report) -> None:
    RULE = "C15.k-aggregate-yields-a-shared-triple-once"
    rep.rule(RULE,
             "a graph is a SET of triples for every store configuration. A method that answers a pattern by asking each graph of a collection of graphs in turn "
             "(`for g in <graphs>: for t in g.triples(..)/triples_choices(..)/...: yield t`) yields a triple that several of those graphs hold once per graph unless "
             "either the yielded row names the member graph (quads) or the yield is guarded by a `not in <seen>` test on exactly the yielded value, with <seen> a set "
             "created before the loop over the graphs and filled with that value; the same in comprehension form must be collected into a set. Otherwise "
             "`SELECT ?s { ?s ?p ?o }` over ReadOnlyGraphAggregate([g1, g2]) with one triple in both graphs has two solutions where the ConjunctiveGraph / Dataset "
             "union of the same data has one", floor=2)
    typed = repo.typed

    def graphs_collection(modname: str, e: ast.AST) -> bool:
        tf = typed.type_of(modname, e)
        if tf is None:
            return False
        items = H.collection_item_classes(tf.text)
        return bool(items) and all(typed.is_subclass(i, GRAPH_CLS) for i in items)

    def fans_out(f: ast.AST, e: ast.AST, g: str) -> ast.Call | None:
        for x in H4.closure_nodes(f, e, depth=2):
            if isinstance(x, ast.Call) and isinstance(x.func, ast.Attribute) and x.func.attr in TRIPLE_API and isinstance(x.func.value, ast.Name) and x.func.value.id == g:
                return x
        return None

    def set_bound_outside(f: ast.AST, name: str, loop: ast.AST) -> bool:
        inside = {id(x) for x in ast.walk(loop)}
        defs = [n for n in own_nodes(f) if isinstance(n, (ast.Assign, ast.AnnAssign)) and H4.bound_value(n, name) is not None]
        if not defs or any(id(d) in inside for d in defs):
            return False
        for d in defs:
            v = H4.bound_value(d, name)
            if not (isinstance(v, (ast.Set, ast.SetComp, ast.Dict)) or isinstance(v, ast.Call) and norm(v.func) in ("set", "dict", "OrderedDict", "collections.OrderedDict")):
                return False
        return True

    def seen_guard(mod, f: ast.AST, outer: ast.For, inner: ast.For, y: ast.AST, val: ast.AST) -> str | None:
        """None if the yield is guarded as the rule demands, else what is missing"""
        tests: list[tuple[ast.Compare, bool]] = []
        child: ast.AST = y
        for p in mod.parents(y):
            if isinstance(p, ast.If) and child is not p.test and any(child is s_ for s_ in p.body):
                tests.append((p.test, True))  # type: ignore[arg-type]
            blk = [getattr(p, fld) for fld in ("body", "orelse") if isinstance(getattr(p, fld, None), list) and any(child is s_ for s_ in getattr(p, fld))]
            for b in blk:
                for s_ in b:
                    if s_ is child:
                        break
                    if isinstance(s_, ast.If) and s_.body and isinstance(s_.body[-1], ast.Continue) and not s_.orelse:
                        tests.append((s_.test, False))  # type: ignore[arg-type]
            if p is inner:
                break
            child = p
        for t, positive in tests:
            if isinstance(t, ast.UnaryOp) and isinstance(t.op, ast.Not):
                t, positive = t.operand, not positive  # type: ignore[assignment]
            if not (isinstance(t, ast.Compare) and len(t.ops) == 1 and isinstance(t.comparators[0], ast.Name)):
                continue
            if not (isinstance(t.ops[0], ast.NotIn) and positive or isinstance(t.ops[0], ast.In) and not positive):
                continue
            seen = t.comparators[0].id
            if norm(t.left) != norm(val):
                return "the membership test is on %s, not on the yielded %s" % (norm(t.left), norm(val))
            if not set_bound_outside(f, seen, outer):
                return "the set of rows already yielded is (re)created inside the loop over the member graphs"
            adds = [c for c in H.walk_stmts(inner.body) if isinstance(c, ast.Call) and isinstance(c.func, ast.Attribute) and c.func.attr == "add"
                    and isinstance(c.func.value, ast.Name) and c.func.value.id == seen and c.args and norm(c.args[0]) == norm(val)]
            adds += [s_ for s_ in H.walk_stmts(inner.body) if isinstance(s_, ast.Assign) and isinstance(s_.targets[0], ast.Subscript)
                     and norm(s_.targets[0].value) == seen and norm(s_.targets[0].slice) == norm(val)]
            if not adds:
                return "the yielded row is never added to the set it is looked up in"
            return None
        return "nothing prevents a second member graph holding the same triple from yielding it again"

    for name, mod in sorted(repo.modules.items()):
        for q, f in mod.functions():
            for n in own_nodes(f):
                # statement form
                if isinstance(n, (ast.For, ast.AsyncFor)) and isinstance(n.target, ast.Name) and graphs_collection(name, n.iter):
                    g = n.target.id
                    for inner in H.walk_stmts(n.body):
                        if isinstance(inner, (ast.For, ast.AsyncFor)):
                            call = fans_out(f, inner.iter, g)
                            if call is None:
                                continue
                            rep.analysed("%s:%s" % (mod.rel, q))
                            for y in H.walk_stmts(inner.body):
                                if isinstance(y, ast.YieldFrom):
                                    rep.ob(RULE, mod, q, y, False, "re-yields an iterable per row per member graph", node=y)
                                if not (isinstance(y, ast.Yield) and y.value is not None):
                                    continue
                                if H.mentions(y.value, g):
                                    rep.ob(RULE, mod, q, y, True, "every row names the member graph it comes from", node=y)
                                    continue
                                ystmt = H4.enclosing_stmt(mod, y)
                                miss = seen_guard(mod, f, n, inner, ystmt, y.value)
                                rep.ob(RULE, mod, q, "for .. in %s: for .. in %s: %s" % (norm(n.iter), norm(call)[:50], norm(y)), miss is None,
                                       "each row once over all member graphs" if miss is None else
                                       "%s: a triple held by two of %s is yielded twice, so every pattern matching it has two solutions where the union of the same data in one "
                                       "store has one" % (miss, norm(n.iter)), node=y)
                        elif isinstance(inner, ast.YieldFrom) and fans_out(f, inner.value, g) is not None and not any(
                                isinstance(p, (ast.For, ast.AsyncFor)) and p is not n and fans_out(f, p.iter, g) is not None for p in mod.parents(inner)):
                            rep.analysed("%s:%s" % (mod.rel, q))
                            rep.ob(RULE, mod, q, inner, False,
                                   "the matches of each of %s are passed on as they come: a triple held by two member graphs is yielded twice" % norm(n.iter), node=inner)
                # comprehension form
                if isinstance(n, (ast.GeneratorExp, ast.ListComp, ast.SetComp)):
                    for i, gen in enumerate(n.generators):
                        if not (isinstance(gen.target, ast.Name) and graphs_collection(name, gen.iter)):
                            continue
                        g = gen.target.id
                        later = [fans_out(f, g2.iter, g) for g2 in n.generators[i + 1:]] + [fans_out(f, n.elt, g) if not n.generators[i + 1:] else None]
                        if not any(x is not None for x in later):
                            continue
                        rep.analysed("%s:%s" % (mod.rel, q))
                        par = mod.parent.get(id(n))
                        collected = isinstance(n, ast.SetComp) or isinstance(par, ast.Call) and norm(par.func) in ("set", "frozenset") and par.args and par.args[0] is n
                        named = bool(n.generators[i + 1:]) and H.mentions(n.elt, g)
                        rep.ob(RULE, mod, q, n, collected or named,
                               "collected into a set" if collected else "every row names the member graph" if named else
                               "the matches of each of %s are chained as they come: a triple held by two member graphs appears twice" % norm(gen.iter), node=n)


# ------------------------------------------------------------------------------------------------------------------ (l)
def rule_l(repo: Repo, rep: Report) -> None:
    RULE = "C15.l-made-up-variables-cannot-be-written"
    rep.rule(RULE,
             "a variable that the SPARQL package makes up itself - `Variable(<text built from a literal>)`, e.g. the result variable of the n-th aggregate - has a name that "
             "no query can contain: the literal part of the name has a character that the grammar's VARNAME expression (taken from parser.py) does not accept. Otherwise the "
             "answer depends on how the user names variables: in `SELECT ?__agg_1__ (COUNT(?x) AS ?c) { ?__agg_1__ :p ?x } GROUP BY ?__agg_1__` the query's own variable and "
             "the internal result of COUNT are one variable, and consistently renaming it changes the answer", floor=1)
    pm = repo.mod("rdflib.plugins.sparql.parser")
    pats = H.compiled_patterns(pm, ast.Name(id="VARNAME", ctx=ast.Load()))
    if not pats:
        raise AnalysisError("anchor vanished: the VARNAME regular expression of the SPARQL grammar is not a foldable constant of parser.py")
    if not all(p.fullmatch("x") and p.fullmatch("_agg_1_") and not p.fullmatch("a b") for p in pats):
        raise AnalysisError("the VARNAME expression folded from parser.py does not behave like a variable name grammar")

    def writable(ch: str) -> bool:
        return any(p.fullmatch("a" + ch) for p in pats)

    for m in _sparql_mods(repo):
        for q, f in m.functions():
            for c in own_nodes(f):
                if not (isinstance(c, ast.Call) and norm(c.func).split(".")[-1] == "Variable" and len(c.args) == 1 and not c.keywords):
                    continue
                consts = H.template_constants(f, c.args[0])
                if not consts:
                    continue  # the name is data (from the query, the caller, a remote result)
                rep.analysed("%s:%s" % (m.rel, q))
                odd = sorted({ch for t in consts for ch in t if not writable(ch)})
                rep.ob(RULE, m, q, c, bool(odd),
                       "cannot be written in a query (%s)" % " ".join(repr(o) for o in odd) if odd else
                       "the made-up name %s is also a legal variable name of a query: a query that uses ?%s for something else shares it with this internal variable, so the "
                       "answer changes when the user's variable is renamed" % (norm(c.args[0])[:40], "".join(consts)[:30]), node=c)


_run_base2 = run


def run(repo: Repo, rep: Report) -> None:  # noqa: F811
    _layer(rep, _run_base2, repo)
    rep.extra["explanation"] = rep.extra.get("explanation", "") + (
        " (i) a domain-sensitive test on solutions (disjointDomain, i.e. MINUS) sees an operand restricted to its own `_vars`, not the bindings pushed in from outside; "
        "(j) relative IRI references are recognised by the absence of a scheme (the regular expression is probed), never by a ':' substring test; "
        "(k) a fan-out over a collection of member graphs yields a shared triple once (seen-set created before the loop) or names the member graph; "
        "(l) variables the translator makes up have names outside the grammar's VARNAME language."
    )
    _layer(rep, rule_i, repo)
    _layer(rep, rule_j, repo)
    _layer(rep, rule_k, repo)
    _layer(rep, rule_l, repo)



# ====================================================================================================================
# rules m-o: pinned from repaired defects F303-F305
# ====================================================================================================================
PROLOGUE_CLS = "rdflib.plugins.sparql.sparql.Prologue"
PARSE_TREE = ("rdflib.plugins.sparql.parserutils.CompValue", "pyparsing.results.ParseResults")


def _typed_as(repo: Repo, modname: str, e: ast.AST, classes: tuple) -> bool:
    tf = repo.typed.type_of(modname, e)
    return tf is not None and any(repo.typed.is_subclass(i, c) for i in tf.items for c in classes)


# ------------------------------------------------------------------------------------------------------------------ (m)
def rule_m(repo: Repo, rep: Report) -> None:
    RULE = "C15.m-declared-iri-is-resolved-before-it-enters-the-prologue"
    rep.rule(RULE,
             "the IRI references of a request are resolved by Prologue.absolutize (the method that builds `URIRef(x, base=self.base)`); the traversal that applies it "
             "covers the body of the request, not its declarations, so what a prologue keeps for later resolutions - its `.base`, and the namespaces handed to `.bind` - "
             "is, whenever it is read from the parse tree (an attribute of a CompValue / ParseResults-typed value), first passed through that method OF THE SAME "
             "prologue: the reference is resolved against the base in effect. A declaration stored as written makes everything resolved against it relative: "
             "`BASE <http://e/a/> BASE <b/> SELECT * { <x> ?p ?o }` (or base='http://e/a/' and `BASE <b/>`) asks for <b/x> instead of <http://e/a/b/x>, "
             "so the spellings <x> and <http://e/a/b/x> of one IRI give different answers", floor=8)
    sp = repo.mod("rdflib.plugins.sparql.sparql")
    resolvers = set()
    for name, fn in sp.methods("Prologue").items():
        for c in own_nodes(fn):
            if isinstance(c, ast.Call) and norm(c.func).split(".")[-1] == "URIRef":
                b = [k.value for k in c.keywords if k.arg == "base"] + list(c.args[1:2])
                if any(isinstance(x, ast.Attribute) and x.attr == "base" and isinstance(x.value, ast.Name) and x.value.id == H.params_of(fn)[0] for x in b):
                    resolvers.add(name)
    if not resolvers:
        raise AnalysisError("anchor vanished: no method of Prologue resolves a reference against self.base")
    n_tree = 0
    for m in _sparql_mods(repo):
        for q, f in m.functions():
            sinks: list[tuple[ast.AST, ast.expr, ast.expr, str]] = []  # (site, prologue expression, value, what)
            for n in own_nodes(f):
                if isinstance(n, (ast.Assign, ast.AnnAssign, ast.AugAssign)) and n.value is not None:
                    for t in (n.targets if isinstance(n, ast.Assign) else [n.target]):
                        if isinstance(t, ast.Attribute) and t.attr == "base" and _typed_as(repo, m.name, t.value, (PROLOGUE_CLS,)):
                            sinks.append((n, t.value, n.value, "the base"))
                if isinstance(n, ast.Call) and isinstance(n.func, ast.Attribute) and n.func.attr == "bind" and _typed_as(repo, m.name, n.func.value, (PROLOGUE_CLS,)):
                    v = n.args[1] if len(n.args) >= 2 else next((k.value for k in n.keywords if k.arg == "uri"), None)
                    if v is None:
                        raise AnalysisError("%s: cannot tell the namespace argument of %s in %s" % (RULE, norm(n)[:60], q))
                    sinks.append((n, n.func.value, v, "a namespace"))
            for site, recv, val, what in sinks:
                rep.analysed("%s:%s" % (m.rel, q))
                exprs = H4.closure(f, val)
                # reads of the parse tree the value is computed from, and those of them that lie inside an argument of the resolver
                reads = [x for e in exprs for x in ast.walk(e) if isinstance(x, (ast.Attribute, ast.Subscript)) and _typed_as(repo, m.name, x.value, PARSE_TREE)]
                clean: set[int] = set()
                for e in exprs:
                    for c in ast.walk(e):
                        if isinstance(c, ast.Call) and isinstance(c.func, ast.Attribute) and c.func.attr in resolvers \
                                and _typed_as(repo, m.name, c.func.value, (PROLOGUE_CLS,)) and norm(c.func.value) == norm(recv):
                            clean |= {id(x) for a in list(c.args) + [k.value for k in c.keywords] for x in ast.walk(a)}
                raw = [x for x in reads if id(x) not in clean]
                if reads:
                    n_tree += 1
                rep.ob(RULE, m, q, site, not raw,
                       ("resolved against the base in effect first" if reads else "not read from the request's text (given from outside / copied from a prologue)") if not raw else
                       "%s of the prologue is set from %s as it is written in the request, without %s.%s(): a relative reference in the declaration "
                       "(`BASE <http://e/a/> BASE <b/>`, or base='http://e/a/' with `BASE <b/>`) is kept relative, and every IRI of the request that is then resolved against it "
                       "is relative too - <x> no longer denotes <http://e/a/b/x>" % (what, norm(raw[0]), norm(recv), sorted(resolvers)[0]), node=site)
    if n_tree < 2:
        raise AnalysisError("anchor vanished: expected the BASE and the PREFIX declaration of the parse tree to reach a prologue, found %d such store(s)" % n_tree)


# ------------------------------------------------------------------------------------------------------------------ (n)
def rule_n(repo: Repo, rep: Report) -> None:
    RULE = "C15.n-no-list-by-right-recursion-in-the-grammar"
    rep.rule(RULE,
             "pyparsing matches a grammar element that refers to itself by recursion, a dozen Python frames per level. That is harmless where every level costs the "
             "request a bracket (`(` Expression `)`, `{` GroupGraphPattern `}`, `[` .. `]`: the element is followed by its closing token), but an element that can END "
             "with itself - X ::= A ( sep X? )?, the EBNF way to write a list - recurses once per list item: the W3C rules TriplesBlock / ConstructTriples / TriplesTemplate "
             "written that way raise RecursionError at about 90 '.'-separated triple patterns, while the same patterns written with ';' or ',' (ZeroOrMore) parse, so "
             "whether a query has an answer depends on how it is written. For every Forward() of the grammar: following tail positions (`A + B` -> B, and A when B can "
             "match nothing; `A | B` -> both; Optional/ZeroOrMore/Group/Param/Comp/decorations -> their operand; names -> their definitions) never leads back to it", floor=5)
    pm = repo.mod("rdflib.plugins.sparql.parser")
    gr = H4.Grammar(pm)
    fwd = sorted(n for n, vs in gr.defs.items() if any(isinstance(v, ast.Call) and norm(v.func).split(".")[-1] == "Forward" for v in vs))
    if not fwd:
        raise AnalysisError("anchor vanished: the SPARQL grammar declares no Forward() element")
    for x in fwd:
        body = [v for v in gr.defs[x] if not (isinstance(v, ast.Call) and norm(v.func).split(".")[-1] == "Forward")]
        if not body:
            raise AnalysisError("%s: the Forward() element %s of the grammar is never given a definition (`%s <<= ...`)" % (RULE, x, x))
        cyc = H.g_tail_cycle(gr.defs, x)
        rep.ob(RULE, pm, "<grammar>", "%s <<= %s" % (x, norm(body[-1])[:200]), cyc is None,
               "every recursion through %s is closed by a token of its own" % x if cyc is None else
               "the grammar rule %s can end with itself (%s): it is parsed by one level of Python recursion per list item, so about 90 items separated by '.' raise "
               "RecursionError while the same request written with ';' / ',' parses - write it as an iteration (ZeroOrMore)" % (x, " -> ".join(cyc)), node=body[-1])


# ------------------------------------------------------------------------------------------------------------------ (o)
def rule_o(repo: Repo, rep: Report) -> None:
    RULE = "C15.o-derived-context-carries-the-execution-state"
    rep.rule(RULE,
             "a method of a class of the SPARQL package that answers with a NEW instance of its own class (`r = C(...); ...; return r`: QueryContext.clone, behind push / "
             "pushGraph / thaw / clean - one per solution and per nested pattern) hands over all of the execution's state: every attribute that C.__init__ sets "
             "unconditionally to a value computed from none of its parameters (a placeholder or a fresh container: prologue, the blank-node map, the time of the execution) "
             "is assigned on the new instance from `self`; and where the attribute is a slot that some method fills on first use (`if self.X is None: self.X = ...`), the "
             "copy takes it through that method, not the possibly still empty slot. Otherwise each derived context fills the slot by itself: "
             "`SELECT * { ?s ?p ?o BIND(NOW() AS ?t) }` gives a different ?t per row, and `FILTER(?t = NOW())` is true or false depending on where in the pattern it is written", floor=3)
    n_copy = 0
    for m in _sparql_mods(repo):
        for cname, cnode in m.defs.items():
            if not isinstance(cnode, ast.ClassDef) or "." in cname:
                continue
            meths = m.methods(cname)
            init = meths.get("__init__")
            if init is None:
                continue
            iparams = set(H.all_params(init)[1:])
            stores: dict[str, list] = {}
            for attr, st, val in H.self_attr_stores(init):
                stores.setdefault(attr, []).append((st, val))
            state = []
            for attr, lst in sorted(stores.items()):
                free = all(any(st is s_ for s_ in init.body) and val is not None and not isinstance(st, ast.AugAssign)
                           and not any(isinstance(x, ast.Name) and x.id in iparams for x in H4.closure_nodes(init, val)) for st, val in lst)
                if free:
                    state.append(attr)
            # slots filled on first use: attribute -> the methods that do it
            fillers: dict[str, set[str]] = {}
            own_memo: set[str] = set()
            for mname, fn in meths.items():
                if mname == "__init__":
                    continue
                for attr, st, _v in H.self_attr_stores(fn):
                    me = H.params_of(fn)[0]
                    for p in m.parents(st):
                        if p is fn:
                            break
                        if isinstance(p, ast.If) and any(isinstance(c, ast.Compare) and len(c.ops) == 1 and isinstance(c.ops[0], ast.Is) and norm(c.left) == "%s.%s" % (me, attr)
                                                         and isinstance(c.comparators[0], ast.Constant) and c.comparators[0].value is None for c in ast.walk(p.test)):
                            fillers.setdefault(attr, set()).add(mname)
                            # filled from the instance's own content (a memo, e.g. of its hash): not the execution's, a copy with other content must not inherit it
                            if any(isinstance(x, ast.Name) and x.id == me and not (isinstance(m.parent.get(id(x)), ast.Attribute) and m.parent[id(x)].attr == attr)  # type: ignore[union-attr]
                                   for s_ in p.body for x in ast.walk(s_)):
                                own_memo.add(attr)
            for mname, fn in meths.items():
                if mname == "__init__" or not H.params_of(fn):
                    continue
                me = H.params_of(fn)[0]

                def makes_own(e: ast.AST) -> bool:
                    return isinstance(e, ast.Call) and (norm(e.func) == cname or norm(e.func) in ("type(%s)" % me, "%s.__class__" % me))

                direct = [r for r in own_nodes(fn) if isinstance(r, ast.Return) and r.value is not None and makes_own(r.value)]
                named = {}
                for r in own_nodes(fn):
                    if isinstance(r, ast.Return) and isinstance(r.value, ast.Name):
                        if any(makes_own(v) for v in H4.local_defs(fn, r.value.id)):
                            named[r.value.id] = r
                if not direct and not named:
                    continue
                if not [a for a in state if a not in own_memo]:
                    continue
                n_copy += 1
                rep.analysed("%s:%s.%s" % (m.rel, cname, mname))
                for attr in state:
                    if attr in own_memo:
                        continue
                    if direct:
                        rep.ob(RULE, m, "%s.%s" % (cname, mname), direct[0], False,
                               "the new %s is returned as constructed: its .%s is the constructor's placeholder, not the one of the execution" % (cname, attr), node=direct[0])
                        continue
                    for rname, ret in sorted(named.items()):
                        sets = [n for n in own_nodes(fn) if isinstance(n, (ast.Assign, ast.AnnAssign)) and n.value is not None
                                and any(isinstance(t, ast.Attribute) and t.attr == attr and isinstance(t.value, ast.Name) and t.value.id == rname
                                        for t in (n.targets if isinstance(n, ast.Assign) else [n.target]))]
                        from_self = [n for n in sets if any(isinstance(x, ast.Name) and x.id == me for x in H4.closure_nodes(fn, n.value))]
                        why = None
                        if not from_self:
                            why = ("the new %s keeps the placeholder __init__ gives .%s (nothing of `%s` is assigned to it): the state of the execution is not handed over, each derived "
                                   "context computes its own" % (cname, attr, me))
                        elif attr in fillers:
                            forced = [n for n in from_self if any(isinstance(x, ast.Attribute) and x.attr in fillers[attr] and isinstance(x.value, ast.Name) and x.value.id == me
                                                                  for x in H4.closure_nodes(fn, n.value))]
                            if not forced:
                                why = ("the slot .%s is copied as it is, possibly still empty (it is filled on first use by %s): each derived context then fills it by itself"
                                       % (attr, "/".join(sorted(fillers[attr]))))
                        rep.ob(RULE, m, "%s.%s" % (cname, mname), "%s.%s is handed over to the new %s" % (me, attr, cname), why is None,
                               "assigned from %s" % me if why is None else why + " - NOW() differs between the solutions of one evaluation", node=(from_self or sets or [ret])[0])
    if n_copy == 0:
        raise AnalysisError("anchor vanished: no class of the SPARQL package derives a new instance of itself (QueryContext.clone)")


_run_base3 = run


def run(repo: Repo, rep: Report) -> None:  # noqa: F811
    _layer(rep, _run_base3, repo)
    rep.extra["explanation"] = rep.extra.get("explanation", "") + (
        " (m) what a prologue keeps from the declarations of the request (base, namespaces) has passed through Prologue.absolutize of that prologue; "
        "(n) no Forward() element of the SPARQL grammar can end with itself (a list written as a right recursion); "
        "(o) a context derived from another one (QueryContext.clone) is assigned every parameter-independent attribute of __init__ from the original, lazily filled slots through their filler."
    )
    _layer(rep, rule_m, repo)
    _layer(rep, rule_n, repo)
    _layer(rep, rule_o, repo)


_run_before_borrow = run


def run(repo: Repo, rep: Report) -> None:  # noqa: F811
    _layer(rep, _run_before_borrow, repo)
    from vlib.core import borrow

    borrow(repo, rep, "C15", "C18", ('C18.g', 'C18.j'))
    borrow(repo, rep, "C15", "C11", ('C11.c2',))
    borrow(repo, rep, "C15", "C01", ('C01.a', 'C01.b'))
    borrow(repo, rep, "C15", "C02", ('C02.a',))
