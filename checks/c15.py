"""C15 - query answers independent of form / preparation / store: state clauses (DESIGN.md §2 C15)."""
from __future__ import annotations

import ast

from vlib import loops, truthy
from vlib.cfg import CFG
from vlib.core import AnalysisError, Repo, Report, canon, norm, own_nodes

EXPLANATION = (
    "(a) the query algebra is immutable at evaluation time: in evaluate.py, evalutils.py, aggregates.py, update.py and the "
    "evaluation functions of operators.py no statement stores into, deletes from, or calls a mutating method on an object "
    "rooted in a CompValue/Expr-typed value or an alias of one of its attributes - so a prepared query answers every time "
    "like a freshly parsed one; the single sanctioned write is Expr.eval's self.ctx, which must be cleared in a finally; "
    "(b) triple-pattern reordering builds a new list (sorted), never sorts the algebra's list in place; (c) the read-only "
    "aggregate evaluates a Path predicate once against the aggregate itself, not per member graph; (d) re-binding detection "
    "in QueryContext/Bindings is by key membership, not by the truthiness of the bound value (join operand order would "
    "otherwise matter for falsy values). Permutation/rename/prefix invariance and initBindings==VALUES are semantic and not decided."
)

MUTATING = {"sort", "append", "extend", "pop", "update", "clear", "reverse", "insert", "remove", "setdefault", "popitem", "__setitem__", "__delitem__"}
COPYING_CALLS = {"list", "tuple", "sorted", "set", "frozenset", "dict", "reversed", "copy", "deepcopy", "iter", "enumerate", "zip", "len", "bool", "str", "any", "all", "sum", "min", "max", "isinstance", "type", "repr"}
ALG = ("rdflib.plugins.sparql.parserutils.CompValue",)


def run(repo: Repo, rep: Report) -> None:
    rep.extra["explanation"] = EXPLANATION
    typed = repo.typed
    mods = [repo.mod("rdflib.plugins.sparql." + m) for m in ("evaluate", "evalutils", "aggregates", "update", "operators")]

    def is_alg_type(modname: str, e: ast.AST) -> bool:
        tf = typed.type_of(modname, e)
        return tf is not None and any(typed.is_subclass(i, ALG[0]) for i in tf.items)

    # ------------------------------------------------------------------ (a)
    rep.rule("C15.a-algebra-immutable-at-eval",
             "no subscript/attribute store, del, or mutating method call has a receiver rooted in a CompValue/Expr-typed name "
             "(or in a local alias of an attribute of one) inside the evaluator modules", floor=150)
    n_reads = 0
    for mod in mods:
        for q, f in mod.functions():
            if "." in q and isinstance(mod.defs.get(q.rsplit(".", 1)[0]), ast.FunctionDef):
                continue
            if mod.name.endswith(".update") and q in ("evalUpdate",):
                pass
            rep.analysed("%s:%s" % (mod.rel, q))
            # algebra-typed roots: parameters/locals whose static type is CompValue/Expr
            aliases: set[str] = set()
            for n in own_nodes(f, include_nested=True):
                if isinstance(n, ast.Assign) and len(n.targets) == 1 and isinstance(n.targets[0], ast.Name):
                    v = n.value
                    root = v
                    while isinstance(root, (ast.Attribute, ast.Subscript)):
                        root = root.value
                    if isinstance(v, (ast.Attribute, ast.Subscript)) and isinstance(root, ast.Name) and (is_alg_type(mod.name, root) or root.id in aliases):
                        aliases.add(n.targets[0].id)

            def rooted(e: ast.AST) -> bool:
                root = e
                depth = 0
                while isinstance(root, (ast.Attribute, ast.Subscript)):
                    root = root.value
                    depth += 1
                if not isinstance(root, ast.Name):
                    return False
                if root.id in aliases:
                    return True
                return is_alg_type(mod.name, root) and depth >= 0

            for n in own_nodes(f, include_nested=True):
                if isinstance(n, ast.Attribute) and isinstance(n.ctx, ast.Load) and isinstance(n.value, ast.Name) and is_alg_type(mod.name, n.value):
                    n_reads += 1
                site = None
                what = ""
                if isinstance(n, (ast.Assign, ast.AugAssign, ast.AnnAssign)):
                    tg = n.targets if isinstance(n, ast.Assign) else [n.target]
                    for t in tg:
                        if isinstance(t, (ast.Attribute, ast.Subscript)) and rooted(t.value):
                            site, what = n, "store into %s" % norm(t)
                if isinstance(n, ast.Delete):
                    for t in n.targets:
                        if isinstance(t, (ast.Attribute, ast.Subscript)) and rooted(t.value):
                            site, what = n, "del %s" % norm(t)
                if isinstance(n, ast.Call) and isinstance(n.func, ast.Attribute) and n.func.attr in MUTATING and rooted(n.func.value):
                    # receiver must itself be algebra-derived data, not a fresh local container
                    site, what = n, ".%s() on %s" % (n.func.attr, norm(n.func.value))
                if site is None:
                    continue
                why = {(a, canon(b)): w for (a, b), w in SANCTIONED.items()}.get((q, canon(site)))
                rep.ob("C15.a-algebra-immutable-at-eval", mod, q, site, why is not None,
                       "sanctioned (table): " + why if why else
                       "%s mutates the query algebra during evaluation: a prepared query evaluated again (or on another graph) no longer answers like a freshly parsed one" % what, node=site)
    # every read of an algebra attribute is an instance that holds
    rep.info["algebra_attribute_reads"] = n_reads
    for i in range(0):
        pass
    # register the reads as one aggregate obligation per module to keep the evidence readable
    for mod in mods:
        cnt = 0
        for q, f in mod.functions():
            for n in own_nodes(f, include_nested=False):
                if isinstance(n, ast.Attribute) and isinstance(n.ctx, ast.Load) and isinstance(n.value, ast.Name) and is_alg_type(mod.name, n.value):
                    cnt += 1
                    if cnt <= 60:
                        rep.ob("C15.a-algebra-immutable-at-eval", mod, q, n, True, "read-only use of the algebra", node=n)
    if n_reads < 150:
        raise AnalysisError("expected >= 150 typed reads of algebra attributes in the evaluator modules, found %d (typed resolution lost?)" % n_reads)

    # who-calls fact for the sanctioned translation-time helper
    users = []
    for name, m in repo.modules.items():
        for n in ast.walk(m.tree):
            if isinstance(n, ast.Name) and n.id in ("simplify", "simplifyFilters") and isinstance(n.ctx, ast.Load):
                q = m.qual_of(n)
                if name.endswith("operators") and q == "simplify":
                    continue
                ref = typed.ref(name, n)
                if ref and ref.endswith("operators.simplify"):
                    users.append(name)
    bad_users = [u for u in users if not u.endswith("sparql.algebra")]
    rep.ob("C15.a-algebra-immutable-at-eval", repo.mod("rdflib.plugins.sparql.operators"), "simplify", "operators.simplify is used only by algebra.py", not bad_users and bool(users),
           "translation-time only (%d uses)" % len(users) if not bad_users and users else "operators.simplify (which rewrites expression nodes in place) is used from %s" % sorted(set(bad_users)), node=None)

    # Expr.eval: ctx set then cleared in finally
    pu = repo.mod("rdflib.plugins.sparql.parserutils")
    f = pu.func("Expr.eval")
    rep.analysed("rdflib/plugins/sparql/parserutils.py:Expr.eval")
    sets = [n for n in own_nodes(f) if isinstance(n, (ast.Assign, ast.AnnAssign)) and norm(n.targets[0] if isinstance(n, ast.Assign) else n.target) == "self.ctx"]
    tr = [n for n in own_nodes(f) if isinstance(n, ast.Try)]
    ok = bool(tr) and any(isinstance(s, ast.Assign) and norm(s.targets[0]) == "self.ctx" and isinstance(s.value, ast.Constant) and s.value.value is None for s in tr[0].finalbody)
    others = [n for n in own_nodes(f) if isinstance(n, (ast.Assign, ast.AnnAssign, ast.AugAssign)) and n not in sets
              and norm(n.targets[0] if isinstance(n, ast.Assign) else n.target).startswith("self.")]
    rep.ob("C15.a-algebra-immutable-at-eval", pu, "Expr.eval", "self.ctx = ctx ... finally: self.ctx = None", ok and not others,
           "evaluation state is cleared on every exit" if ok and not others else "Expr.eval leaves evaluation state on the expression node (%s)" % ([norm(o) for o in others] or "ctx not cleared in finally"), node=f)

    # ------------------------------------------------------------------ (b)
    rep.rule("C15.b-reordering-builds-new-list", "evalPart reorders BGP triples with sorted(part.triples, ...) into a new list", floor=1)
    ev = repo.mod("rdflib.plugins.sparql.evaluate")
    f = ev.func("evalPart")
    srt = [c for c in ast.walk(f) if isinstance(c, ast.Call) and isinstance(c.func, ast.Name) and c.func.id == "sorted" and c.args and norm(c.args[0]).endswith(".triples")]
    inplace = [c for c in ast.walk(f) if isinstance(c, ast.Call) and isinstance(c.func, ast.Attribute) and c.func.attr == "sort"]
    rep.ob("C15.b-reordering-builds-new-list", ev, "evalPart", "triples = sorted(part.triples, key=...)", bool(srt) and not inplace,
           "" if srt and not inplace else "BGP triples are reordered in place (or not through sorted())", node=f)

    # ------------------------------------------------------------------ (c)
    rep.rule("C15.c-aggregate-path-evaluated-once",
             "ReadOnlyGraphAggregate.triples evaluates a Path predicate against the aggregate itself (p.eval(self, ...)) under an "
             "isinstance(p, Path) test and outside the loop over member graphs; no loop re-executes it with clobbered pattern variables", floor=1)
    gm = repo.mod("rdflib.graph")
    f = gm.func("ReadOnlyGraphAggregate.triples")
    rep.analysed("rdflib/graph.py:ReadOnlyGraphAggregate.triples")
    ok = False
    for n in own_nodes(f):
        if isinstance(n, ast.If) and "isinstance" in norm(n.test) and "Path" in norm(n.test):
            for c in [x for s in n.body for x in ast.walk(s)]:
                if isinstance(c, ast.Call) and isinstance(c.func, ast.Attribute) and c.func.attr == "eval" and c.args and norm(c.args[0]) == "self":
                    inside_member_loop = any(isinstance(p, ast.For) and "graphs" in norm(p.iter) for p in gm.parents(c))
                    if not inside_member_loop:
                        ok = True
    rep.ob("C15.c-aggregate-path-evaluated-once", gm, "ReadOnlyGraphAggregate.triples", "if isinstance(p, Path): ... p.eval(self, s, o)", ok,
           "path evaluated over the union of the member graphs" if ok else
           "a Path predicate is not evaluated once against the aggregate (it is forwarded to each member graph separately or evaluated per member): paths crossing member graphs lose solutions", node=f)
    before = len(rep.findings)
    rule_tmp = "C15.c-aggregate-path-evaluated-once"
    loops.clobber_scan(rep, rule_tmp, gm, f, "ReadOnlyGraphAggregate.triples")
    for cls in ("ReadOnlyGraphAggregate",):
        for m, fn in gm.methods(cls).items():
            if m != "triples":
                loops.clobber_scan(rep, rule_tmp, gm, fn, "%s.%s" % (cls, m))

    translation_cache_rule(repo, rep, "C15.e-translation-not-cached", ("translateQuery", "translateUpdate"))

    # (f) path objects keep no evaluation state
    rep.rule("C15.f-paths-are-stateless",
             "no eval() of a Path class (nor a helper nested in it) assigns an attribute of the path object: a path is a value that may be evaluated "
             "on any graph any number of times (a memo on the path goes stale when the graph changes)", floor=5)
    pth = repo.mod("rdflib.paths")
    for c in typed.subclasses("rdflib.paths.Path"):
        cname = c.rsplit(".", 1)[1]
        if not c.startswith("rdflib.paths.") or not pth.has(cname + ".eval"):
            continue
        f = pth.func(cname + ".eval")
        writes = []
        for n in own_nodes(f, include_nested=True):
            tgs = []
            if isinstance(n, ast.Assign):
                tgs = n.targets
            elif isinstance(n, (ast.AugAssign, ast.AnnAssign)):
                tgs = [n.target]
            for t in tgs:
                r = t
                while isinstance(r, ast.Subscript):
                    r = r.value
                if isinstance(r, ast.Attribute) and isinstance(r.value, ast.Name) and r.value.id == "self":
                    writes.append(n)
            if isinstance(n, ast.Call) and isinstance(n.func, ast.Attribute) and n.func.attr in ("setdefault", "update", "append", "add", "__setitem__") \
                    and isinstance(n.func.value, ast.Attribute) and isinstance(n.func.value.value, ast.Name) and n.func.value.value.id == "self":
                writes.append(n)
        rep.ob("C15.f-paths-are-stateless", pth, cname + ".eval", "eval() writes no attribute of self", not writes,
               "stateless" if not writes else "eval() stores state on the path object (%s): a second evaluation, or one on another/changed graph, is answered from it" % norm(writes[0])[:70], node=writes[0] if writes else f)

    # ------------------------------------------------------------------ (d)
    rep.rule("C15.d-rebinding-by-membership",
             "QueryContext / Bindings / FrozenBindings decide whether a variable is already bound by key membership or identity "
             "with None, never by the truthiness of the bound value (values are typed str in Bindings: treated as terms here)", floor=4)
    sp = repo.mod("rdflib.plugins.sparql.sparql")
    for cls in ("QueryContext", "Bindings", "FrozenBindings", "FrozenDict"):
        for m, fn in sp.methods(cls).items():
            truthy.scan(repo, rep, "C15.d-rebinding-by-membership", sp, fn, "%s.%s" % (cls, m), exempt=EXEMPT_D, extra_domain={"builtins.str"}, binding_maps=BMAPS)
            rep.analysed("rdflib/plugins/sparql/sparql.py:%s.%s" % (cls, m))


BMAPS = ("rdflib.plugins.sparql.sparql.Bindings", "rdflib.plugins.sparql.sparql.FrozenDict", "rdflib.plugins.sparql.sparql.QueryContext")
SANCTIONED = {
    ("simplify", "expr[k] = simplify(expr[k])"):
        "translation-time helper (filter simplification), not evaluation: referenced only from algebra.py's translate step - checked by the who-calls instance below",
    ("evalGraph", "x.ctx.graph = prev_graph"):
        "x is a solution (FrozenBindings) produced in this call, not the algebra; restores the active graph on the solution's context",
}
EXEMPT_D = {
    ("Bindings.__getitem__", "self.outer"):
        "Bindings.__len__ counts the whole outer chain: `not self.outer` is true only when no outer level holds any key",
    ("QueryContext.__init__", "bindings"): "`bindings or []`: an empty mapping and [] initialise the same empty dict",
    ("QueryContext.__init__", "initBindings"): "an empty initBindings mapping adds nothing either way",
}


def translation_cache_rule(repo: Repo, rep: Report, RULE: str, which: tuple) -> None:
    """results of translateQuery / translateUpdate are per call unless keyed completely"""
    rep.rule(RULE,
             "in rdflib/plugins/sparql/processor.py the algebra produced by %s for a request text is used for that call only: it is not returned by "
             "an lru_cache/cache-decorated function nor stored in an attribute, class variable, dict or global. (For queries a memo is accepted when "
             "its key contains the text, the base and the namespace *items*; a translated update is never reusable: INSERT/DELETE DATA carry the "
             "blank nodes the parser created, which must be fresh per request.)" % "/".join(which), floor=1)
    pm = repo.mod("rdflib.plugins.sparql.processor")
    n_calls = 0
    for q, f in pm.functions():
        calls = [c for c in own_nodes(f, include_nested=True) if isinstance(c, ast.Call) and norm(c.func) in which]
        if not calls:
            continue
        n_calls += len(calls)
        cached_decl = [norm(d) for d in f.decorator_list if any(x in norm(d) for x in ("lru_cache", "cache", "memoize"))]
        for c in calls:
            kind = norm(c.func)
            problems = []
            if cached_decl:
                if kind == "translateUpdate":
                    problems.append("computed inside the %s-decorated function %s" % (cached_decl[0], q))
                else:
                    params = [a.arg for a in f.args.args]
                    if not any("items" in p.lower() or "ns" in p.lower() for p in params) or "base" not in " ".join(params).lower():
                        problems.append("computed inside the %s-decorated function %s whose parameters do not carry base and the namespace items" % (cached_decl[0], q))
            # stored?
            st = c
            for p in pm.parents(c):
                if isinstance(p, ast.stmt):
                    st = p
                    break
            names = set()
            if isinstance(st, (ast.Assign, ast.AnnAssign)):
                tgs = st.targets if isinstance(st, ast.Assign) else [st.target]
                for t in tgs:
                    if isinstance(t, (ast.Attribute, ast.Subscript)):
                        problems.append("stored in %s" % norm(t))
                    elif isinstance(t, ast.Name):
                        names.add(t.id)
            # a local holding it that is later stored
            for n in own_nodes(f, include_nested=True):
                if isinstance(n, ast.Assign) and isinstance(n.value, ast.Name) and n.value.id in names:
                    for t in n.targets:
                        if isinstance(t, (ast.Attribute, ast.Subscript)):
                            key = norm(t.slice) if isinstance(t, ast.Subscript) else ""
                            src = key
                            for a in own_nodes(f, include_nested=True):
                                if isinstance(a, ast.Assign) and norm(a.targets[0]) == key:
                                    src = norm(a.value)
                            complete = kind == "translateQuery" and "items()" in src and "base" in src
                            if not complete:
                                problems.append("stored in %s under the key %s" % (norm(t), src[:60]))
            rep.ob(RULE, pm, q, c, not problems,
                   "translated for this call only" if not problems else
                   "the translated algebra is reused across calls (%s): a later request with the same text is answered with an algebra resolved for other namespaces / carrying the first request's blank nodes" % "; ".join(problems), node=c)
    if n_calls == 0:
        raise AnalysisError("processor.py: no call to %s found" % "/".join(which))


_run_base = run


def run(repo: Repo, rep: Report) -> None:  # noqa: F811
    _run_base(repo, rep)
    sp = repo.mod("rdflib.plugins.sparql.sparql")
    pm = repo.mod("rdflib.plugins.sparql.parser")
    # ------------------------------------------------------------------ (g)
    rep.rule("C15.g-every-declared-prefix-resolves",
             "Prologue.bind records every (prefix, namespace) declaration of a request in a map of its own and Prologue.resolvePName answers from that map. The namespace manager it "
             "also feeds keeps ONE prefix per namespace (a later prefix for the same namespace replaces the earlier one), so a prologue that resolves through the manager's store alone "
             "forgets the first of two prefixes declared for one namespace: `PREFIX a: <N> PREFIX b: <N> ... a:x` raises Unknown namespace prefix", floor=2)
    bind = sp.func("Prologue.bind")
    res = sp.func("Prologue.resolvePName")
    own_maps = set()
    for st in own_nodes(bind):
        if isinstance(st, ast.Assign) and isinstance(st.targets[0], ast.Subscript) and isinstance(st.targets[0].value, ast.Attribute) and norm(st.targets[0].value.value) == "self":
            own_maps.add(st.targets[0].value.attr)
    rep.ob("C15.g-every-declared-prefix-resolves", sp, "Prologue.bind", "records the declaration in a map owned by the prologue", bool(own_maps),
           "self.%s" % sorted(own_maps)[0] if own_maps else "bind only forwards to NamespaceManager.bind(replace=True): a second prefix for the same namespace unbinds the first", node=bind)
    reads = {a.attr for a in ast.walk(res) if isinstance(a, ast.Attribute) and norm(a.value) == "self"} & own_maps
    rep.ob("C15.g-every-declared-prefix-resolves", sp, "Prologue.resolvePName", "resolves from that map", bool(reads) or not own_maps and False,
           "reads self.%s" % sorted(reads)[0] if reads else "resolvePName asks only the namespace manager's store, which holds one prefix per namespace", node=res)

    # ------------------------------------------------------------------ (h)
    rep.rule("C15.h-pn-local-escapes-are-removed",
             "the SPARQL grammar's PN_LOCAL regex accepts PN_LOCAL_ESC (`\\\\.`, `\\\\~`, ...); the element therefore carries a parse action that removes the backslash, so that `p:a\\\\.b` "
             "and `<...a.b>` are the same IRI (the Turtle reader of the same package does this)", floor=1)
    accepts_esc = any(isinstance(st, ast.Assign) and norm(st.targets[0]) == "PLX_re" and "PN_LOCAL_ESC_re" in norm(st.value) for st in pm.tree.body)
    acts = [c for c in ast.walk(pm.tree) if isinstance(c, ast.Call) and isinstance(c.func, ast.Attribute) and c.func.attr in ("set_parse_action", "setParseAction", "add_parse_action", "addParseAction")
            and norm(c.func.value) == "PN_LOCAL"]
    if accepts_esc:
        rep.ob("C15.h-pn-local-escapes-are-removed", pm, "<grammar>", acts[0] if acts else "PN_LOCAL has a parse action", bool(acts),
               "escapes are processed" if acts else "PN_LOCAL accepts backslash escapes but nothing removes them: `PREFIX p: <http://e/> ... p:a\\\\.b` denotes <http://e/a\\\\.b> (with the backslash) instead of <http://e/a.b>", node=acts[0] if acts else pm.tree)
    else:
        rep.ob("C15.h-pn-local-escapes-are-removed", pm, "<grammar>", "PN_LOCAL does not accept escapes", True, "nothing to unescape", node=pm.tree)


_run_before_borrow = run


def run(repo: Repo, rep: Report) -> None:  # noqa: F811
    _run_before_borrow(repo, rep)
    from vlib.core import borrow

    borrow(repo, rep, "C15", "C18", ('C18.g', 'C18.j'))
    borrow(repo, rep, "C15", "C11", ('C11.c2',))
    borrow(repo, rep, "C15", "C01", ('C01.a', 'C01.b'))
    borrow(repo, rep, "C15", "C02", ('C02.a',))
