"""C16 - SPARQL result exchange formats: writer/reader table agreement (DESIGN.md §2 C16)."""
from __future__ import annotations

import ast

from vlib import truthy
from vlib.core import AnalysisError, Repo, Report, norm, own_nodes

EXPLANATION = (
    "(a) JSON: for every term class, the 'type' tag and the keys termToJSON writes are read back by parseJsonTerm into "
    "the same class with the same keys; (b) XML: the element names SPARQLXMLWriter.write_binding writes per term class "
    "are the tags parseTerm dispatches on, to the same class, and the literal attributes written (xml:lang, datatype) "
    "are the ones read; (c) in the JSON/XML/CSV/TSV/TXT writers an unbound cell is tested by identity, never by the "
    "truthiness of the term; (d) a term handed to the SAX writer's characters() (which skips falsy content) is passed "
    "as str(...); (e) the exchange-format writers enumerate rows through Result.bindings (which keeps rows in which "
    "nothing is bound), not by iterating the Result; (f) the line-oriented readers never split records with "
    "str.splitlines(), which also splits on characters that are legal inside literals. TSV grammar, CSV quoting and "
    "control characters are value-level and not decided."
)

TERM_CLASSES = ("URIRef", "BNode", "Literal")


def _isinstance_arms(fn: ast.AST, var: str):
    """yield (class name, body) for `if isinstance(var, Cls)` chains"""
    for n in ast.walk(fn):
        if isinstance(n, ast.If) and isinstance(n.test, ast.Call) and norm(n.test.func) == "isinstance" and len(n.test.args) == 2 and norm(n.test.args[0]) == var:
            yield norm(n.test.args[1]), n.body


def run(repo: Repo, rep: Report) -> None:
    rep.extra["explanation"] = EXPLANATION
    js = repo.mod("rdflib.plugins.sparql.results.jsonresults")
    xm = repo.mod("rdflib.plugins.sparql.results.xmlresults")
    typed = repo.typed

    # ------------------------------------------------------------------ (a)
    rep.rule("C16.a-json-tags-agree", "each term class's JSON 'type' tag and keys written by termToJSON are read back by parseJsonTerm into that class", floor=5)
    tw = js.func("termToJSON")
    tr = js.func("parseJsonTerm")
    rep.analysed("rdflib/plugins/sparql/results/jsonresults.py:termToJSON", "rdflib/plugins/sparql/results/jsonresults.py:parseJsonTerm")
    tv = tw.args.args[1].arg
    written = {}
    for cls, body in _isinstance_arms(tw, tv):
        tag = None
        keys = set()
        for n in [x for s in body for x in ast.walk(s)]:
            if isinstance(n, ast.Dict):
                for k, v in zip(n.keys, n.values):
                    if isinstance(k, ast.Constant):
                        keys.add(k.value)
                        if k.value == "type" and isinstance(v, ast.Constant):
                            tag = v.value
            if isinstance(n, ast.Assign) and isinstance(n.targets[0], ast.Subscript) and isinstance(n.targets[0].slice, ast.Constant):
                keys.add(n.targets[0].slice.value)
        written[cls] = (tag, keys)
    if set(written) != set(TERM_CLASSES):
        raise AnalysisError("termToJSON: expected arms for %s, found %s" % (TERM_CLASSES, sorted(written)))
    dv = tr.args.args[0].arg
    tvar = None
    for n in own_nodes(tr):
        if isinstance(n, ast.Assign) and norm(n.value) == "%s['type']" % dv:
            tvar = norm(n.targets[0])
    read = {}
    for n in ast.walk(tr):
        if isinstance(n, ast.If) and isinstance(n.test, ast.Compare) and norm(n.test.left) in (tvar, "%s['type']" % dv) and isinstance(n.test.comparators[0], ast.Constant):
            tag = n.test.comparators[0].value
            cls = None
            keys = set()
            for x in [y for s in n.body for y in ast.walk(s)]:
                if isinstance(x, ast.Return) and isinstance(x.value, ast.Call):
                    cls = norm(x.value.func)
                if isinstance(x, ast.Subscript) and norm(x.value) == dv and isinstance(x.slice, ast.Constant):
                    keys.add(x.slice.value)
                if isinstance(x, ast.Call) and norm(x.func) == dv + ".get" and x.args and isinstance(x.args[0], ast.Constant):
                    keys.add(x.args[0].value)
            read[tag] = (cls, keys)
    for cls, (tag, keys) in sorted(written.items()):
        rc, rk = read.get(tag, (None, set()))
        ok = rc == cls and (keys - {"type"}) <= rk
        rep.ob("C16.a-json-tags-agree", js, "termToJSON/parseJsonTerm", "%s <-> type %r keys %s" % (cls, tag, sorted(keys - {"type"})), ok,
               "read back as %s with keys %s" % (rc, sorted(rk)) if ok else "written as type %r with keys %s but read as %s with keys %s" % (tag, sorted(keys), rc, sorted(rk)), node=tw)
    # None -> None (unbound) by identity
    none_arm = any(isinstance(n, ast.If) and isinstance(n.test, ast.Compare) and isinstance(n.test.ops[0], ast.Is) and norm(n.test.left) == tv for n in ast.walk(tw))
    rep.ob("C16.a-json-tags-agree", js, "termToJSON", "%s is None -> None" % tv, none_arm, "" if none_arm else "termToJSON no longer maps exactly None to 'unbound'", node=tw)
    bj = js.func("JSONResultSerializer._bindingToJSON")
    skips = [n for n in ast.walk(bj) if isinstance(n, (ast.If, ast.comprehension))]
    ok = True
    why = ""
    for n in skips:
        tests = [n.test] if isinstance(n, ast.If) else n.ifs
        for t in tests:
            if not (isinstance(t, ast.Compare) and isinstance(t.ops[0], ast.IsNot) and isinstance(t.comparators[0], ast.Constant) and t.comparators[0].value is None):
                ok = False
                why = "cell skipped under `%s`" % norm(t)
    rep.ob("C16.a-json-tags-agree", js, "JSONResultSerializer._bindingToJSON", "a cell is omitted only when it `is None`", ok,
           "" if ok else why + ": a bound but falsy term (Literal(0), Literal('')) is written as unbound", node=bj)

    # ------------------------------------------------------------------ (b)
    rep.rule("C16.b-xml-tags-agree", "element and attribute names written per term class by write_binding are those parseTerm reads, into the same class", floor=4)
    wb = xm.func("SPARQLXMLWriter.write_binding")
    pt = xm.func("parseTerm")
    rep.analysed("rdflib/plugins/sparql/results/xmlresults.py:SPARQLXMLWriter.write_binding", "rdflib/plugins/sparql/results/xmlresults.py:parseTerm")
    vv = wb.args.args[2].arg
    wx = {}
    wattrs = set()
    for cls, body in _isinstance_arms(wb, vv):
        attr_dicts = {norm(c.args[0]) for s in body for c in ast.walk(s) if isinstance(c, ast.Call) and norm(c.func).endswith("AttributesNSImpl") and c.args and isinstance(c.args[0], ast.Name)}
        for n in [x for s in body for x in ast.walk(s)]:
            if isinstance(n, ast.Call) and isinstance(n.func, ast.Attribute) and n.func.attr == "startElementNS" and n.args and isinstance(n.args[0], ast.Tuple):
                wx[cls] = n.args[0].elts[1].value if isinstance(n.args[0].elts[1], ast.Constant) else None
            if cls == "Literal" and isinstance(n, ast.Assign) and isinstance(n.targets[0], ast.Subscript) and norm(n.targets[0].value) in attr_dicts and isinstance(n.targets[0].slice, ast.Tuple):
                wattrs.add((norm(n.targets[0].slice.elts[0]), n.targets[0].slice.elts[1].value))
    rx = {}
    rattrs = set()
    elem = pt.args.args[0].arg
    tagvars = {elem + ".tag"}
    for n in own_nodes(pt):
        if isinstance(n, ast.Assign):
            tg, vals = n.targets[0], n.value
            if isinstance(tg, ast.Tuple) and isinstance(vals, ast.Tuple):
                for t_, v_ in zip(tg.elts, vals.elts):
                    if norm(v_) == elem + ".tag":
                        tagvars.add(norm(t_))
            elif norm(vals) == elem + ".tag":
                tagvars.add(norm(tg))
    for n in ast.walk(pt):
        if isinstance(n, ast.If) and isinstance(n.test, ast.Compare) and norm(n.test.left) in tagvars and isinstance(n.test.comparators[0], ast.BinOp):
            c = n.test.comparators[0]
            local = c.right.value if isinstance(c.right, ast.Constant) else None
            cls = None
            for x in [y for s in n.body for y in ast.walk(s)]:
                if isinstance(x, ast.Return):
                    if isinstance(x.value, ast.Call):
                        cls = norm(x.value.func)
                    elif isinstance(x.value, ast.Name):
                        for a in [y for s in n.body for y in ast.walk(s)]:
                            if isinstance(a, ast.Assign) and norm(a.targets[0]) == x.value.id and isinstance(a.value, ast.Call):
                                cls = norm(a.value.func)
                if isinstance(x, ast.Call) and norm(x.func) == elem + ".get" and x.args:
                    a0 = x.args[0]
                    if isinstance(a0, ast.Constant):
                        rattrs.add(("None", a0.value))
                    elif isinstance(a0, ast.BinOp) and isinstance(a0.left, ast.Constant) and "lang" in a0.left.value:
                        rattrs.add((norm(a0.right), "lang"))
            rx[local] = cls
    if set(wx) != set(TERM_CLASSES):
        raise AnalysisError("write_binding: expected arms for %s, found %s" % (TERM_CLASSES, sorted(wx)))
    for cls, local in sorted(wx.items()):
        ok = rx.get(local) == cls
        rep.ob("C16.b-xml-tags-agree", xm, "write_binding/parseTerm", "%s <-> <%s>" % (cls, local), ok,
               "read back as %s" % cls if ok else "written as <%s> but that element is read as %s" % (local, rx.get(local)), node=wb)
    ok = bool(wattrs) and wattrs <= rattrs
    rep.ob("C16.b-xml-tags-agree", xm, "write_binding/parseTerm", "literal attributes %s" % sorted(wattrs), ok,
           "all read by parseTerm" if ok else "attributes written %s, read %s" % (sorted(wattrs), sorted(rattrs)), node=wb)

    # ------------------------------------------------------------------ (c)
    rep.rule("C16.c-unbound-by-identity", "in the result writers/readers a cell's None-ness is decided by identity, not by the truthiness of a term", floor=2)
    for name in ("jsonresults", "xmlresults", "csvresults", "tsvresults", "txtresults"):
        mod = repo.mod("rdflib.plugins.sparql.results." + name)
        for q, f in mod.functions():
            if "." in q and isinstance(mod.defs.get(q.rsplit(".", 1)[0]), ast.FunctionDef):
                continue
            truthy.scan(repo, rep, "C16.c-unbound-by-identity", mod, f, q, exempt=EXEMPT)
            rep.analysed("%s:%s" % (mod.rel, q))
    qm = repo.mod("rdflib.query")
    for q in ("ResultRow.__new__", "ResultRow.__getitem__", "ResultRow.get", "ResultRow.asdict", "Result.__eq__"):
        if qm.has(q):
            truthy.scan(repo, rep, "C16.c-unbound-by-identity", qm, qm.func(q), q, exempt=EXEMPT)

    more_rules(repo, rep)

    # ------------------------------------------------------------------ (d)
    rep.rule("C16.d-sax-characters-get-str",
             "xml.sax XMLGenerator.characters(content) ignores falsy content: every argument passed to <writer>.characters() that may be "
             "a Literal (falsy for 0/''/false) is wrapped in str(...)", floor=3)
    for q, f in xm.functions():
        for c in own_nodes(f):
            if isinstance(c, ast.Call) and isinstance(c.func, ast.Attribute) and c.func.attr == "characters" and c.args:
                a = c.args[0]
                tf = typed.type_of(xm.name, a)
                may_lit = tf is not None and bool(truthy.domain_hits(repo, tf))
                wrapped = isinstance(a, ast.Call) and norm(a.func) == "str"
                # which isinstance arm are we in?
                arm = None
                for p in xm.parents(c):
                    if isinstance(p, ast.If) and isinstance(p.test, ast.Call) and norm(p.test.func) == "isinstance":
                        if any(c is x for s in p.body for x in ast.walk(s)):
                            arm = norm(p.test.args[1])
                            break
                lit_arm = arm == "Literal"
                # an argument that the type checker knows to be exactly `str` (e.g. a piece of str(val).split(...)) is not a Literal either
                plain_str = tf is not None and not tf.any and set(tf.items) == {"builtins.str"}
                ok = wrapped or plain_str or not (may_lit or lit_arm)
                rep.ob("C16.d-sax-characters-get-str", xm, q, c, ok,
                       "plain str / non-literal term" if ok else "a Literal is handed to characters(): Literal(0) / Literal(False) / Literal('') are falsy and written as empty content", node=c)

    # ------------------------------------------------------------------ (e)
    rep.rule("C16.e-rows-from-bindings",
             "the JSON/XML/CSV writers take the rows from self.result.bindings (all rows, including those binding nothing); none iterates the "
             "Result object, whose iterator omits all-unbound rows", floor=3)
    for name, cls in (("jsonresults", "JSONResultSerializer"), ("xmlresults", "XMLResultSerializer"), ("csvresults", "CSVResultSerializer")):
        mod = repo.mod("rdflib.plugins.sparql.results." + name)
        f = mod.func(cls + ".serialize")
        uses = [n for n in ast.walk(f) if isinstance(n, ast.Attribute) and norm(n) == "self.result.bindings"]
        direct = [n for n in ast.walk(f) if isinstance(n, (ast.For, ast.comprehension)) and norm(n.iter) in ("self.result", "iter(self.result)")]
        ok = bool(uses) and not direct
        rep.ob("C16.e-rows-from-bindings", mod, cls + ".serialize", "rows = self.result.bindings", ok,
               "every row is written" if ok else "the writer iterates the Result object (or not .bindings): rows in which nothing is bound are dropped", node=f)

    # ------------------------------------------------------------------ (f)
    rep.rule("C16.f-no-splitlines-in-record-readers",
             "the TSV/CSV result readers (and the N-Triples/N-Quads line readers) do not split records with str.splitlines(), which also "
             "splits on VT, FF, FS/GS/RS, NEL, LS and PS - characters that may appear raw inside a literal", floor=4)
    for name in ("rdflib.plugins.sparql.results.tsvresults", "rdflib.plugins.sparql.results.csvresults", "rdflib.plugins.parsers.ntriples", "rdflib.plugins.parsers.nquads"):
        mod = repo.mod(name)
        bad = [n for n in ast.walk(mod.tree) if isinstance(n, ast.Call) and isinstance(n.func, ast.Attribute) and n.func.attr == "splitlines"]
        rep.ob("C16.f-no-splitlines-in-record-readers", mod, "<module>", "no .splitlines() in %s" % mod.rel, not bad,
               "" if not bad else "%s splits records with splitlines(): a literal containing U+2028, \\x0b, \\x0c, \\x85 ... is cut in the middle" % norm(bad[0])[:60], node=bad[0] if bad else mod.tree)


def more_rules(repo: Repo, rep: Report) -> None:
    json_memo_rule(repo, rep, "C16.g-json-terms-parsed-individually")
    more_rules2(repo, rep)


def json_memo_rule(repo: Repo, rep: Report, RULE: str) -> None:
    js = repo.mod("rdflib.plugins.sparql.results.jsonresults")
    # (g) no lossy memo in front of parseJsonTerm
    rep.rule(RULE,
             "JSONResult._get_bindings obtains every cell from parseJsonTerm(<that cell's object>); if parsed terms are memoised, the memo key contains "
             "all four fields parseJsonTerm reads (type, value, datatype, xml:lang)", floor=1)
    f = js.func("JSONResult._get_bindings")
    calls = [c for c in ast.walk(f) if isinstance(c, ast.Call) and norm(c.func) == "parseJsonTerm"]
    if not calls:
        raise AnalysisError("JSONResult._get_bindings no longer calls parseJsonTerm")
    memo_writes = [n for n in ast.walk(f) if isinstance(n, ast.Assign) and any(isinstance(t, ast.Subscript) for t in n.targets)
                   and any(isinstance(x, ast.Call) and norm(x.func) == "parseJsonTerm" for x in ast.walk(n.value))]
    memo_writes += [n for n in ast.walk(f) if isinstance(n, ast.Call) and isinstance(n.func, ast.Attribute) and n.func.attr == "setdefault"
                    and any(isinstance(x, ast.Call) and norm(x.func) == "parseJsonTerm" for a in n.args for x in ast.walk(a))]
    lossy = []
    for w in memo_writes:
        # the container written must not be the result row itself (row[var] = parseJsonTerm(...) is the normal form)
        tgt = ([t for t in w.targets if isinstance(t, ast.Subscript)] or [w.targets[0]])[0] if isinstance(w, ast.Assign) else w.func.value
        cont = tgt.value if isinstance(tgt, ast.Subscript) else tgt
        key = tgt.slice if isinstance(tgt, ast.Subscript) else (w.args[0] if isinstance(w, ast.Call) else None)
        reads = [x for x in ast.walk(f) if (isinstance(x, ast.Subscript) and x is not tgt and norm(x.value) == norm(cont) and isinstance(x.ctx, ast.Load))
                 or (isinstance(x, ast.Call) and isinstance(x.func, ast.Attribute) and x.func.attr == "get" and norm(x.func.value) == norm(cont))
                 or (isinstance(x, ast.Compare) and isinstance(x.ops[0], (ast.In, ast.NotIn)) and norm(x.comparators[0]) == norm(cont))]
        if not reads:
            continue  # a plain result container
        keytxt = norm(key) if key is not None else ""
        src = keytxt
        for n in ast.walk(f):
            if isinstance(n, ast.Assign) and norm(n.targets[0]) == keytxt:
                src = norm(n.value)
        if not all(k in src for k in ("type", "value", "datatype", "xml:lang")):
            lossy.append((w, src))
    rep.ob(RULE, js, "JSONResult._get_bindings", "parseJsonTerm results are not memoised under a partial key", not lossy,
           "each cell parsed from its own JSON object" if not lossy else "parsed terms are cached under the key %s, which omits a field parseJsonTerm reads: cells differing only in that field collapse to the first one" % lossy[0][1][:80],
           node=lossy[0][0] if lossy else f)



def more_rules2(repo: Repo, rep: Report) -> None:
    xm = repo.mod("rdflib.plugins.sparql.results.xmlresults")
    qm = repo.mod("rdflib.query")
    # (h) the literal's datatype attribute is written whenever the literal has a datatype
    rep.rule("C16.h-xml-datatype-written-when-present",
             "write_binding adds the datatype attribute under a test of the literal's datatype alone (`val.datatype` / `is not None`), not depending on "
             "which datatype it is: the reader builds an untyped literal whenever the attribute is absent", floor=1)
    wb = xm.func("SPARQLXMLWriter.write_binding")
    nd = 0
    for n in ast.walk(wb):
        if isinstance(n, ast.If) and any(isinstance(a, ast.Assign) and isinstance(a.targets[0], ast.Subscript) and "datatype" in norm(a.targets[0].slice) for a in n.body):
            nd += 1
            t = n.test
            simple = (isinstance(t, ast.Attribute) and t.attr == "datatype") or (
                isinstance(t, ast.Compare) and isinstance(t.ops[0], ast.IsNot) and isinstance(t.left, ast.Attribute) and t.left.attr == "datatype")
            rep.ob("C16.h-xml-datatype-written-when-present", xm, "SPARQLXMLWriter.write_binding", t, simple,
                   "written for every datatype" if simple else "the datatype attribute is omitted under `%s`: a literal of that datatype is read back as a plain literal (a different term)" % norm(t)[:80], node=n)
    if nd == 0:
        raise AnalysisError("write_binding: datatype attribute write not found")

    # (i) rows already handed out are kept
    rep.rule("C16.i-bindings-extend-not-replace",
             "Result.bindings, when it drains the pending generator, extends the list of rows already collected (Result.__iter__ appends the rows it "
             "has yielded to the same list) instead of replacing it", floor=1)
    getter = None
    for n in ast.walk(qm.cls("Result")):
        if isinstance(n, ast.FunctionDef) and n.name == "bindings" and any(norm(d) == "property" for d in n.decorator_list):
            getter = n
    if getter is None:
        raise AnalysisError("Result.bindings getter not found")
    drains = [n for n in ast.walk(getter) if isinstance(n, (ast.Assign, ast.AugAssign)) and "_genbindings" in norm(n.value) and "_bindings" in norm(n.targets[0] if isinstance(n, ast.Assign) else n.target)]
    drains += [n for n in ast.walk(getter) if isinstance(n, ast.Call) and isinstance(n.func, ast.Attribute) and n.func.attr == "extend" and "_bindings" in norm(n.func.value)]
    if not drains:
        raise AnalysisError("Result.bindings: draining of _genbindings not found")
    for d in drains:
        ok = isinstance(d, ast.AugAssign) or isinstance(d, ast.Call) or (isinstance(d, ast.Assign) and "self._bindings" in norm(d.value).replace("self._genbindings", ""))
        rep.ob("C16.i-bindings-extend-not-replace", qm, "Result.bindings", d, ok,
               "keeps the rows collected so far" if ok else "the rows already yielded by a partial iteration are discarded: every serializer then omits them", node=d)


EXEMPT: dict = {}


_run_base = run


def run(repo: Repo, rep: Report) -> None:  # noqa: F811
    _run_base(repo, rep)
    rep.rule("C16.j-carriage-return-as-character-reference",
             "XML line-end normalisation (XML 1.0 2.11) turns a raw CR, and CR LF, in element content into LF before the reader sees it; a writer of literal text therefore emits "
             "CR as the character reference &#13;. The repository's XMLWriter.text does (escape(text, {'\\r': '&#13;'})); the SPARQL XML results writer, which uses "
             "xml.sax's XMLGenerator.characters (no CR escaping), must do the same for literal content", floor=2)
    xw = repo.mod("rdflib.plugins.serializers.xmlwriter")
    tf = xw.func("XMLWriter.text")
    ent = None
    for st in xw.tree.body:
        if isinstance(st, ast.Assign) and isinstance(st.value, ast.Dict):
            for k, v in zip(st.value.keys, st.value.values):
                if isinstance(k, ast.Constant) and k.value == "\r" and isinstance(v, ast.Constant) and v.value == "&#13;":
                    ent = norm(st.targets[0])
    ok = ent is not None and any(isinstance(c, ast.Call) and norm(c.func) == "escape" and len(c.args) == 2 and norm(c.args[1]) == ent for c in own_nodes(tf))
    rep.ob("C16.j-carriage-return-as-character-reference", xw, "XMLWriter.text", "escape(text, %s) with '\\r' -> '&#13;'" % ent, ok,
           "" if ok else "XMLWriter.text no longer escapes CR", node=tf)
    xr = repo.mod("rdflib.plugins.sparql.results.xmlresults")
    wb = xr.func("SPARQLXMLWriter.write_binding")
    lit = [n for n in own_nodes(wb) if isinstance(n, ast.If) and "isinstance" in norm(n.test) and "Literal" in norm(n.test)]
    if not lit:
        raise AnalysisError("write_binding: literal branch not found")
    body_consts = [c.value for s in lit[0].body for c in ast.walk(s) if isinstance(c, ast.Constant) and isinstance(c.value, str)]
    raw = [c for s in lit[0].body for c in ast.walk(s) if isinstance(c, ast.Call) and isinstance(c.func, ast.Attribute) and c.func.attr == "characters"]
    ok = "&#13;" in body_consts and "\r" in body_consts
    rep.ob("C16.j-carriage-return-as-character-reference", xr, "SPARQLXMLWriter.write_binding", raw[0] if raw else "literal text written", ok,
           "CR is split off and written as &#13;" if ok else
           "the literal's text goes to XMLGenerator.characters() with its carriage returns raw: Literal('x\\ry') is read back as Literal('x\\ny') by every conforming XML parser", node=raw[0] if raw else lit[0])


_run_base2 = run


def run(repo: Repo, rep: Report) -> None:  # noqa: F811
    _run_base2(repo, rep)
    from vlib.cfg import CFG

    # ------------------------------------------------------------------ (k)
    rep.rule("C16.k-text-layer-keeps-line-ends",
             "a result reader that wraps a binary source in a text layer does not let that layer translate line ends: io.TextIOWrapper without newline='' (its default is universal "
             "newlines: every CR and CR LF, also inside a quoted CSV field, becomes LF before the csv module sees it); codecs.getreader() does not translate", floor=1)
    n_wrap = 0
    for name in ("rdflib.plugins.sparql.results.csvresults", "rdflib.plugins.sparql.results.tsvresults", "rdflib.plugins.sparql.results.jsonresults", "rdflib.plugins.sparql.results.xmlresults"):
        mod = repo.mod(name)
        for c in ast.walk(mod.tree):
            if isinstance(c, ast.Call) and norm(c.func).split(".")[-1] == "TextIOWrapper":
                n_wrap += 1
                nl = [k for k in c.keywords if k.arg == "newline"]
                ok = bool(nl) and isinstance(nl[0].value, ast.Constant) and nl[0].value.value == ""
                rep.ob("C16.k-text-layer-keeps-line-ends", mod, mod.qual_of(c) or "<module>", c, ok,
                       "newline=''" if ok else "TextIOWrapper with default newline translation: a literal containing CR or CR LF parsed from a binary source comes back with LF", node=c)
            if isinstance(c, ast.Call) and norm(c.func) == "codecs.getreader":
                n_wrap += 1
                rep.ob("C16.k-text-layer-keeps-line-ends", mod, mod.qual_of(c) or "<module>", c, True, "codecs stream readers do not translate line ends", node=c)
    if n_wrap == 0:
        rep.ob("C16.k-text-layer-keeps-line-ends", repo.mod("rdflib.plugins.sparql.results.csvresults"), "<module>", "no text layer over binary sources", True, "", node=repo.mod("rdflib.plugins.sparql.results.csvresults").tree)

    # ------------------------------------------------------------------ (l)
    rep.rule("C16.l-results-element-on-every-select-path",
             "XMLResultSerializer.serialize opens the <results> element (write_results_header) on every path of the SELECT branch before the rows are written - not on demand from "
             "the per-row code: a result with no rows still needs <results/>, without it the reader finds neither <results> nor <boolean> and rejects the document", floor=1)
    xr = repo.mod("rdflib.plugins.sparql.results.xmlresults")
    sf = xr.func("XMLResultSerializer.serialize")
    g = CFG(sf)
    hdr = [c for c in own_nodes(sf) if isinstance(c, ast.Call) and isinstance(c.func, ast.Attribute) and c.func.attr == "write_results_header"]
    loops_ = [n for n in own_nodes(sf) if isinstance(n, ast.For) and "bindings" in norm(n.iter)]
    if not loops_:
        raise AnalysisError("XMLResultSerializer.serialize: loop over the rows not found")
    ok = bool(hdr) and all(g.must_pass_before(g.node_of(l, xr), [g.node_of(h, xr) for h in hdr]) for l in loops_) and not any(any(h is x for x in ast.walk(l)) for h in hdr for l in loops_)
    rep.ob("C16.l-results-element-on-every-select-path", xr, "XMLResultSerializer.serialize", hdr[0] if hdr else "writer.write_results_header() before the row loop", ok,
           "<results> opened before the rows, also for zero rows" if ok else
           "serialize does not open <results> itself: with zero rows the document has no <results> element and cannot be read back", node=hdr[0] if hdr else sf)

    # ------------------------------------------------------------------ (m)
    rep.rule("C16.m-row-recorded-before-it-is-handed-out",
             "Result.__iter__ (draining the lazy solution generator) appends a row to the collected list BEFORE yielding it: a consumer that stops after the first row closes the "
             "generator while it is suspended at the yield, and a row recorded only after the yield would be missing from .bindings and from every serialisation", floor=1)
    qm = repo.mod("rdflib.query")
    it = qm.func("Result.__iter__")
    pairs = 0
    for blk in ast.walk(it):
        body = getattr(blk, "body", None)
        if not isinstance(body, list):
            continue
        for b in (body, getattr(blk, "orelse", []) or []):
            idx_app = [i for i, st in enumerate(b) if isinstance(st, ast.Expr) and isinstance(st.value, ast.Call) and isinstance(st.value.func, ast.Attribute) and st.value.func.attr == "append" and "_bindings" in norm(st.value.func.value)]
            idx_y = [i for i, st in enumerate(b) if isinstance(st, ast.Expr) and isinstance(st.value, ast.Yield)]
            for ia in idx_app:
                pairs += 1
                ys = [iy for iy in idx_y]
                # the yield of the same row: in this block or in a nested `if` that precedes the append
                nested_before = any(isinstance(st, (ast.If, ast.For, ast.While, ast.With)) and any(isinstance(x, ast.Yield) for x in ast.walk(st)) for st in b[:ia])
                ok = not any(iy < ia for iy in ys) and not nested_before
                rep.ob("C16.m-row-recorded-before-it-is-handed-out", qm, "Result.__iter__", b[ia], ok,
                       "recorded first" if ok else "the row is appended after it was yielded: `next(iter(result))` followed by result.serialize() loses the first row", node=b[ia])
    if pairs == 0:
        raise AnalysisError("Result.__iter__: recording of drained rows not found")
